"""Build /repo's current working tree (hooks on) into /verif/build/<config>-<hash>/.

Every check calls lib(config) / executor(...) first; the cache key is a hash over the
repository sources, the harness sources and the flags, so an edited /repo is always
rebuilt.  Stale build directories of the same config are removed.
"""
import time
import os, sys, hashlib, subprocess, glob, shutil, fcntl, concurrent.futures as cf

REPO = os.environ.get("VERIF_REPO", "/repo")
ROOT = os.path.dirname(os.path.dirname(os.path.dirname(os.path.abspath(__file__))))
BUILD = os.path.join(ROOT, "build")
HARNESS = os.path.join(ROOT, "harness")
GUARD = "-DCELLO_VERIF"

# ASan plus the UBSan checks that correspond to memory-safety / control-flow corruption.  Alignment
# and signed-overflow reports are deliberately off: no listed property speaks about them (hash_data
# reads unaligned words by design, Int arithmetic wraps) and they would be false alarms.
SAN = ["-fsanitize=address,array-bounds,null,return,unreachable,vla-bound",
       "-fno-sanitize-recover=all", "-fno-omit-frame-pointer"]

CONFIGS = {
    # name: (cc, cflags)
    "plain": ("gcc", ["-std=gnu99", "-g", "-fPIC"]),
    "asan": ("clang", ["-std=gnu99", "-g", "-O1"] + SAN),
    "fuzz": ("clang", ["-std=gnu99", "-g", "-O1", "-fsanitize=fuzzer-no-link"] + SAN),
    "O2": ("gcc", ["-std=gnu99", "-g", "-O2"]),
    "O3": ("gcc", ["-std=gnu99", "-g", "-O3"]),
    "ndebug": ("gcc", ["-std=gnu99", "-g", "-DCELLO_NDEBUG"]),
    "nocache": ("gcc", ["-std=gnu99", "-g", "-DCELLO_CACHE=0"]),
    "ngc": ("gcc", ["-std=gnu99", "-g", "-DCELLO_NGC"]),
    "allO2": ("gcc", ["-std=gnu99", "-g", "-O2", "-DCELLO_NDEBUG", "-DCELLO_CACHE=0", "-DCELLO_NGC"]),
    "ndebugO3": ("gcc", ["-std=gnu99", "-g", "-O3", "-DCELLO_NDEBUG"]),
    "clangO2": ("clang", ["-std=gnu99", "-g", "-O2"]),
}
COMMON = ["-I", os.path.join(REPO, "include"), "-w", "-DCELLO_NSTRACE", GUARD]


class BuildError(Exception):
    pass


def _hash_files(paths, extra=""):
    h = hashlib.sha1(extra.encode())
    for p in sorted(paths):
        h.update(p.encode())
        with open(p, "rb") as f:
            h.update(f.read())
    return h.hexdigest()[:16]


def _run(cmd):
    r = subprocess.run(cmd, stdout=subprocess.PIPE, stderr=subprocess.STDOUT, text=True)
    if r.returncode != 0:
        raise BuildError("build failed: %s\n%s" % (" ".join(cmd), r.stdout[-4000:]))


def repo_sources():
    return sorted(glob.glob(os.path.join(REPO, "src", "*.c")))


def lib(config):
    """Return the directory holding libCello.a for this config, building if needed."""
    cc, flags = CONFIGS[config]
    srcs = repo_sources()
    hdrs = glob.glob(os.path.join(REPO, "include", "*.h"))
    key = _hash_files(srcs + hdrs, cc + " ".join(flags + COMMON))
    os.makedirs(BUILD, exist_ok=True)
    d = os.path.join(BUILD, "%s-%s" % (config, key))
    lockf = open(os.path.join(BUILD, ".lock-" + config), "w")
    fcntl.flock(lockf, fcntl.LOCK_EX)
    try:
        if os.path.exists(os.path.join(d, "libCello.a")):
            os.utime(d)
        else:
            # keep the few most recently used trees of this config (parallel runs against scratch
            # copies via VERIF_REPO must not delete each other's builds); drop the rest
            olds = sorted(glob.glob(os.path.join(BUILD, config + "-*")), key=lambda x: os.path.getmtime(x), reverse=True)
            for old in olds[10:]:
                if time.time() - os.path.getmtime(old) > 4 * 3600:     # never a tree a concurrent run may still be using
                    shutil.rmtree(old, ignore_errors=True)
            tmp = d + ".tmp%d" % os.getpid()
            os.makedirs(tmp, exist_ok=True)
            objs = []
            cmds = []
            for s in srcs:
                o = os.path.join(tmp, os.path.basename(s)[:-2] + ".o")
                objs.append(o)
                cmds.append([cc] + flags + COMMON + ["-c", s, "-o", o])
            with cf.ThreadPoolExecutor(16) as ex:
                list(ex.map(_run, cmds))
            _run(["ar", "rcs", os.path.join(tmp, "libCello.a")] + objs)
            for o in objs:
                os.unlink(o)
            os.rename(tmp, d)
    finally:
        fcntl.flock(lockf, fcntl.LOCK_UN)
        lockf.close()
    return d


def _alt(config):
    """core.py builds a module's executors a second time with VERIF_ALT_BUILD=<config> (modules with ALT_BUILD = True):
    every request for the clang ASan configuration is answered with that configuration instead (gcc -O0 by default:
    the way the repository's own Makefile compiles).  A quarter of the Hypothesis workers use those executors."""
    alt = os.environ.get("VERIF_ALT_BUILD")
    return alt if (alt and config == "asan") else config


def executor(config, name, extra_cflags=(), extra_ldflags=(), sources=None):
    config = _alt(config)
    """Build harness/<name>.c against the given library config; return the binary path."""
    d = lib(config)
    cc, flags = CONFIGS[config]
    src = sources or [os.path.join(HARNESS, name + ".c")]
    deps = src + glob.glob(os.path.join(HARNESS, "*.h"))
    key = _hash_files(deps, " ".join(list(extra_cflags) + list(extra_ldflags)))
    out = os.path.join(d, "%s-%s" % (name, key))
    lockf = open(os.path.join(BUILD, ".lock-" + config), "w")
    fcntl.flock(lockf, fcntl.LOCK_EX)
    try:
        if not os.path.exists(out):
            for old in glob.glob(os.path.join(d, name + "-*")):
                os.unlink(old)
            tmp = out + ".tmp%d" % os.getpid()
            _run([cc] + flags + COMMON + ["-I", HARNESS] + list(extra_cflags) + src +
                 [os.path.join(d, "libCello.a"), "-lpthread", "-lm"] + list(extra_ldflags) + ["-o", tmp])
            os.rename(tmp, out)
    finally:
        fcntl.flock(lockf, fcntl.LOCK_UN)
        lockf.close()
    return out
