"""Value pools and encoders shared by the property modules."""
import struct
from hypothesis import strategies as st

I64_MIN, I64_MAX = -2**63, 2**63 - 1

_INT_GRID = sorted(set(
    [0, 1, -1, 2, -2, 7, -7, 255, 256, 65535, 65536,
     2**31 - 1, 2**31, 2**31 + 1, -2**31, -2**31 - 1, -2**31 + 1,
     2**32 - 1, 2**32, 2**32 + 1, -2**32, -2**32 + 1, -2**32 - 1,
     2**33, 3 * 2**31, 2**62, -2**62, 2**63 - 1, -2**63, 2**63 - 2, -2**63 + 1]))


def ints():
    """int64 values: boundary grid, small values, values near each other by 2^32 multiples, uniform."""
    return st.one_of(
        st.sampled_from(_INT_GRID),
        st.integers(-20, 20),
        st.integers(I64_MIN, I64_MAX),
        st.builds(lambda a, k: max(I64_MIN, min(I64_MAX, a + k * 2**32)), st.integers(-5, 5), st.integers(-2**31, 2**31)),
    )


def small_ints(lo=-8, hi=8):
    return st.integers(lo, hi)


def f2b(x):
    return struct.unpack("<Q", struct.pack("<d", x))[0]


def b2f(b):
    return struct.unpack("<d", struct.pack("<Q", b))[0]


_FLT_GRID = [0.0, -0.0, 5e-324, -5e-324, 2.2250738585072014e-308, -2.2250738585072014e-308,
             1.7976931348623157e308, -1.7976931348623157e308, float("inf"), float("-inf"),
             1.0, -1.0, 1.0000000000000002, 0.9999999999999999, 0.5, 2.0**24, 2.0**24 + 1, 16777217.0,
             2.0**53, 2.0**53 + 2, 1e15, 1e-15, 3.141592653589793, -2.5, 1e300, 1e-300, 123456.789]


def floats():
    """finite-or-infinite doubles, never NaN"""
    return st.one_of(st.sampled_from(_FLT_GRID), st.floats(allow_nan=False, allow_infinity=True),
                     st.floats(-1000, 1000, allow_nan=False))


def finite_floats():
    return st.one_of(st.sampled_from([x for x in _FLT_GRID if abs(x) != float("inf")]),
                     st.floats(allow_nan=False, allow_infinity=False),
                     st.floats(-1000, 1000, allow_nan=False))


def cbytes(max_size=24):
    """NUL-free byte strings (C strings), biased to share prefixes and to contain bytes >= 0x80."""
    base = st.binary(max_size=max_size).map(lambda b: bytes(x if x else 1 for x in b))
    small = st.lists(st.sampled_from([0x61, 0x62, 0x7f, 0x80, 0xff, 0x01, 0x20]), max_size=6).map(bytes)
    return st.one_of(base, small)


def enc_int(v):
    return "i:%d" % v


def enc_flt(x):
    return "f:%016x" % f2b(x)


def enc_str(b):
    return "s:" + bytes(b).hex()


def murmur64a(data, seed=0xCe110):
    """Independent MurmurHash64A (reference for hash_data)."""
    m = 0xc6a4a7935bd1e995
    r = 47
    mask = (1 << 64) - 1
    n = len(data)
    h = (seed ^ (n * m)) & mask
    nblocks = n // 8
    for i in range(nblocks):
        k = int.from_bytes(data[8 * i:8 * i + 8], "little")
        k = (k * m) & mask
        k ^= k >> r
        k = (k * m) & mask
        h ^= k
        h = (h * m) & mask
    tail = data[8 * nblocks:]
    t = len(tail)
    if t:
        for i in range(t - 1, -1, -1):
            h ^= tail[i] << (8 * i)
        h = (h * m) & mask
    h ^= h >> r
    h = (h * m) & mask
    h ^= h >> r
    return h
