"""Driver shared by all property checks: executor pipe protocol, Hypothesis workers,
replay tier, known findings, confirmation, evidence, exit status.

A property module (lib/vf/props/cNN.py) provides:
  ID, RULE, LEVEL ("exploration"|...), BUDGET = {"quick": n, "thorough": n}
  prepare(tier) -> dict of built paths (called once in the parent)
  strategy(tier) -> Hypothesis strategy producing a JSON-able case
  run_case(ctx, case) -> Result          (ctx gives executors)
  optional: KNOWN (list of known-finding reproductions), extra_phase(ctx, tier, ev),
            WORKERS = {"quick": n, "thorough": n}, SAMPLE(case) -> str
"""
import os, sys, json, time, signal, select, subprocess, hashlib, traceback, tempfile, glob
import multiprocessing as mp

from . import build

ROOT = build.ROOT
OUT = os.path.join(ROOT, "out")
REGRESS = os.path.join(ROOT, "regress")
EVID = os.path.join(ROOT, "evidence")
KNOWN_FILE = os.path.join(ROOT, "known_findings.txt")

CASE_TIMEOUT = float(os.environ.get("VERIF_CASE_TIMEOUT", "25"))


class Result:
    __slots__ = ("fail", "nontrivial", "events", "obs")

    def __init__(self, fail=None, nontrivial=False, events=(), obs=None):
        self.fail = fail          # None or message string
        self.nontrivial = nontrivial
        self.events = list(events)
        self.obs = obs


class HarnessBug(Exception):
    """The harness itself is inconsistent: abort the run (exit 3), never a VIOLATION."""


class Executor:
    """Persistent child; one case = text lines ending in 'end', answer = lines ending in 'done'."""

    def __init__(self, path, args=(), env=None, name=None):
        self.path = path
        self.args = list(args)
        self.env = dict(os.environ)
        self.env.setdefault("ASAN_OPTIONS", "detect_leaks=0:abort_on_error=0:allocator_may_return_null=1:handle_segv=1:detect_stack_use_after_return=0")
        self.env["UBSAN_OPTIONS"] = "print_stacktrace=1"
        if env:
            self.env.update(env)
        self.p = None
        self.errf = None
        self.spawns = 0

    def _spawn(self):
        self.close()
        self.errf = tempfile.TemporaryFile()
        self.p = subprocess.Popen([self.path] + self.args, stdin=subprocess.PIPE, stdout=subprocess.PIPE,
                                  stderr=self.errf, env=self.env, bufsize=0)
        self.buf = b""
        self.spawns += 1

    def close(self):
        if self.p is not None:
            try:
                self.p.kill()
            except Exception:
                pass
            try:
                self.p.stdin.close()
                self.p.stdout.close()
            except Exception:
                pass
            self.p.wait()
            self.p = None
        if self.errf is not None:
            self.errf.close()
            self.errf = None

    def _stderr_tail(self):
        try:
            self.errf.seek(0)
            data = self.errf.read().decode("latin-1")
        except Exception:
            return ""
        return data

    def run(self, text, fresh=False, timeout=None):
        """Send one case, return list of observation lines.  A dead or hung executor yields a
        final 'CRASH ...' / 'HANG' line; the next call respawns.  stdout of the child is block
        buffered, so after a crash the case is run once more in a fresh child with VF_FLUSH=1
        (line buffered) to learn which op died."""
        obs = self._run(text, fresh, timeout)
        if obs and obs[-1].startswith("CRASH") and "VF_FLUSH" not in self.env:
            self.env["VF_FLUSH"] = "1"
            try:
                obs2 = self._run(text, True, timeout)
            finally:
                del self.env["VF_FLUSH"]
                self.close()
            if obs2 and (obs2[-1].startswith("CRASH") or obs2[-1] == "HANG"):
                return obs2
        return obs

    def _run(self, text, fresh=False, timeout=None):
        self.ncases = getattr(self, "ncases", 0) + 1
        if timeout is None and getattr(self, "hangs", 0) > 0:
            # this executor object has already seen a hang: while the failing case is being shrunk, further hanging
            # candidates are cut short (the confirmation runs use fresh Executor objects and the full timeout again)
            timeout = 10.0 if self.hangs <= 2 else 4.0
        if self.ncases > int(os.environ.get("VERIF_RESPAWN_EVERY", "3000")):
            fresh = True
        if fresh or self.p is None or self.p.poll() is not None:
            self._spawn()
            self.ncases = 1
        timeout = timeout or CASE_TIMEOUT
        data = text.encode("latin-1")
        if not data.endswith(b"\n"):
            data += b"\n"
        data += b"end\n"
        lines = []
        deadline = time.time() + timeout
        rfd = self.p.stdout.fileno()
        wfd = self.p.stdin.fileno()
        os.set_blocking(wfd, False)
        off = 0
        # interleave writing the case and reading the answer: neither side may block on a full pipe
        while True:
            nl = self.buf.find(b"\n")
            if nl >= 0:
                line = self.buf[:nl].decode("latin-1")
                self.buf = self.buf[nl + 1:]
                if line == "done":
                    return lines
                lines.append(line)
                continue
            left = deadline - time.time()
            if left <= 0:
                lines.append("HANG")
                self.hangs = getattr(self, "hangs", 0) + 1
                self.close()
                return lines
            wl = [wfd] if off < len(data) else []
            r, w, _ = select.select([rfd], wl, [], min(left, 1.0))
            if w:
                try:
                    off += os.write(wfd, data[off:off + 65536])
                except BlockingIOError:
                    pass
                except (BrokenPipeError, OSError):
                    off = len(data)
            if not r:
                continue
            chunk = os.read(rfd, 65536)
            if not chunk:
                rc = self.p.wait()
                err = self._stderr_tail()
                lines.append("CRASH rc=%d %s" % (rc, crash_summary(err)))
                self.last_stderr = err
                self.close()
                return lines
            self.buf += chunk


def crash_summary(err):
    """Short, address-free description of a sanitizer/signal report."""
    kind = ""
    frames = []
    for ln in err.splitlines():
        s = ln.strip()
        if "ERROR: AddressSanitizer" in s or "runtime error:" in s or "AddressSanitizer:" in s and not kind:
            k = s.split("ERROR: AddressSanitizer:")[-1].strip() if "ERROR: AddressSanitizer" in s else s
            k = k.split(" on address")[0].split(" on unknown address")[0]
            if not kind:
                kind = k[:120]
        if s.startswith("#") and " in " in s and len(frames) < 4:
            fn = s.split(" in ", 1)[1].split(" ")[0]
            frames.append(fn)
        if "Uncaught" in s and not kind:
            kind = s[:160]
    return ("kind=[%s] frames=%s" % (kind, ",".join(frames)))[:400]


class Ctx:
    """Per-worker context: lazily spawned executors built by prepare()."""

    def __init__(self, paths):
        self.paths = paths
        self.ex = {}

    def executor(self, name, args=(), env=None):
        key = (name, tuple(args))
        if key not in self.ex:
            self.ex[key] = Executor(self.paths[name], args, env)
        return self.ex[key]

    def close(self):
        for e in self.ex.values():
            e.close()
        self.ex = {}


def case_hash(case):
    return hashlib.sha1(json.dumps(case, sort_keys=True).encode()).hexdigest()[:16]


class Stats:
    def __init__(self):
        self.evals = 0
        self.nontrivial = set()
        self.events = {}
        self.samples = []
        self.sample_nt = []

    def add(self, case, res, sample_fn):
        self.evals += 1
        for e in res.events:
            self.events[e] = self.events.get(e, 0) + 1
        if res.nontrivial:
            h = case_hash(case)
            if h not in self.nontrivial:
                self.nontrivial.add(h)
                if len(self.sample_nt) < 3 or (len(self.sample_nt) < 6 and self.evals % 97 == 0):
                    self.sample_nt.append(sample_fn(case))
        elif len(self.samples) < 1:
            self.samples.append(sample_fn(case))

    def dump(self):
        return {"evals": self.evals, "nontrivial": sorted(self.nontrivial), "events": self.events,
                "samples": self.sample_nt + self.samples}


def _sample_fn(mod):
    f = getattr(mod, "SAMPLE", None)
    if f:
        return f
    return lambda case: case


def _worker(args):
    modname, tier, seed, widx, nexamples, paths = args
    import importlib
    mod = importlib.import_module("vf.props." + modname)
    from hypothesis import given, settings, seed as hseed, HealthCheck, Verbosity, Phase
    ctx = Ctx(paths)
    stats = Stats()
    sfn = _sample_fn(mod)
    state = {"last_fail": None, "fail_hash": None, "post": 0, "t_fail": None, "prev": None, "fail_prev": None}
    shrink_seconds = float(os.environ.get("VERIF_SHRINK_SECONDS", "90" if tier == "quick" else "300"))
    shrink_budget = int(os.environ.get("VERIF_SHRINK_EVALS", "400" if tier == "quick" else "1500"))

    class Fail(Exception):
        pass

    @hseed(seed * 64 + widx)
    @settings(max_examples=nexamples, database=None, deadline=None, derandomize=False,
              report_multiple_bugs=False, suppress_health_check=list(HealthCheck),
              verbosity=Verbosity.quiet, phases=[Phase.generate, Phase.shrink])
    @given(mod.strategy(tier))
    def prop(case):
        if state["last_fail"] is not None:
            # shrinking: bounded number of further evaluations; afterwards only the best known
            # failing case is still executed (Hypothesis replays it at the end), every other
            # candidate is treated as "not failing" so the shrinker stops quickly.
            state["post"] += 1
            if (state["post"] > shrink_budget or time.time() - state["t_fail"] > shrink_seconds) and case_hash(case) != state["fail_hash"]:
                return
        res = mod.run_case(ctx, case)
        stats.add(case, res, sfn)
        if res.fail:
            state["last_fail"] = (case, res.fail)
            state["fail_hash"] = case_hash(case)
            state["fail_prev"] = state["prev"]          # what the same executors ran just before (see confirm_seq)
            if state["t_fail"] is None:
                state["t_fail"] = time.time()
            raise Fail(res.fail)
        state["prev"] = case

    out = {"widx": widx, "fail": None, "error": None}
    try:
        prop()
    except Fail:
        out["fail"] = state["last_fail"]
    except HarnessBug as e:
        out["error"] = "HARNESS-BUG: %s" % e
    except Exception as e:
        if state["last_fail"] is not None and "Fail" in repr(e):
            out["fail"] = state["last_fail"]
        elif state["last_fail"] is not None and type(e).__name__ in ("Flaky", "FlakyFailure"):
            out["unstable"] = state["last_fail"]
        else:
            out["error"] = "worker exception: " + traceback.format_exc()[-3000:]
    finally:
        ctx.close()
    out["stats"] = stats.dump()
    out["fail_prev"] = state["fail_prev"]
    return out


def load_known():
    """Parse known_findings.txt -> {property: {key: what}} for 'finding:' lines."""
    res = {}
    if not os.path.exists(KNOWN_FILE):
        return res
    for ln in open(KNOWN_FILE):
        ln = ln.strip()
        if not ln.startswith("finding:"):
            continue
        body = ln[len("finding:"):].strip()
        fields = {}
        import shlex
        for tok in shlex.split(body):
            if "=" in tok:
                k, v = tok.split("=", 1)
                fields[k] = v
        if "property" in fields and "key" in fields:
            res.setdefault(fields["property"], {})[fields["key"]] = fields.get("what", "")
    return res


def write_evidence(mod, tier, seed, cov, wall, violations, assumptions=None):
    global EVID
    if os.path.realpath(build.REPO) != "/repo":
        # runs against a scratch tree (VERIF_REPO=...) must not overwrite the evidence of /repo itself
        EVID = os.path.join(OUT, "evidence-scratch")
    os.makedirs(EVID, exist_ok=True)
    ev = {"property_id": mod.ID, "tier": tier, "seed": seed, "level": getattr(mod, "LEVEL", "exploration"),
          "coverage": cov, "assumptions": assumptions or getattr(mod, "ASSUMPTIONS", []),
          "wall_s": round(wall, 2), "violations": violations}
    tmp = os.path.join(EVID, mod.ID + ".json.tmp")
    with open(tmp, "w") as f:
        json.dump(ev, f, indent=1, default=str)
    os.rename(tmp, os.path.join(EVID, mod.ID + ".json"))


def save_replay(mod, case, msg, tag="fail", build_name=None, prefix=None):
    d = os.path.join(OUT, mod.ID)
    os.makedirs(d, exist_ok=True)
    p = os.path.join(d, "%s-%s.case" % (tag, case_hash(case)))
    rec = {"property": mod.ID, "case": case, "message": msg}
    if build_name:
        rec["build"] = build_name
    if prefix:
        rec["prefix"] = prefix        # cases the same executor has to run first (state that outlives a case)
    with open(p, "w") as f:
        json.dump(rec, f, indent=1)
    return p


def load_case(path):
    with open(path) as f:
        d = json.load(f)
    return d["case"], d


def confirm(mod, paths, case, times=3, need=None):
    """Replay a failing case in fresh executors; return number of failures (stops as soon as `need` is reached
    or can no longer be reached)."""
    n = 0
    msg = None
    need = need or times
    for k in range(times):
        if n >= need or n + (times - k) < need:
            break
        ctx = Ctx(paths)
        try:
            res = mod.run_case(ctx, case)
            if res.fail:
                n += 1
                msg = res.fail
        finally:
            ctx.close()
    return n, msg


def confirm_seq(mod, paths, prefix, case, times=3, need=None):
    """Like confirm(), but every fresh executor first runs the cases of `prefix` (their outcome is ignored): some
    failures need state that outlives a case inside the tested library (a static cache, a collector that was torn
    down) and never show when the case is the first one a process sees."""
    n = 0
    msg = None
    need = need or times
    for k in range(times):
        if n >= need or n + (times - k) < need:
            break
        ctx = Ctx(paths)
        try:
            for pc in prefix:
                try:
                    mod.run_case(ctx, pc)
                except HarnessBug:
                    pass
            res = mod.run_case(ctx, case)
            if res.fail:
                n += 1
                msg = res.fail
        finally:
            ctx.close()
    return n, msg


def fuzz_phase(mod, paths, tier, seed):
    """Optional libFuzzer campaigns (module attribute FUZZ).  Each target embeds its own oracle and traps on a
    violation; the saved crash-* input is the replay file (run the target binary on it).  -seed only pins a campaign
    approximately; the artifact is the reproducible unit.  Only crash-* artifacts count (never timeout/oom/slow-unit)."""
    out = {"fuzz": []}
    viols = []
    for spec in getattr(mod, "FUZZ", []):
        binp = paths[spec["target"]]
        runs = spec["runs"][tier]
        jobs = spec.get("jobs", {"quick": 4, "thorough": 16})[tier]
        d = os.path.join(OUT, mod.ID, "fuzz-%s-%d" % (spec["target"], os.getpid()))
        os.makedirs(d, exist_ok=True)
        procs = []
        # spec["asan"]: extra ASan options (fz_exc: deep, varied recursion gives every allocation a new stack trace, and the
        # stack depot and the quarantine then grow by gigabytes over a campaign)
        env = dict(os.environ, ASAN_OPTIONS="detect_leaks=0:abort_on_error=0:handle_segv=1" + spec.get("asan", ""))
        for j in range(jobs):
            cd = os.path.join(d, "corpus%d" % j)
            os.makedirs(cd, exist_ok=True)
            for f in glob.glob(os.path.join(REGRESS, mod.ID, "fuzz", "*")):
                try:
                    import shutil
                    shutil.copy(f, cd)
                except Exception:
                    pass
            log = open(os.path.join(d, "log%d" % j), "w")
            procs.append((subprocess.Popen([binp, "-runs=%d" % max(1, runs // jobs), "-seed=%d" % (seed * 100 + j + 1),
                                            "-max_len=%d" % spec.get("max_len", 256), "-artifact_prefix=%s/" % d,
                                            "-timeout=60", "-print_final_stats=1", cd],
                                           stdout=log, stderr=subprocess.STDOUT, env=env), log))
        execs = 0
        units = 0
        for j, (p, log) in enumerate(procs):
            p.wait()
            log.close()
            txt = open(os.path.join(d, "log%d" % j), errors="replace").read()
            for ln in txt.splitlines():
                if ln.startswith("stat::number_of_executed_units:"):
                    execs += int(ln.split(":")[-1])
            units += len(os.listdir(os.path.join(d, "corpus%d" % j)))
        crashes = sorted(glob.glob(os.path.join(d, "crash-*")))
        for c in crashes[:3]:
            fails = 0
            msg = ""
            for _ in range(3):
                r = subprocess.run([binp, c], capture_output=True, text=True, errors="replace", env=env)
                if r.returncode != 0:
                    fails += 1
                    m = [l for l in r.stderr.splitlines() if "FZ-VIOLATION" in l or "ERROR: AddressSanitizer" in l]
                    msg = (m[0] if m else r.stderr[-200:]).strip()
            if fails == 3:
                viols.append((c, "libFuzzer target %s: %s" % (spec["target"], msg)))
        out["fuzz"].append({"target": spec["target"], "executions": execs, "corpus_units": units, "crash_artifacts": len(crashes),
                            "runs_requested": runs, "jobs": jobs})
        if not crashes:
            import shutil
            shutil.rmtree(d, ignore_errors=True)
    return out, viols


def main(modname, argv):
    import importlib, argparse
    ap = argparse.ArgumentParser()
    ap.add_argument("--tier", default=os.environ.get("VERIF_TIER", "quick"))
    ap.add_argument("--replay", default=None)
    ap.add_argument("--examples", type=int, default=None)
    ap.add_argument("--workers", type=int, default=None)
    a = ap.parse_args(argv)
    tier = a.tier if a.tier in ("quick", "thorough") else "quick"
    try:
        seed = int(os.environ.get("VERIF_SEED", "1"))
    except ValueError:
        seed = 1
    mod = importlib.import_module("vf.props." + modname)
    t0 = time.time()
    try:
        paths = mod.prepare(tier)
    except build.BuildError as e:
        print("ERROR %s" % e)
        return 3

    # modules with ALT_BUILD = True get a second set of executors (gcc -O0 instead of clang -O1 ASan): a quarter of the
    # Hypothesis workers use them; a failing case remembers its build ("build" in the replay file)
    paths_alt = None
    if getattr(mod, "ALT_BUILD", False):
        os.environ["VERIF_ALT_BUILD"] = "plain"
        try:
            paths_alt = mod.prepare(tier)
        except build.BuildError as e:
            print("ERROR %s" % e)
            return 3
        finally:
            del os.environ["VERIF_ALT_BUILD"]

    if a.replay:
        try:
            case, meta = load_case(a.replay)
            if isinstance(meta, dict) and meta.get("build") == "plain" and paths_alt:
                paths = paths_alt
        except (ValueError, KeyError, UnicodeDecodeError):
            # not a JSON case: a libFuzzer artifact - run the module's fuzz target(s) on it
            env = dict(os.environ, ASAN_OPTIONS="detect_leaks=0", FZ_EXPLAIN="1")
            for spec in getattr(mod, "FUZZ", []):
                r = subprocess.run([paths[spec["target"]], a.replay], capture_output=True, text=True, errors="replace", env=env)
                print(r.stderr[-1500:])
                if r.returncode != 0:
                    print("VIOLATION property=%s replay=%s" % (mod.ID, os.path.abspath(a.replay)))
                    return 1
            print("replay: pass")
            return 0
        ctx = Ctx(paths)
        for pc in (meta.get("prefix") or []) if isinstance(meta, dict) else []:
            try:
                mod.run_case(ctx, pc)
            except HarnessBug:
                pass
        res = mod.run_case(ctx, case)
        ctx.close()
        if res.fail:
            print("replay: FAIL %s" % res.fail)
            print("VIOLATION property=%s replay=%s" % (mod.ID, os.path.abspath(a.replay)))
            return 1
        print("replay: pass")
        return 0

    stats = Stats()
    sfn = _sample_fn(mod)
    violations = []      # (path, msg)
    unstable = []
    known_lines = []
    extra = {}
    known = load_known().get(mod.ID, {})

    # 1. known-finding reproductions (bounded, one per listed finding)
    kf_status = {}
    for kf in getattr(mod, "KNOWN", []):
        key = kf["key"]
        ctx = Ctx(paths)
        try:
            res = mod.run_case(ctx, kf["case"])
        finally:
            ctx.close()
        stats.evals += 1
        if res.fail:
            if key in known:
                known_lines.append("KNOWN-FINDING: property=%s key=%s %s" % (mod.ID, key, known[key] or kf.get("what", "")))
                kf_status[key] = "reproduces"
            else:
                p = save_replay(mod, kf["case"], res.fail, "known-unlisted")
                violations.append((p, res.fail))
        else:
            kf_status[key] = "no longer reproduces"
    extra["known_findings"] = kf_status

    # 2. replay tier
    rdir = os.path.join(REGRESS, mod.ID)
    nreg = 0
    for f in sorted(glob.glob(os.path.join(rdir, "*.case"))):
        case, meta = load_case(f)
        for pp in ([paths, paths_alt] if paths_alt else [paths]):       # former failing cases run on both builds
            ctx = Ctx(pp)
            try:
                res = mod.run_case(ctx, case)
            finally:
                ctx.close()
            stats.add(case, res, sfn)
            if res.fail:
                n, msg = confirm(mod, pp, case)
                if n == 3:
                    violations.append((f, res.fail))
                else:
                    unstable.append((f, res.fail))
                break
        nreg += 1
    extra["regress_cases"] = nreg

    # 3. optional exhaustive / enumerated phase owned by the module
    if hasattr(mod, "extra_phase") and not violations:
        ctx = Ctx(paths)
        try:
            r = mod.extra_phase(ctx, tier, stats, sfn)
        finally:
            ctx.close()
        if r:
            for (case, msg) in r.get("fails", []):
                n, m2 = confirm(mod, paths, case)
                if n == 3:
                    violations.append((save_replay(mod, case, msg), msg))
                else:
                    unstable.append((save_replay(mod, case, msg, "unstable"), msg))
            extra.update(r.get("extra", {}))

    # 4. Hypothesis workers
    errors = []
    alt_w = set()
    budget = a.examples or mod.BUDGET[tier]
    nworkers = a.workers or getattr(mod, "WORKERS", {"quick": 4, "thorough": 16})[tier]
    if budget > 0 and not violations:
        per = max(1, budget // nworkers)
        alt_w = set(w for w in range(nworkers) if paths_alt and w % 4 == 3)
        jobs = [(modname, tier, seed, w, per, paths_alt if w in alt_w else paths) for w in range(nworkers)]
        # ProcessPoolExecutor, not multiprocessing.Pool: when the kernel kills a worker (out of memory) Pool.map waits
        # for ever, the executor raises
        from concurrent.futures import ProcessPoolExecutor
        from concurrent.futures.process import BrokenProcessPool
        try:
            with ProcessPoolExecutor(nworkers, mp_context=mp.get_context("fork")) as pool:
                results = list(pool.map(_worker, jobs))
        except BrokenProcessPool:
            results = []
            errors.append("a worker process died abnormally (killed by the kernel - out of memory?); nothing is concluded from this run")
        seen_fail = set()
        for r in results:
            st = r["stats"]
            stats.evals += st["evals"]
            stats.nontrivial.update(st["nontrivial"])
            for k, v in st["events"].items():
                stats.events[k] = stats.events.get(k, 0) + v
            for s in st["samples"]:
                if len(stats.sample_nt) < 8:
                    stats.sample_nt.append(s)
            if r["error"]:
                errors.append(r["error"])
            if r.get("unstable"):
                case, msg = r["unstable"]
                unstable.append((save_replay(mod, case, msg, "unstable"), msg))
            if r["fail"]:
                case, msg = r["fail"]
                h = case_hash(case)
                if h in seen_fail:
                    continue
                seen_fail.add(h)
                need = getattr(mod, "CONFIRM", (3, 3))
                wb = "plain" if r["widx"] in alt_w else None
                if wb:
                    msg = "[gcc -O0 build] " + msg
                if len(violations) >= 2:
                    # two confirmed violations are enough to report; further failing cases are only listed
                    unstable.append((save_replay(mod, case, msg, "unconfirmed", wb), "not re-run (two violations already confirmed): " + msg))
                    continue
                n, m2 = confirm(mod, paths_alt if wb else paths, case, need[1], need[0])
                if n >= need[0]:
                    violations.append((save_replay(mod, case, msg, "fail", wb), msg))
                    continue
                prev = r.get("fail_prev")
                if prev is not None:
                    n, m2 = confirm_seq(mod, paths_alt if wb else paths, [prev], case, need[1], need[0])
                    if n >= need[0]:
                        msg = "[only after another case in the same process] " + msg
                        violations.append((save_replay(mod, case, msg, "fail", wb, [prev]), msg))
                        continue
                unstable.append((save_replay(mod, case, msg, "unstable", wb), msg))

    if getattr(mod, "FUZZ", None) and not violations:
        fz, fv = fuzz_phase(mod, paths, tier, seed)
        extra.update(fz)
        violations.extend(fv)

    wall = time.time() - t0
    cov = {"evaluations": stats.evals, "distinct_nontrivial": len(stats.nontrivial),
           "rule": mod.RULE, "samples": (stats.sample_nt + stats.samples)[:8],
           "events": dict(sorted(stats.events.items())), "unstable": [u[1][:300] for u in unstable],
           "errors": errors[:3], "engine": "hypothesis %d workers, seed %d%s" % (nworkers, seed, (" (workers %s on the gcc -O0 build)" % ",".join(str(w) for w in sorted(alt_w))) if (budget > 0 and not violations and paths_alt and alt_w) else "")}
    cov.update(extra)
    write_evidence(mod, tier, seed, cov, wall, len(violations))
    for ln in known_lines:
        print(ln)
    if errors and not violations:
        print("ERROR %s" % errors[0])
        return 3
    print("%s tier=%s seed=%d evaluations=%d distinct_nontrivial=%d violations=%d unstable=%d wall=%.1fs" %
          (mod.ID, tier, seed, stats.evals, len(stats.nontrivial), len(violations), len(unstable), wall))
    if violations:
        for p, msg in violations:
            print("  failure: %s" % msg[:600].replace("\n", " | "))
            print("VIOLATION property=%s replay=%s" % (mod.ID, p))
        return 1
    return 0
