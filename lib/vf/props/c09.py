"""C09 - cmp is a consistent total order and the predicates derive from it."""
from hypothesis import strategies as st
from .. import build, gen
from ..core import Result, HarnessBug

ID = "C09"
LEVEL = "exploration"
BUDGET = {"quick": 6000, "thorough": 1200000}
RULE = ("case = three values of one family (Int | Float(no NaN) | String, incl. strings sharing a 31..4097 byte prefix | Type, "
        "static and run-time created (new(Type, name, size)) with prefix-related names | plain struct of 3, 16, 20 or 75 bytes | "
        "sequences Array/List/Tuple of mixed kinds with Int, String, Float or 20-byte struct elements, up to 30 elements, also Tuples of Arrays/Lists/Tuples | Tree) built in "
        "generated allocation classes (heap, stack, embedded in Array / List / Table value / Tree key) and, for containers, "
        "through generated histories (seq: push, direct, push_at front, detour, trim by resize, clear+refill, copy, assign "
        "over a container of the same / another element type, assign from an empty source then fill, concat, reserve, stack "
        "tuple, Tuple assigned from an Array; Tree: direct, detour with removals, copy, assign from a Tree / a Table / over a "
        "Tree of other key+value types, clear+refill); all 9 ordered pairs are compared with cmp and the six predicates, then "
        "scalar values are used as Tree keys. non-trivial = some pair is reference-unequal and (Int: |a-b| >= 2^31; Float: "
        "involves +-0, inf, a denormal or 1-ulp neighbours; String: proper prefix or a byte >= 0x80; Type/struct: always; "
        "sequence/Tree: common prefix >= 1 element and differing in length or in the last compared element). "
        "distinct = distinct case JSON.")
ASSUMPTIONS = ["Tree elements are compared in the order the implementation's own forward iteration yields them (checked by C03/C11)",
               "NaN excluded (statement); cross-family comparisons (Int vs String...) are out of contract and not generated",
               "run-time created types get names that no other type in the process carries (two distinct type objects with one "
               "name: name order says equal, 'only for equal values' says unequal - not asserted either way)",
               "a sequence reached through a history is dumped before it is compared; a dump that differs from the generated "
               "element list is reported as a failed set-up (a defect of the history operation, C04's subject), not as an order"]

TYPE_NAMES = ["Int", "Float", "String", "Array", "List", "Table", "Tree", "Tuple", "Type", "Ref", "Box", "Range",
              "Slice", "Zip", "Filter", "Map", "File", "Mutex", "Thread", "Function", "Exception", "KeyError",
              "IOError", "TypeError", "ValueError", "Cmp", "Hash", "Len", "Iter", "Get", "Push", "C_Str", "C_Int",
              # user types whose names are prefixes / extensions of other names
              "Blob", "Blo", "BlobX", "In", "IntX", "Blo", "BlobX", "In", "IntX"]
# names for run-time created types: prefixes / extensions of built-in names, none carried by another type of the executor
DYN_NAMES = [b"Int_", b"In_", b"I", b"Strin", b"Stringy", b"Tre", b"Tree2", b"A", b"Arra", b"Arrayz", b"Zz", b"Bl", b"Blob_",
             b"Uber", b"\xc3\x9cber", b"Typ", b"Typed"]

BLOB_T = {3: ("Blob3", "b3:"), 16: ("Blob", "b:"), 20: ("Blob20", "b20:"), 75: ("Blob75", "b75:")}
ALLOCS = ["heap", "stack", "embed", "heap", "stack", "embed", "lst", "tabv", "treek"]

SEQ_HOWS = ["push", "direct", "front", "detour", "trim", "clear_refill", "copy", "assign", "assign_retype",
            "assign_empty_fill", "concat", "reserve"]
TUP_HOWS = ["direct", "push", "stup", "detour", "trim", "copy", "assign", "from_array", "concat"]
MAP_HOWS = ["direct", "direct", "detour", "copy", "assign", "assign_x", "assign_retype", "clear_refill"]
# element type (and one literal) a container holds before it is retyped by assign: another size (Int 8 -> Blob20 24),
# a type without destructor -> one with (Int -> String) and the reverse (String -> Float)
OTHER_LIT = {"Int": ("Blob20", "b20:" + "5a" * 20), "String": ("Int", "i:7"), "Float": ("String", "s:6f6c64"),
             "Blob20": ("Int", "i:7")}                      # ... and a smaller element (8) before a larger one (24)


def prepare(tier):
    # every case runs under a generated choice of the clang -O1 ASan build and the gcc -O0 build: arithmetic that
    # overflows (a comparison computed as a difference) is folded away by one compiler and not by the other
    return {"ex_vm": build.executor("asan", "ex_vm"), "ex_vm_plain": build.executor("plain", "ex_vm")}


# ---- container histories (shared with c10) ------------------------------------------------

def seq_lines(slot, kind, et, lits, how, extra, fresh):
    """ex_vm lines after which %slot is a `kind` holding exactly the literals `lits` (element type et), reached through
    the history `how`.  extra: >= 1 literal of et for detours; fresh() hands out unused slots.  Every line answers ok."""
    L = []
    S = "%%%d" % slot
    n = len(lits)
    oet, olit = OTHER_LIT[et]

    def objs(ls):
        out = []
        for x in ls:
            s_ = fresh()
            L.append("new %%%d heap t:%s %s" % (s_, et, x))
            out.append("%%%d" % s_)
        return out

    if kind == "Tuple":
        if how == "from_array":
            a = fresh()
            L.append(("new %%%d heap t:Array t:%s %s" % (a, et, " ".join(lits))).rstrip())
            L.append("new %s heap t:Tuple" % S)
            L.append("assign %s %%%d" % (S, a))
            return L
        refs = objs(lits)
        if how == "stup":
            L.append(("stup %s %s" % (S, " ".join(refs))).rstrip())
        elif how in ("push", "detour"):
            L.append("new %s heap t:Tuple" % S)
            for j, r in enumerate(refs):
                L.append("push %s %s" % (S, r))
                if how == "detour" and j == n // 2:
                    x = objs(extra[:1])[0]
                    L.append("push %s %s" % (S, x))
                    L.append("pop %s" % S)
            if how == "detour" and n:
                x = objs(extra[:1])[0]
                L.append("push_at %s %s i:0" % (S, x))      # push_at needs an existing position: not on an empty container
                L.append("pop_at %s i:0" % S)
        elif how == "trim":
            L.append("new %s heap t:Tuple %s" % (S, " ".join(refs + objs(extra))))
            L.append("resize %s %d" % (S, n))
        elif how == "concat":
            h = n // 2
            a = fresh()
            L.append(("new %s heap t:Tuple %s" % (S, " ".join(refs[:h]))).rstrip())
            L.append(("stup %%%d %s" % (a, " ".join(refs[h:]))).rstrip())
            L.append("concat %s %%%d" % (S, a))
        elif how in ("copy", "assign"):
            a = fresh()
            L.append(("new %%%d heap t:Tuple %s" % (a, " ".join(refs))).rstrip())
            if how == "copy":
                L.append("copy %s %%%d" % (S, a))
            else:
                L.append("new %s heap t:Tuple %s" % (S, objs(extra[:1])[0]))
                L.append("assign %s %%%d" % (S, a))
        else:                                   # direct (also the fallback for histories a Tuple does not have)
            L.append(("new %s heap t:Tuple %s" % (S, " ".join(refs))).rstrip())
        return L
    other = "List" if kind == "Array" else "Array"
    if how == "direct":
        L.append(("new %s heap t:%s t:%s %s" % (S, kind, et, " ".join(lits))).rstrip())
    elif how == "front":
        L.append("new %s heap t:%s t:%s" % (S, kind, et))
        for j, x in enumerate(reversed(lits)):
            L.append("push_at %s %s i:0" % (S, x) if j else "push %s %s" % (S, x))
    elif how == "detour":
        L.append("new %s heap t:%s t:%s" % (S, kind, et))
        for j, x in enumerate(lits):
            L.append("push %s %s" % (S, x))
            if j == n // 2:
                for e in extra:
                    L.append("push %s %s" % (S, e))
                for e in extra:
                    L.append("pop %s" % S)
        if n:
            L.append("push_at %s %s i:0" % (S, extra[0]))
            L.append("pop_at %s i:0" % S)
    elif how == "trim":
        L.append("new %s heap t:%s t:%s" % (S, kind, et))
        for x in list(lits) + list(extra):
            L.append("push %s %s" % (S, x))
        L.append("resize %s %d" % (S, n))
    elif how == "clear_refill":
        L.append("new %s heap t:%s t:%s %s" % (S, kind, et, " ".join(extra)))
        L.append("resize %s 0" % S)
        for x in lits:
            L.append("push %s %s" % (S, x))
    elif how in ("copy", "assign", "assign_retype"):
        a = fresh()
        if how == "copy":
            L.append(("new %%%d heap t:%s t:%s %s" % (a, kind, et, " ".join(lits))).rstrip())
            L.append("copy %s %%%d" % (S, a))
        else:
            L.append(("new %%%d heap t:%s t:%s %s" % (a, other, et, " ".join(lits))).rstrip())
            if how == "assign":
                L.append("new %s heap t:%s t:%s %s" % (S, kind, et, " ".join(extra)))
            else:
                L.append("new %s heap t:%s t:%s %s %s" % (S, kind, oet, olit, olit))
            L.append("assign %s %%%d" % (S, a))
    elif how == "assign_empty_fill":
        a = fresh()
        L.append("new %%%d heap t:%s t:%s" % (a, other, et))
        L.append("new %s heap t:%s t:%s %s %s" % (S, kind, oet, olit, olit))
        L.append("assign %s %%%d" % (S, a))
        for x in lits:
            L.append("push %s %s" % (S, x))
    elif how == "concat":
        h = n // 2
        a = fresh()
        L.append(("new %s heap t:%s t:%s %s" % (S, kind, et, " ".join(lits[:h]))).rstrip())
        L.append(("new %%%d heap t:%s t:%s %s" % (a, other, et, " ".join(lits[h:]))).rstrip())
        L.append("concat %s %%%d" % (S, a))
    else:                                       # push, reserve
        L.append("new %s heap t:%s t:%s" % (S, kind, et))
        if how == "reserve" and kind == "Array":
            L.append("resize %s %d" % (S, n + 9))
        for x in lits:
            L.append("push %s %s" % (S, x))
    return L


def map_lines(slot, kind, kt, vt, pairs, how, extra, fresh, reserve=0):
    """ex_vm lines after which %slot is a `kind` (Table | Tree) of kt -> vt on which `pairs` [(klit, vlit)...] were set in
    order, reached through the history `how`.  extra: [(klit, vlit)...] whose keys are not among the pairs' keys."""
    L = []
    S = "%%%d" % slot
    okt = "String" if kt != "String" else "Int"
    ovt = "Blob" if vt != "Blob" else "Int"            # another value size (16 bytes against 8)
    olit = {"String": "s:6b", "Int": "i:1", "Blob": "b:" + "5a" * 16}

    def fill(tgt, k_):
        L.append("new %s heap t:%s t:%s t:%s" % (tgt, k_, kt, vt))
        if reserve and k_ == "Table":
            L.append("resize %s %d" % (tgt, reserve + len(pairs)))
        for (a, b) in pairs:
            L.append("set %s %s %s" % (tgt, a, b))

    if how == "detour" and extra:
        L.append("new %s heap t:%s t:%s t:%s" % (S, kind, kt, vt))
        at = len(pairs) // 2
        for j, (a, b) in enumerate(pairs):
            if j == at:
                for (x, y) in extra:
                    L.append("set %s %s %s" % (S, x, y))
            L.append("set %s %s %s" % (S, a, b))
        if at >= len(pairs):
            for (x, y) in extra:
                L.append("set %s %s %s" % (S, x, y))
        for x in sorted(set(x for (x, y) in extra)):
            L.append("rem %s %s" % (S, x))
    elif how == "clear_refill":
        L.append("new %s heap t:%s t:%s t:%s" % (S, kind, kt, vt))
        for (x, y) in list(extra) + list(reversed(pairs[:2])):
            L.append("set %s %s %s" % (S, x, y))
        L.append("resize %s 0" % S)
        for (a, b) in pairs:
            L.append("set %s %s %s" % (S, a, b))
    elif how in ("copy", "assign", "assign_x", "assign_retype"):
        a_ = "%%%d" % fresh()
        fill(a_, kind if how != "assign_x" else ("Tree" if kind == "Table" else "Table"))
        if how == "copy":
            L.append("copy %s %s" % (S, a_))
        else:
            if how == "assign_retype":
                L.append("new %s heap t:%s t:%s t:%s" % (S, kind, okt, ovt))
                L.append("set %s %s %s" % (S, olit[okt], olit[ovt]))
            else:
                L.append("new %s heap t:%s t:%s t:%s" % (S, kind, kt, vt))
                for (x, y) in extra[:1]:
                    L.append("set %s %s %s" % (S, x, y))
            L.append("assign %s %s" % (S, a_))
    else:
        fill(S, kind)
    return L


# ---- generators -------------------------------------------------------------------------

def _scalar(kind):
    if kind == "int":
        return gen.ints().map(lambda v: ["int", v])
    if kind == "flt":
        return gen.floats().map(lambda x: ["flt", gen.f2b(x)])
    if kind == "str":
        return gen.cbytes().map(lambda b: ["str", b.hex()])
    if kind == "type":
        return st.one_of(st.sampled_from(TYPE_NAMES).map(lambda n: ["type", n]),
                         st.sampled_from(DYN_NAMES).map(lambda b: ["dtype", b.hex()]))
    raise ValueError(kind)


@st.composite
def _related_ints(draw):
    a = draw(gen.ints())
    out = [a]
    for _ in range(2):
        how = draw(st.integers(0, 5))
        if how == 0:
            b = draw(gen.ints())
        elif how == 1:
            b = a + draw(st.sampled_from([2**31, -2**31, 2**32, -2**32, 2**32 + 1, 2**63, -2**63, 2**33, 3 * 2**32]))
        elif how == 2:
            b = a + draw(st.integers(-3, 3))
        elif how == 3:
            b = -a
        elif how == 4:
            b = a + draw(st.integers(-8, 8)) * 2**32
        else:
            b = a
        b = max(gen.I64_MIN, min(gen.I64_MAX, b))
        out.append(b)
    return [["int", v] for v in out]


@st.composite
def _related_strs(draw):
    a = draw(gen.cbytes())
    if draw(st.integers(0, 3)) == 0:
        # a long common prefix: lengths around typical buffer / word sizes, the difference sits at the far end
        n = draw(st.sampled_from([31, 32, 33, 63, 64, 65, 127, 128, 129, 255, 256, 257, 1000, 4097]))
        unit = draw(gen.cbytes(6)) or b"a"
        a = (unit * (n // len(unit) + 1))[:n] + draw(gen.cbytes(3))
    out = [a]
    for _ in range(2):
        how = draw(st.integers(0, 5))
        if how == 0:
            b = draw(gen.cbytes())
        elif how == 1:
            b = a[:draw(st.integers(0, len(a)))]
        elif how == 2:
            b = a + draw(gen.cbytes(4))
        elif how == 3 and a:
            i = draw(st.integers(0, len(a) - 1))
            b = a[:i] + bytes([draw(st.sampled_from([1, 0x7f, 0x80, 0xff, 0x41]))]) + a[i + 1:]
        elif how == 5 and a:
            i = len(a) - 1 - draw(st.integers(0, min(8, len(a) - 1)))
            b = a[:i] + bytes([draw(st.sampled_from([1, 0x7f, 0x80, 0xff, 0x41]))]) + a[i + 1:draw(st.integers(i + 1, len(a)))]
        else:
            b = a
        out.append(b)
    return [["str", b.hex()] for b in out]


@st.composite
def _related_flts(draw):
    import math
    a = draw(gen.floats())
    out = [a]
    for _ in range(2):
        how = draw(st.integers(0, 4))
        if how == 0:
            b = draw(gen.floats())
        elif how == 1:
            b = -a
        elif how == 2 and not math.isinf(a):
            bits = gen.f2b(a)
            nb = bits + draw(st.sampled_from([1, -1, 2]))
            b = gen.b2f(nb % 2**64)
            if math.isnan(b):
                b = a
        elif how == 3:
            b = draw(st.sampled_from([0.0, -0.0, float("inf"), float("-inf"), 5e-324, -5e-324]))
        else:
            b = a
        out.append(b)
    return [["flt", gen.f2b(x)] for x in out]


@st.composite
def _related_blobs(draw):
    """plain structs of one size (3, 16, 20 or 75 bytes): byte-wise order, the difference at any position incl. the last"""
    n = draw(st.sampled_from([16, 16, 3, 20, 75]))
    edge = [bytes(n), bytes(n - 1) + b"\x01", b"\x80" + bytes(n - 1), b"\x7f" + bytes(n - 1), b"\xff" * n]
    a = draw(st.one_of(st.binary(min_size=n, max_size=n), st.sampled_from(edge)))
    out = [a]
    for _ in range(2):
        how = draw(st.integers(0, 3))
        if how == 0:
            b = draw(st.one_of(st.binary(min_size=n, max_size=n), st.sampled_from(edge)))
        elif how in (1, 2):
            i = draw(st.sampled_from([0, n - 1, n - 2, (n // 8) * 8 - 1 if n >= 8 else 0, (n // 8) * 8 if n % 8 else n - 1,
                                      draw(st.integers(0, n - 1))]))
            b = a[:i] + bytes([draw(st.sampled_from([0, 1, 0x7f, 0x80, 0xff, (a[i] + 1) % 256]))]) + a[i + 1:]
        else:
            b = a
        out.append(b)
    return [["blob", b.hex()] for b in out]


def _elems(et):
    if et == "Int":
        return st.one_of(st.integers(-3, 3), gen.ints())
    if et == "String":
        return st.one_of(st.sampled_from([b"", b"a", b"ab", b"b", b"\x80"]), gen.cbytes(6)).map(lambda b: b.hex())
    if et == "Float":
        return st.one_of(st.sampled_from([0.0, -0.0, 1.0, -1.0, 0.5]), gen.finite_floats()).map(gen.f2b)
    if et == "Blob20":
        return st.one_of(st.sampled_from([bytes(20), bytes(19) + b"\x01", b"\x80" + bytes(19), b"\xff" * 20]),
                         st.binary(min_size=20, max_size=20)).map(lambda b: b.hex())
    raise ValueError(et)


def _base_list(elem):
    return st.one_of(st.lists(elem, max_size=6), st.lists(elem, max_size=6), st.lists(elem, max_size=6),
                     st.lists(elem, min_size=7, max_size=30))


@st.composite
def _seqs(draw):
    et = draw(st.sampled_from(["Int", "Int", "String", "Float", "Blob20"]))
    base = draw(_base_list(_elems(et)))
    vals = []
    for i in range(3):
        how = draw(st.integers(0, 5)) if i else 0
        items = list(base)
        if how == 1:
            items = items[:draw(st.integers(0, len(items)))]
        elif how == 2:
            items = items + draw(st.lists(_elems(et), min_size=1, max_size=2))
        elif how == 3 and items:
            items[-1] = draw(_elems(et))
        elif how == 4 and items:
            j = draw(st.integers(0, len(items) - 1))
            items[j] = draw(_elems(et))
        elif how == 5:
            items = draw(st.lists(_elems(et), max_size=6))
        kind = draw(st.sampled_from(["Array", "List", "Tuple"]))
        hist = draw(st.sampled_from(TUP_HOWS if kind == "Tuple" else SEQ_HOWS))
        vals.append(["seq", kind, et, items, hist, draw(st.lists(_elems(et), min_size=1, max_size=2))])
    return vals


@st.composite
def _nested(draw):
    """Tuples (heap or stack) whose elements are themselves Array / List / Tuple of Int: the induced order recurses"""
    inner = st.tuples(st.sampled_from(["Array", "List", "Tuple"]), st.lists(st.integers(-2, 2), max_size=3))
    base = draw(st.lists(inner, max_size=4))
    vals = []
    for i in range(3):
        how = draw(st.integers(0, 4)) if i else 0
        items = [[k, list(x)] for (k, x) in base]
        if how == 1:
            items = items[:draw(st.integers(0, len(items)))]
        elif how == 2:
            items.append(list(draw(inner)))
        elif how == 3 and items:
            j = draw(st.integers(0, len(items) - 1))
            items[j] = list(draw(inner))
        elif how == 4 and items:
            # same elements, other inner kinds
            items = [[draw(st.sampled_from(["Array", "List", "Tuple"])), x] for (k, x) in items]
        vals.append(["nest", draw(st.sampled_from(["Tuple", "stup"])), [[k, list(x)] for (k, x) in items]])
    return vals


@st.composite
def _trees(draw):
    kt = draw(st.sampled_from(["Int", "String", "Int", "String", "Float"]))
    vt = draw(st.sampled_from(["Int", "String", "Float", "Blob20"]))      # a value wider than the key: key and value sizes differ
    pair = st.tuples(_elems(kt), _elems(vt))
    base = draw(st.one_of(st.lists(pair, max_size=5), st.lists(pair, max_size=5), st.lists(pair, min_size=6, max_size=20)))
    vals = []
    for i in range(3):
        pairs = [list(p) for p in base]
        how = draw(st.integers(0, 5)) if i else 0
        if how == 1 and pairs:
            pairs.pop(draw(st.integers(0, len(pairs) - 1)))
        elif how == 2:
            pairs.append(list(draw(pair)))
        elif how == 3 and pairs:
            j = draw(st.integers(0, len(pairs) - 1))
            pairs[j][1] = draw(_elems(vt))
        elif how == 4:
            pairs = [list(p) for p in draw(st.lists(pair, max_size=5))]
        elif how == 5 and len(pairs) <= 8:
            pairs = [list(p) for p in draw(st.permutations(pairs))]
        if draw(st.booleans()):
            pairs = list(reversed(pairs))
        vals.append(["tree", kt, vt, pairs, draw(st.sampled_from(MAP_HOWS)),
                     [list(p) for p in draw(st.lists(pair, min_size=1, max_size=3))]])
    return vals


@st.composite
def _alias_tuples(draw):
    """a heap Tuple that holds the same object at several positions, used as the LEFT operand only (as a right operand
    or under iteration such a tuple is the C11 known finding); compared with Arrays / Lists of the same element values"""
    et = draw(st.sampled_from(["Int", "String"]))
    pool = draw(st.lists(_elems(et), min_size=1, max_size=3))
    idx = draw(st.lists(st.integers(0, len(pool) - 1), min_size=2, max_size=6))
    seqv = [pool[i] for i in idx]
    vals = [["atup", et, pool, idx]]
    for _ in range(2):
        how = draw(st.integers(0, 4))
        items = list(seqv)
        if how == 1:
            items = items[:draw(st.integers(0, len(items)))]
        elif how == 2:
            items = items + [draw(_elems(et))]
        elif how == 3:
            items[-1] = draw(_elems(et))
        elif how == 4:
            j = draw(st.integers(0, len(items) - 1))
            items[j] = draw(_elems(et))
        vals.append(["seq", draw(st.sampled_from(["Array", "List"])), et, items])
    return vals


def strategy(tier):
    vals = st.one_of(
        _alias_tuples(),
        _related_ints(), _related_ints(), _related_strs(), _related_flts(),
        st.lists(_scalar("type"), min_size=3, max_size=3),
        _related_blobs(), _related_blobs(),
        _seqs(), _seqs(), _nested(), _trees(), _trees())
    return st.fixed_dictionaries({"vals": vals,
                                  "alloc": st.lists(st.sampled_from(ALLOCS), min_size=3, max_size=3),
                                  "cfg": st.sampled_from(["asan", "asan", "plain"])})


# ---- encoding ---------------------------------------------------------------------------

def _enc_scalar(v):
    k = v[0]
    if k == "int":
        return "Int", "i:%d" % v[1]
    if k == "flt":
        return "Float", "f:%016x" % v[1]
    if k == "str":
        return "String", "s:" + v[1]
    if k == "blob":
        n = len(v[1]) // 2
        if n not in BLOB_T:
            raise HarnessBug("blob size %d" % n)
        return BLOB_T[n][0], BLOB_T[n][1] + v[1]
    raise HarnessBug("scalar kind " + k)


def _enc_elem(et, e):
    if et == "Int":
        return "i:%d" % e
    if et == "String":
        return "s:" + e
    if et == "Float":
        return "f:%016x" % e
    if et == "Blob20":
        return "b20:" + e
    raise HarnessBug(et)


def _how_of(v):
    """history of a container value (cases written before histories existed have none)"""
    if v[0] == "seq":
        return v[4] if len(v) > 4 else ("direct" if v[1] == "Tuple" else "push")
    if v[0] == "tree":
        return v[4] if len(v) > 4 else "direct"
    return None


def encode(case):
    """slots 0..2 hold the three values; auxiliary objects go to 10..  Returns (lines, expected dumps {line index: text})"""
    lines = []
    dumps = {}
    aux = [10]
    dyn = {}

    def fresh():
        aux[0] += 1
        if aux[0] >= 250:
            raise HarnessBug("out of slots")
        return aux[0]

    for i, v in enumerate(case["vals"]):
        al = case["alloc"][i]
        k = v[0]
        if k == "type":
            lines.append("tmp %%%d t:%s" % (i, v[1]))
        elif k == "dtype":
            if v[1] not in dyn:
                dyn[v[1]] = fresh()
                lines.append("new %%%d heap t:Type s:%s i:8" % (dyn[v[1]], v[1]))
            lines.append("tmp %%%d %%%d" % (i, dyn[v[1]]))
        elif k in ("int", "flt", "str", "blob"):
            tn, lit = _enc_scalar(v)
            if al == "treek" and k == "blob":
                al = "tabv"
            if al == "stack":
                lines.append("tmp %%%d %s" % (i, lit))
            elif al == "heap":
                lines.append("new %%%d heap t:%s %s" % (i, tn, lit))
            elif al in ("embed", "lst"):
                a = fresh()
                lines.append("new %%%d heap t:%s t:%s %s" % (a, "Array" if al == "embed" else "List", tn, lit))
                lines.append("get %%%d i:0 %%%d" % (a, i))
            elif al == "tabv":
                a = fresh()
                lines.append("new %%%d heap t:Table t:Int t:%s" % (a, tn))
                lines.append("set %%%d i:1 %s" % (a, lit))
                lines.append("get %%%d i:1 %%%d" % (a, i))
            elif al == "treek":
                a = fresh()
                lines.append("new %%%d heap t:Tree t:%s t:Int" % (a, tn))
                lines.append("set %%%d %s i:1" % (a, lit))
                lines.append("findkey %%%d %s %%%d" % (a, lit, i))
            else:
                raise HarnessBug("alloc " + al)
        elif k == "atup":
            _, et, pool, idx = v
            ps = []
            for e in pool:
                sl = fresh()
                lines.append("new %%%d heap t:%s %s" % (sl, et, _enc_elem(et, e)))
                ps.append("%%%d" % sl)
            lines.append("new %%%d heap t:Tuple %s" % (i, " ".join(ps[j] for j in idx)))
        elif k == "seq":
            kind, et, items = v[1], v[2], v[3]
            lits = [_enc_elem(et, e) for e in items]
            extra = [_enc_elem(et, e) for e in (v[5] if len(v) > 5 else items[:1] or [{"Int": 0, "String": "61", "Float": 0, "Blob20": "00" * 20}[et]])]
            lines += seq_lines(i, kind, et, lits, _how_of(v), extra, fresh)
            dumps[len(lines)] = "ok %s[%s]" % ({"Array": "A", "List": "L", "Tuple": "U"}[kind], ",".join(l.replace(":", "", 1) for l in lits))
            lines.append("repr %%%d" % i)
        elif k == "nest":
            refs = []
            for (ik, xs) in v[2]:
                s_ = fresh()
                lines += seq_lines(s_, ik, "Int", ["i:%d" % x for x in xs], "direct", ["i:0"], fresh)
                refs.append("%%%d" % s_)
            if v[1] == "stup":
                lines.append(("stup %%%d %s" % (i, " ".join(refs))).rstrip())
            else:
                lines.append(("new %%%d heap t:Tuple %s" % (i, " ".join(refs))).rstrip())
        elif k == "tree":
            kt, vt, pairs = v[1], v[2], v[3]
            ps = [(_enc_elem(kt, a), _enc_elem(vt, b)) for (a, b) in pairs]
            have = set(_elem_key(kt, a) for (a, b) in pairs)
            extra, seen_x = [], set(have)
            for (a, b) in (v[5] if len(v) > 5 else []):
                if _elem_key(kt, a) not in seen_x:          # keys equal as values (0.0 and -0.0) are one key
                    seen_x.add(_elem_key(kt, a))
                    extra.append((_enc_elem(kt, a), _enc_elem(vt, b)))
            lines += map_lines(i, "Tree", kt, vt, ps, _how_of(v), extra, fresh)
            lines.append("fwdkv %%%d" % i)
        else:
            raise HarnessBug(k)
    lines.append("mark")
    return lines, dumps


# ---- reference --------------------------------------------------------------------------

def _sgn(x):
    return (x > 0) - (x < 0)


def _elem_key(et, e):
    if et == "Int":
        return e
    if et == "String":
        return bytes.fromhex(e)
    if et == "Float":
        return gen.b2f(e)
    if et == "Blob20":
        return bytes.fromhex(e)
    raise HarnessBug(et)


def _cmp_key(a, b):
    return (a > b) - (a < b)


def _parse_repr_scalar(tok):
    if tok[0] == "i":
        return int(tok[1:])
    if tok[0] == "s":
        return bytes.fromhex(tok[1:])
    if tok[0] == "f":
        return gen.b2f(int(tok[1:], 16))
    if tok.startswith("b20"):
        return bytes.fromhex(tok[3:])
    raise HarnessBug("repr " + tok)


def ref_value(v, obs_tree=None):
    """Comparable Python key for a value."""
    k = v[0]
    if k == "int":
        return v[1]
    if k == "flt":
        return gen.b2f(v[1])
    if k == "str":
        return bytes.fromhex(v[1])
    if k == "blob":
        return bytes.fromhex(v[1])
    if k == "type":
        return v[1].encode()
    if k == "dtype":
        return bytes.fromhex(v[1])
    if k == "atup":
        return [_elem_key(v[1], v[2][j]) for j in v[3]]
    if k == "seq":
        return [_elem_key(v[2], e) for e in v[3]]
    if k == "nest":
        return [list(xs) for (ik, xs) in v[2]]
    if k == "tree":
        return obs_tree
    raise HarnessBug(k)


def ref_cmp(x, y):
    if isinstance(x, list):
        for a, b in zip(x, y):
            c = ref_cmp(a, b)
            if c:
                return c
        return _cmp_key(len(x), len(y))
    if isinstance(x, tuple):
        for a, b in zip(x, y):
            c = ref_cmp(a, b)
            if c:
                return c
        return 0
    return _cmp_key(x, y)


def _nontrivial(case, keys):
    import math
    k = case["vals"][0][0]
    for i in range(3):
        for j in range(3):
            a, b = keys[i], keys[j]
            if ref_cmp(a, b) == 0:
                continue
            if k == "int":
                if abs(a - b) >= 2**31:
                    return True
            elif k == "flt":
                for x in (a, b):
                    if x == 0 or math.isinf(x) or abs(x) < 2.3e-308:
                        return True
                if abs(gen.f2b(a) - gen.f2b(b)) <= 2:
                    return True
            elif k == "str":
                if a.startswith(b) or b.startswith(a) or any(c >= 0x80 for c in a + b):
                    return True
            elif k in ("type", "dtype", "blob"):
                return True
            else:
                n = 0
                for p, q in zip(a, b):
                    if ref_cmp(p, q) != 0:
                        break
                    n += 1
                if n >= 1 and (n == min(len(a), len(b)) or n == min(len(a), len(b)) - 1):
                    return True
    return False


def _events(case):
    vals = case["vals"]
    kind = vals[0][0]
    fam = {"atup": "seq", "nest": "seq", "dtype": "type"}.get(kind, kind)
    ev = ["kind=" + fam]
    if kind == "atup":
        ev.append("seq:aliased-tuple")
    if kind == "nest":
        ev.append("seq:nested")
        if any(v[1] == "stup" for v in vals):
            ev.append("seq-how=stup")
    if fam == "type" and any(v[0] == "dtype" for v in vals):
        ev.append("type:run-time-created")
    if kind == "blob":
        ev.append("blob:size=%d" % (len(vals[0][1]) // 2))
    if kind == "str" and any(len(v[1]) >= 62 for v in vals):
        ev.append("str:long>=31")
    if kind in ("int", "flt", "str", "blob"):
        ev += sorted(set("alloc=" + a for a in case["alloc"]))
    if kind in ("seq", "atup"):
        ev += sorted(set("seq-how=" + _how_of(v) for v in vals if v[0] == "seq"))
        if any(v[0] == "seq" and len(v[3]) >= 7 for v in vals):
            ev.append("seq:len>=7")
    if kind == "tree":
        ev += sorted(set("tree-how=" + _how_of(v) for v in vals))
        if any(len(v[3]) >= 6 for v in vals):
            ev.append("tree:len>=6")
    return ev


def run_case(ctx, case):
    ex = ctx.executor("ex_vm_plain" if case.get("cfg") == "plain" else "ex_vm")
    lines, dumps = encode(case)
    prog = [l for l in lines if l != "mark"]
    pairs = [(i, j) for i in range(3) for j in range(3)]
    if case["vals"][0][0] == "atup":
        pairs = [(0, 1), (0, 2), (1, 2), (2, 1), (1, 1), (2, 2)]      # the aliased tuple only ever on the left
    for (i, j) in pairs:
        prog.append("cmp %%%d %%%d" % (i, j))
    kind = case["vals"][0][0]
    follow = kind in ("int", "str", "flt")
    if follow:
        tn = {"int": "Int", "str": "String", "flt": "Float"}[kind]
        prog.append("new %%5 heap t:Tree t:%s t:Int" % tn)
        for i in range(3):
            prog.append("set %%5 %%%d i:%d" % (i, i))
        for i in range(3):
            prog.append("mem %%5 %%%d" % i)
        prog.append("len %5")
    obs = ex.run("\n".join(prog))
    ev = _events(case)
    if len(obs) != len(prog):
        return Result("executor stopped early: %s" % (obs[-1] if obs else "no output"), False, ev, obs)
    # build reference keys
    keys = []
    tree_obs = []
    for idx, l in enumerate(prog):
        if l.startswith("fwdkv"):
            o = obs[idx]
            if not o.startswith("ok {"):
                return Result("tree iteration failed: " + o, False, ev, obs)
            body = o[4:-1]
            seq = []
            if body:
                for kv in body.split(","):
                    a, b = kv.split(":")
                    seq.append((_parse_repr_scalar(a), _parse_repr_scalar(b)))
            tree_obs.append(seq)
    ti = 0
    for v in case["vals"]:
        if v[0] == "tree":
            keys.append(ref_value(v, tree_obs[ti]))
            ti += 1
        else:
            keys.append(ref_value(v))
    for idx, l in enumerate(prog):
        if not l.startswith("cmp") and not obs[idx].startswith("ok"):
            return Result("setup op failed: %s -> %s" % (l, obs[idx]), False, ev, obs)
        if " depth=" in obs[idx] or " inv=" in obs[idx]:
            return Result("op `%s` left exception state behind: %s" % (l, obs[idx]), False, ev, obs)
        if idx in dumps and obs[idx] != dumps[idx]:
            return Result("setup: the container built by the history before `%s` shows %s, expected %s" % (l, obs[idx], dumps[idx]), False, ev, obs)
        if l.startswith("findkey") and obs[idx] != "ok found":
            return Result("setup op failed: %s -> %s" % (l, obs[idx]), False, ev, obs)
    base = len(prog) - len(pairs) - (8 if follow else 0)
    got = {}
    for n, (i, j) in enumerate(pairs):
        o = obs[base + n]
        if not o.startswith("ok c="):
            return Result("cmp(%d,%d) raised/crashed: %s" % (i, j, o), _nontrivial(case, keys), ev, obs)
        c = int(o.split()[1][2:])
        p = o.split()[2][2:]
        got[(i, j)] = c
        want = ref_cmp(keys[i], keys[j])
        if c != want:
            return Result("sign(cmp(v%d,v%d))=%d but reference order says %d" % (i, j, c, want), True, ev, obs)
        wp = "%d%d%d%d%d%d" % (c == 0, c != 0, c < 0, c > 0, c <= 0, c >= 0)
        if p != wp:
            return Result("predicates eq,neq,lt,gt,le,ge=%s but cmp sign %d implies %s" % (p, c, wp), True, ev, obs)
    for (i, j) in pairs:
        if (j, i) in got and got[(i, j)] != -got[(j, i)]:
            return Result("antisymmetry violated for (%d,%d)" % (i, j), True, ev, obs)
        if i == j and got[(i, j)] != 0:
            return Result("cmp(a,a) != 0", True, ev, obs)
    for i in range(3):
        for j in range(3):
            for k in range(3):
                if (i, j) in got and (j, k) in got and (i, k) in got and got[(i, j)] <= 0 and got[(j, k)] <= 0 and got[(i, k)] > 0:
                    return Result("transitivity violated (%d,%d,%d)" % (i, j, k), True, ev, obs)
    if follow:
        tail = obs[-4:]
        for t in tail[:3]:
            if t != "ok 1":
                return Result("value used as Tree key not found afterwards: %s" % t, True, ev, obs)
        distinct = 0
        for i in range(3):
            if all(ref_cmp(keys[i], keys[j]) != 0 for j in range(i)):
                distinct += 1
        if tail[3] != "ok %d" % distinct:
            return Result("Tree keyed by the values has len %s, expected %d distinct keys" % (tail[3], distinct), True, ev, obs)
    nt = _nontrivial(case, keys)
    return Result(None, nt, ev, obs)


KNOWN = []
