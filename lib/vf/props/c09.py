"""C09 - cmp is a consistent total order and the predicates derive from it."""
from hypothesis import strategies as st
from .. import build, gen
from ..core import Result, HarnessBug

ID = "C09"
LEVEL = "exploration"
BUDGET = {"quick": 6000, "thorough": 1200000}
RULE = ("case = three values of one family (Int | Float(no NaN) | String | Type | plain struct | sequences "
        "Array/List/Tuple of mixed kinds | Tree) built in generated allocation classes; all 9 ordered pairs are "
        "compared with cmp and the six predicates, then the values are used as Tree keys. non-trivial = some "
        "pair is reference-unequal and (Int: |a-b| >= 2^31; Float: involves +-0, inf, a denormal or 1-ulp neighbours; "
        "String: proper prefix or a byte >= 0x80; Type/struct: always; sequence/Tree: common prefix >= 1 element and "
        "differing in length or in the last compared element). distinct = distinct case JSON.")
ASSUMPTIONS = ["Tree elements are compared in the order the implementation's own forward iteration yields them (checked by C03/C11)",
               "NaN excluded (statement); cross-family comparisons (Int vs String...) are out of contract and not generated"]

TYPE_NAMES = ["Int", "Float", "String", "Array", "List", "Table", "Tree", "Tuple", "Type", "Ref", "Box", "Range",
              "Slice", "Zip", "Filter", "Map", "File", "Mutex", "Thread", "Function", "Exception", "KeyError",
              "IOError", "TypeError", "ValueError", "Cmp", "Hash", "Len", "Iter", "Get", "Push", "C_Str", "C_Int",
              # user types whose names are prefixes / extensions of other names
              "Blob", "Blo", "BlobX", "In", "IntX", "Blo", "BlobX", "In", "IntX"]


def prepare(tier):
    return {"ex_vm": build.executor("asan", "ex_vm")}


# ---- generators -------------------------------------------------------------------------

def _triple(elem, mutate=None):
    base = st.lists(elem, min_size=3, max_size=3)
    return base


def _scalar(kind):
    if kind == "int":
        return gen.ints().map(lambda v: ["int", v])
    if kind == "flt":
        return gen.floats().map(lambda x: ["flt", gen.f2b(x)])
    if kind == "str":
        return gen.cbytes().map(lambda b: ["str", b.hex()])
    if kind == "type":
        return st.sampled_from(TYPE_NAMES).map(lambda n: ["type", n])
    if kind == "blob":
        return st.binary(min_size=16, max_size=16).map(lambda b: ["blob", b.hex()])
    raise ValueError(kind)


@st.composite
def _related_ints(draw):
    a = draw(gen.ints())
    out = [a]
    for _ in range(2):
        how = draw(st.integers(0, 5))
        if how == 0:
            b = draw(gen.ints())
        elif how == 1:
            b = a + draw(st.sampled_from([2**31, -2**31, 2**32, -2**32, 2**32 + 1, 2**63, -2**63, 2**33, 3 * 2**32]))
        elif how == 2:
            b = a + draw(st.integers(-3, 3))
        elif how == 3:
            b = -a
        elif how == 4:
            b = a + draw(st.integers(-8, 8)) * 2**32
        else:
            b = a
        b = max(gen.I64_MIN, min(gen.I64_MAX, b))
        out.append(b)
    return [["int", v] for v in out]


@st.composite
def _related_strs(draw):
    a = draw(gen.cbytes())
    out = [a]
    for _ in range(2):
        how = draw(st.integers(0, 4))
        if how == 0:
            b = draw(gen.cbytes())
        elif how == 1:
            b = a[:draw(st.integers(0, len(a)))]
        elif how == 2:
            b = a + draw(gen.cbytes(4))
        elif how == 3 and a:
            i = draw(st.integers(0, len(a) - 1))
            b = a[:i] + bytes([draw(st.sampled_from([1, 0x7f, 0x80, 0xff, 0x41]))]) + a[i + 1:]
        else:
            b = a
        out.append(b)
    return [["str", b.hex()] for b in out]


@st.composite
def _related_flts(draw):
    import math
    a = draw(gen.floats())
    out = [a]
    for _ in range(2):
        how = draw(st.integers(0, 4))
        if how == 0:
            b = draw(gen.floats())
        elif how == 1:
            b = -a
        elif how == 2 and not math.isinf(a):
            bits = gen.f2b(a)
            nb = bits + draw(st.sampled_from([1, -1, 2]))
            b = gen.b2f(nb % 2**64)
            if math.isnan(b):
                b = a
        elif how == 3:
            b = draw(st.sampled_from([0.0, -0.0, float("inf"), float("-inf"), 5e-324, -5e-324]))
        else:
            b = a
        out.append(b)
    return [["flt", gen.f2b(x)] for x in out]


def _elems(et):
    if et == "Int":
        return st.one_of(st.integers(-3, 3), gen.ints())
    if et == "String":
        return st.one_of(st.sampled_from([b"", b"a", b"ab", b"b", b"\x80"]), gen.cbytes(6)).map(lambda b: b.hex())
    if et == "Float":
        return st.one_of(st.sampled_from([0.0, -0.0, 1.0, -1.0, 0.5]), gen.finite_floats()).map(gen.f2b)
    raise ValueError(et)


@st.composite
def _seqs(draw):
    et = draw(st.sampled_from(["Int", "Int", "String", "Float"]))
    base = draw(st.lists(_elems(et), max_size=6))
    vals = []
    for i in range(3):
        how = draw(st.integers(0, 5)) if i else 0
        items = list(base)
        if how == 1:
            items = items[:draw(st.integers(0, len(items)))]
        elif how == 2:
            items = items + draw(st.lists(_elems(et), min_size=1, max_size=2))
        elif how == 3 and items:
            items[-1] = draw(_elems(et))
        elif how == 4 and items:
            j = draw(st.integers(0, len(items) - 1))
            items[j] = draw(_elems(et))
        elif how == 5:
            items = draw(st.lists(_elems(et), max_size=6))
        kind = draw(st.sampled_from(["Array", "List", "Tuple"]))
        vals.append(["seq", kind, et, items])
    return vals


@st.composite
def _trees(draw):
    kt = draw(st.sampled_from(["Int", "String"]))
    vt = draw(st.sampled_from(["Int", "String"]))
    base = draw(st.lists(st.tuples(_elems(kt), _elems(vt)), max_size=5))
    vals = []
    for i in range(3):
        pairs = [list(p) for p in base]
        how = draw(st.integers(0, 4)) if i else 0
        if how == 1 and pairs:
            pairs.pop(draw(st.integers(0, len(pairs) - 1)))
        elif how == 2:
            pairs.append(list(draw(st.tuples(_elems(kt), _elems(vt)))))
        elif how == 3 and pairs:
            j = draw(st.integers(0, len(pairs) - 1))
            pairs[j][1] = draw(_elems(vt))
        elif how == 4:
            pairs = [list(p) for p in draw(st.lists(st.tuples(_elems(kt), _elems(vt)), max_size=5))]
        if draw(st.booleans()):
            pairs = list(reversed(pairs))
        vals.append(["tree", kt, vt, pairs])
    return vals


@st.composite
def _alias_tuples(draw):
    """a heap Tuple that holds the same object at several positions, used as the LEFT operand only (as a right operand
    or under iteration such a tuple is the C11 known finding); compared with Arrays / Lists of the same element values"""
    et = draw(st.sampled_from(["Int", "String"]))
    pool = draw(st.lists(_elems(et), min_size=1, max_size=3))
    idx = draw(st.lists(st.integers(0, len(pool) - 1), min_size=2, max_size=6))
    seqv = [pool[i] for i in idx]
    vals = [["atup", et, pool, idx]]
    for _ in range(2):
        how = draw(st.integers(0, 4))
        items = list(seqv)
        if how == 1:
            items = items[:draw(st.integers(0, len(items)))]
        elif how == 2:
            items = items + [draw(_elems(et))]
        elif how == 3:
            items[-1] = draw(_elems(et))
        elif how == 4:
            j = draw(st.integers(0, len(items) - 1))
            items[j] = draw(_elems(et))
        vals.append(["seq", draw(st.sampled_from(["Array", "List"])), et, items])
    return vals


def strategy(tier):
    vals = st.one_of(
        _alias_tuples(),
        _related_ints(), _related_ints(), _related_strs(), _related_flts(),
        st.lists(_scalar("type"), min_size=3, max_size=3),
        st.lists(_scalar("blob"), min_size=3, max_size=3),
        st.lists(st.sampled_from([bytes(16), bytes(15) + b"\x01", b"\x80" + bytes(15), b"\x7f" + bytes(15), b"\xff" * 16]).map(lambda b: ["blob", b.hex()]), min_size=3, max_size=3),
        _seqs(), _seqs(), _trees())
    return st.fixed_dictionaries({"vals": vals,
                                  "alloc": st.lists(st.sampled_from(["heap", "stack", "embed"]), min_size=3, max_size=3)})


# ---- encoding ---------------------------------------------------------------------------

def _enc_scalar(v):
    k = v[0]
    if k == "int":
        return "Int", "i:%d" % v[1]
    if k == "flt":
        return "Float", "f:%016x" % v[1]
    if k == "str":
        return "String", "s:" + v[1]
    if k == "blob":
        return "Blob", "b:" + v[1]
    raise HarnessBug("scalar kind " + k)


def _enc_elem(et, e):
    if et == "Int":
        return "i:%d" % e
    if et == "String":
        return "s:" + e
    if et == "Float":
        return "f:%016x" % e
    raise HarnessBug(et)


def encode(case):
    """slots 0..2 hold the three values; auxiliary objects go to 10.."""
    lines = []
    aux = [10]

    def fresh():
        aux[0] += 1
        return aux[0]

    for i, v in enumerate(case["vals"]):
        al = case["alloc"][i]
        k = v[0]
        if k == "type":
            lines.append("tmp %%%d t:%s" % (i, v[1]))
        elif k in ("int", "flt", "str", "blob"):
            tn, lit = _enc_scalar(v)
            if al == "stack" or (k == "blob" and al != "embed"):
                lines.append("tmp %%%d %s" % (i, lit))
            elif al == "heap":
                lines.append("new %%%d heap t:%s %s" % (i, tn, lit))
            else:
                a = fresh()
                lines.append("new %%%d heap t:Array t:%s %s" % (a, tn, lit))
                lines.append("get %%%d i:0 %%%d" % (a, i))
        elif k == "atup":
            _, et, pool, idx = v
            ps = []
            for e in pool:
                sl = fresh()
                lines.append("new %%%d heap t:%s %s" % (sl, et, _enc_elem(et, e)))
                ps.append("%%%d" % sl)
            lines.append("new %%%d heap t:Tuple %s" % (i, " ".join(ps[j] for j in idx)))
        elif k == "seq":
            _, kind, et, items = v
            if kind == "Tuple":
                refs = []
                for e in items:
                    s = fresh()
                    lines.append("new %%%d heap t:%s %s" % (s, et, _enc_elem(et, e)))
                    refs.append("%%%d" % s)
                lines.append("new %%%d heap t:Tuple %s" % (i, " ".join(refs)))
            else:
                lines.append("new %%%d heap t:%s t:%s" % (i, kind, et))
                for e in items:
                    lines.append("push %%%d %s" % (i, _enc_elem(et, e)))
        elif k == "tree":
            _, kt, vt, pairs = v
            lines.append("new %%%d heap t:Tree t:%s t:%s" % (i, kt, vt))
            for (a, b) in pairs:
                lines.append("set %%%d %s %s" % (i, _enc_elem(kt, a), _enc_elem(vt, b)))
            lines.append("fwdkv %%%d" % i)
        else:
            raise HarnessBug(k)
    lines.append("mark")
    return lines


# ---- reference --------------------------------------------------------------------------

def _sgn(x):
    return (x > 0) - (x < 0)


def _elem_key(et, e):
    if et == "Int":
        return e
    if et == "String":
        return bytes.fromhex(e)
    if et == "Float":
        return gen.b2f(e)
    raise HarnessBug(et)


def _cmp_key(a, b):
    return (a > b) - (a < b)


def _parse_repr_scalar(tok):
    if tok[0] == "i":
        return int(tok[1:])
    if tok[0] == "s":
        return bytes.fromhex(tok[1:])
    if tok[0] == "f":
        return gen.b2f(int(tok[1:], 16))
    raise HarnessBug("repr " + tok)


def ref_value(v, obs_tree=None):
    """Comparable Python key for a value."""
    k = v[0]
    if k == "int":
        return v[1]
    if k == "flt":
        return gen.b2f(v[1])
    if k == "str":
        return bytes.fromhex(v[1])
    if k == "blob":
        return bytes.fromhex(v[1])
    if k == "type":
        return v[1].encode()
    if k == "atup":
        return [_elem_key(v[1], v[2][j]) for j in v[3]]
    if k == "seq":
        return [_elem_key(v[2], e) for e in v[3]]
    if k == "tree":
        return obs_tree
    raise HarnessBug(k)


def ref_cmp(x, y):
    if isinstance(x, list):
        for a, b in zip(x, y):
            c = ref_cmp(a, b)
            if c:
                return c
        return _cmp_key(len(x), len(y))
    if isinstance(x, tuple):
        for a, b in zip(x, y):
            c = ref_cmp(a, b)
            if c:
                return c
        return 0
    return _cmp_key(x, y)


def _nontrivial(case, keys):
    import math
    k = case["vals"][0][0]
    for i in range(3):
        for j in range(3):
            a, b = keys[i], keys[j]
            if ref_cmp(a, b) == 0:
                continue
            if k == "int":
                if abs(a - b) >= 2**31:
                    return True
            elif k == "flt":
                for x in (a, b):
                    if x == 0 or math.isinf(x) or abs(x) < 2.3e-308:
                        return True
                if abs(gen.f2b(a) - gen.f2b(b)) <= 2:
                    return True
            elif k == "str":
                if a.startswith(b) or b.startswith(a) or any(c >= 0x80 for c in a + b):
                    return True
            elif k in ("type", "blob"):
                return True
            else:
                n = 0
                for p, q in zip(a, b):
                    if ref_cmp(p, q) != 0:
                        break
                    n += 1
                if n >= 1 and (n == min(len(a), len(b)) or n == min(len(a), len(b)) - 1):
                    return True
    return False


def run_case(ctx, case):
    ex = ctx.executor("ex_vm")
    lines = encode(case)
    prog = [l for l in lines if l != "mark"]
    pairs = [(i, j) for i in range(3) for j in range(3)]
    if case["vals"][0][0] == "atup":
        pairs = [(0, 1), (0, 2), (1, 2), (2, 1), (1, 1), (2, 2)]      # the aliased tuple only ever on the left
    for (i, j) in pairs:
        prog.append("cmp %%%d %%%d" % (i, j))
    kind = case["vals"][0][0]
    if kind == "atup":
        kind = "seq"
        ev_alias = True
    follow = kind in ("int", "str", "flt")
    if follow:
        tn = {"int": "Int", "str": "String", "flt": "Float"}[kind]
        prog.append("new %%5 heap t:Tree t:%s t:Int" % tn)
        for i in range(3):
            prog.append("set %%5 %%%d i:%d" % (i, i))
        for i in range(3):
            prog.append("mem %%5 %%%d" % i)
        prog.append("len %5")
    obs = ex.run("\n".join(prog))
    ev = ["kind=" + kind]
    if len(obs) != len(prog):
        return Result("executor stopped early: %s" % (obs[-1] if obs else "no output"), False, ev, obs)
    # build reference keys
    keys = []
    oi = 0
    tree_obs = []
    for idx, l in enumerate(prog):
        if l.startswith("fwdkv"):
            o = obs[idx]
            if not o.startswith("ok {"):
                return Result("tree iteration failed: " + o, False, ev, obs)
            body = o[4:-1]
            seq = []
            if body:
                for kv in body.split(","):
                    a, b = kv.split(":")
                    seq.append((_parse_repr_scalar(a), _parse_repr_scalar(b)))
            tree_obs.append(seq)
    ti = 0
    for v in case["vals"]:
        if v[0] == "tree":
            keys.append(ref_value(v, tree_obs[ti]))
            ti += 1
        else:
            keys.append(ref_value(v))
    for idx, l in enumerate(prog):
        if not l.startswith("cmp") and not obs[idx].startswith("ok"):
            return Result("setup op failed: %s -> %s" % (l, obs[idx]), False, ev, obs)
    base = len(prog) - len(pairs) - (8 if follow else 0)
    got = {}
    for n, (i, j) in enumerate(pairs):
        o = obs[base + n]
        if not o.startswith("ok c="):
            return Result("cmp(%d,%d) raised/crashed: %s" % (i, j, o), _nontrivial(case, keys), ev, obs)
        c = int(o.split()[1][2:])
        p = o.split()[2][2:]
        got[(i, j)] = c
        want = ref_cmp(keys[i], keys[j])
        if c != want:
            return Result("sign(cmp(v%d,v%d))=%d but reference order says %d" % (i, j, c, want), True, ev, obs)
        wp = "%d%d%d%d%d%d" % (c == 0, c != 0, c < 0, c > 0, c <= 0, c >= 0)
        if p != wp:
            return Result("predicates eq,neq,lt,gt,le,ge=%s but cmp sign %d implies %s" % (p, c, wp), True, ev, obs)
    for (i, j) in pairs:
        if (j, i) in got and got[(i, j)] != -got[(j, i)]:
            return Result("antisymmetry violated for (%d,%d)" % (i, j), True, ev, obs)
        if i == j and got[(i, j)] != 0:
            return Result("cmp(a,a) != 0", True, ev, obs)
    for i in range(3):
        for j in range(3):
            for k in range(3):
                if (i, j) in got and (j, k) in got and (i, k) in got and got[(i, j)] <= 0 and got[(j, k)] <= 0 and got[(i, k)] > 0:
                    return Result("transitivity violated (%d,%d,%d)" % (i, j, k), True, ev, obs)
    if follow:
        tail = obs[-4:]
        for t in tail[:3]:
            if t != "ok 1":
                return Result("value used as Tree key not found afterwards: %s" % t, True, ev, obs)
        distinct = 0
        for i in range(3):
            if all(ref_cmp(keys[i], keys[j]) != 0 for j in range(i)):
                distinct += 1
        if tail[3] != "ok %d" % distinct:
            return Result("Tree keyed by the values has len %s, expected %d distinct keys" % (tail[3], distinct), True, ev, obs)
    nt = _nontrivial(case, keys)
    return Result(None, nt, ev, obs)


KNOWN = []
