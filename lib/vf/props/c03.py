"""C03 - Tree behaves as an ordered map and stays balanced."""
import os
from .. import build
from ..core import Result
from . import maps

ID = "C03"
LEVEL = "exploration"
BUDGET = {"quick": 1600, "thorough": 360000}
RULE = ("case = op list (set/rem/get/mem/resize(0)/assign/copy/bulk fill+drain) over Tree<K,V> for Int, String and Probe "
        "keys with insertion/removal phases in ascending, descending, alternating-ends, random and universe order, "
        "drain-and-refill; after every mutation the tree is compared with a dict + sorted keys (len, strictly monotone "
        "forward iteration, exact reverse backward, mem/get over the key universe) and the red-black invariants (BST order, "
        "root black, no red-red, equal black height, parent links, node count, height <= 2*log2(n+1)) are checked through "
        "the CELLO_VERIF accessor. non-trivial = the case removed a node that had two children (measured through the hook "
        "just before the rem). distinct = distinct case JSON.")
ASSUMPTIONS = ["Python dict + sorted() is the reference ordered map", "white-box invariants read through Cello_Verif_Tree_Node (add-only hook)"]


def prepare(tier):
    return {"ex_vm": build.executor("asan", "ex_vm"), "fz_map": build.executor("fuzz", "fz_map", extra_ldflags=["-fsanitize=fuzzer"])}


# coverage-guided companion (libFuzzer, ASan): bytes -> op list over a Table<Int,Int> and a Tree<Int,Int> in lock step
# against a naive association array, keys from a collision family (harness/fz_map.c)
FUZZ = [{"target": "fz_map", "runs": {"quick": 8000, "thorough": 3000000}, "max_len": 200}]


def strategy(tier):
    # VF_MAPS_BASE=1: the generator without the extras (what C05/C10/C12/C18 use) - for sensitivity comparisons only
    return maps.map_case("Tree", extras=not os.environ.get("VF_MAPS_BASE"))


def run_case(ctx, case):
    r, fail, obs, ev = maps.run_map_case(ctx, case)
    nt = r.flags["two_children_rem"]
    return Result(fail, nt, ev, None)


def SAMPLE(case):
    return {"kt": case["kt"], "vt": case["vt"], "uni": case["uni"][:6] + ["..."], "ops": case["ops"][:12] + (["..."] if len(case["ops"]) > 12 else [])}


KNOWN = []
