"""C03 - Tree behaves as an ordered map and stays balanced."""
import os
from .. import build
from ..core import Result
from . import maps

ID = "C03"
ALT_BUILD = True          # a quarter of the workers run the gcc -O0 build (core.py)
LEVEL = "exploration"
BUDGET = {"quick": 1600, "thorough": 360000}
RULE = ("case = op list (set/rem/get/mem/resize(0)/assign/copy/bulk fill+drain in ascending, descending and strided orders/"
        "rebuild through the constructor's initial bindings new(Tree,K,V,k1,v1,...)) over Tree<K,V> for Int, String, Probe "
        "and 3-byte plain-struct (Tri) keys, values Int/String/Probe/Blob16/Tri/Blob20 (sizes that are not multiples of 8 included), "
        "with insertion/removal phases in ascending, descending, alternating-ends, random and universe order, "
        "drain-and-refill; value arguments that are the embedded value of another key of the same tree; assign from Table/Tree "
        "sources, optionally onto a tree that was assigned from a map of other key/value types (other node layout) just before; "
        "after every mutation the tree is compared with a dict + sorted keys (len, strictly monotone "
        "forward iteration, exact reverse backward, mem/get over the key universe) and the red-black invariants (BST order, "
        "root black, no red-red, equal black height, parent links, node count, height <= 2*log2(n+1)) are checked through "
        "the CELLO_VERIF accessor. For Probe keys every set/rem/get/mem (also of absent keys, also inside bulk phases and on "
        "both ends of a large tree) is bracketed by a counter of key comparisons: at most 4*log2(n+2)+6 (twice the height bound "
        "plus slack). non-trivial = the case removed a node that had two children (measured through the hook "
        "just before the rem). distinct = distinct case JSON.")
ASSUMPTIONS = ["Python dict + sorted() is the reference ordered map", "white-box invariants read through Cello_Verif_Tree_Node (add-only hook)",
               "constructor bindings use unique keys (what a repeated key in the constructor means is not documented)",
               "a set never passes the container's own embedded key, nor the value bound to the very key being set (self-assignment of String "
               "is outside every listed property, DESIGN 8.3); a value embedded under a different key is ordinary user code",
               "'logarithmic' is measured in key comparisons (Probe_Cmp calls) per operation; an implementation may compare twice per level",
               "resize(tree, n > 0) is not part of the statement and is not issued"]


def prepare(tier):
    return {"ex_vm": build.executor("asan", "ex_vm"), "fz_map": build.executor("fuzz", "fz_map", extra_ldflags=["-fsanitize=fuzzer"])}


# coverage-guided companion (libFuzzer, ASan): bytes -> op list over a Table<Int,Int> and a Tree<Int,Int> in lock step
# against a naive association array, keys from a collision family (harness/fz_map.c)
FUZZ = [{"target": "fz_map", "runs": {"quick": 8000, "thorough": 3000000}, "max_len": 200}]


def strategy(tier):
    # VF_MAPS_BASE=1: the generator without the extras (what C05/C10/C12/C18 use) - for sensitivity comparisons only
    return maps.map_case("Tree", extras=not os.environ.get("VF_MAPS_BASE"))


def run_case(ctx, case):
    r, fail, obs, ev = maps.run_map_case(ctx, case)
    nt = r.flags["two_children_rem"]
    return Result(fail, nt, ev, None)


def SAMPLE(case):
    return {"kt": case["kt"], "vt": case["vt"], "uni": case["uni"][:6] + ["..."], "ops": case["ops"][:12] + (["..."] if len(case["ops"]) > 12 else [])}


KNOWN = []
