"""C17 - the collector's registry is exactly the set of live managed objects."""
from hypothesis import strategies as st
from ..core import Result, HarnessBug
from . import gcx

ID = "C17"
LEVEL = "exploration"
BUDGET = {"quick": 1200, "thorough": 300000}
RULE = ("case = history in a fresh Cello Thread (own collector): managed / root / raw allocations of instrumented objects, a "
        "share of them from an arena at addresses chosen so that (addr>>3) falls into a requested residue class modulo the "
        "registry size the insertion will see (same-home pile-ups, last-slot wrap-around, chains across the array end at "
        "sizes 5, 11, 23, 53, 101, 197, ...), explicit del/del_root/del_raw, dropping references, forced collections, churn "
        "(threshold collections, growth and shrink rehash), Boxes swept together with their pointees (removals during a sweep). "
        "After EVERY op the executor compares the registry with its own ledger through the CELLO_VERIF accessor: mem(gc,p) <=> "
        "p allocated managed/root and neither deleted nor finalised (checked for all live and all dead addresses and raw "
        "objects), one entry per object with the right root flag, stored home == (addr>>3) % nslots, robin-hood probe order, "
        "occupied == nitems < nslots, addresses within [minptr,maxptr], no mark bit left set. non-trivial = the history saw a "
        "displaced or wrapped entry AND a removal while entries were displaced AND both a growth and a shrink of the registry. "
        "distinct = distinct case JSON.")
ASSUMPTIONS = ["finalisation is observed through the instrumented objects' destructors; conservative retention only delays it, the oracle follows the observed events",
               "registry internals read through Cello_Verif_GC_Stat/Entry (add-only hooks)"]

prepare = gcx.prepare


@st.composite
def _case(draw):
    ops = []
    nobj = 0
    kept = {}          # stack slot -> handle
    rootraw = []       # live root/raw handles
    n = draw(st.integers(3, 60))
    churn_next = 10000
    burst_budget = 1 if draw(st.integers(0, 3)) == 0 else 0      # at most one large root burst, in a quarter of the cases
    res_pool = draw(st.lists(st.integers(0, 400), min_size=1, max_size=3))
    for _ in range(n):
        o = draw(st.sampled_from(["new", "new", "new", "newa", "newa", "newa", "del", "drop", "collect", "churn", "box", "burst", "rootburst"]))
        if o in ("new", "newa"):
            cls = draw(st.sampled_from(["m", "m", "m", "root", "raw"]))
            nobj += 1
            h = nobj
            if o == "newa":
                res = draw(st.one_of(st.sampled_from(res_pool), st.just(-1), st.sampled_from(res_pool).map(lambda r: r + 1)))
                ops.append(["new", h, "nodea", cls, res])
            else:
                ops.append(["new", h, "node", cls])
            if cls == "m":
                if draw(st.booleans()) and len(kept) < 16:
                    slot = min(set(range(16)) - set(kept))
                    kept[slot] = h
                    ops.append(["stk", slot, h])
            else:
                rootraw.append(h)
        elif o == "burst":
            # many arena objects into the same residue classes: long probe chains / wrap-around
            cnt = draw(st.sampled_from([4, 9, 20, 45]))
            r = draw(st.sampled_from(res_pool))
            last = draw(st.booleans())
            for j in range(cnt):
                nobj += 1
                ops.append(["new", nobj, "nodea", "m", -2 if last else r + (j % 2)])
        elif o == "rootburst" and burst_budget:
            burst_budget = 0
            # many root objects at once: the registry passes through the larger sizes (197, 389, 683) with live entries,
            # and shrinks again when they are deleted.  One compact op (expanded when the case is encoded).
            cnt = draw(st.sampled_from([60, 60, 200, 200, 420]))
            ops.append(["rootburst", nobj + 1, cnt, draw(st.sampled_from(["node", "nodea"])), draw(st.sampled_from(res_pool)),
                        draw(st.booleans())])
            nobj += cnt
        elif o == "del":
            cands = list(kept.items())
            if rootraw and (not cands or draw(st.booleans())):
                h = rootraw.pop(draw(st.integers(0, len(rootraw) - 1)))
                ops.append(["del", h])
            elif cands:
                slot, h = cands[draw(st.integers(0, len(cands) - 1))]
                del kept[slot]
                ops.append(["unstk", slot])
                ops.append(["del", h])
        elif o == "drop":
            if kept:
                slot = draw(st.sampled_from(sorted(kept)))
                del kept[slot]
                ops.append(["unstk", slot])
        elif o == "collect":
            ops.append(["collect"])
        elif o == "churn":
            cnt = draw(st.sampled_from([5, 20, 60, 150]))
            if churn_next + cnt < 39000:
                ops.append(["churn", churn_next, cnt])
                churn_next += cnt
        elif o == "box":
            # owner and owned both unreferenced: the sweep meets them in either order
            nobj += 2
            t, b = nobj - 1, nobj
            if draw(st.booleans()):
                ops.append(["new", t, draw(st.sampled_from(["node", "nodea"])), "m"])
                ops.append(["new", b, "box", "m", t])
            else:
                ops.append(["new", t, "node", "m"])
                ops.append(["new", b, "box", "m", t])
    # delete what must be deleted by hand
    for h in rootraw:
        ops.append(["del", h])
    return {"ops": ops, "cfg": draw(st.sampled_from(["asan", "plain"]))}


def strategy(tier):
    return _case()


def encode(case):
    lines = []
    for op in case["ops"]:
        o = op[0]
        if o == "new":
            if op[2] == "nodea":
                res = op[4] if len(op) > 4 else -1
                if res == -2:
                    lines.append("new %d nodea %s last" % (op[1], op[3]))
                else:
                    lines.append("new %d nodea %s %d" % (op[1], op[3], res))
            elif op[2] == "box":
                lines.append("new %d box %s %d" % (op[1], op[3], op[4]))
            else:
                lines.append("new %d node %s" % (op[1], op[3]))
        elif o == "stk":
            lines.append("stk %d %d" % (op[1], op[2]))
        elif o == "unstk":
            lines.append("unstk %d" % op[1])
        elif o == "del":
            lines.append("del %d" % op[1])
        elif o == "collect":
            lines.append("collect")
        elif o == "rootburst":
            base, cnt, kind, res, coll = op[1], op[2], op[3], op[4], op[5]
            for j in range(cnt):
                if kind == "nodea":
                    lines.append("new %d nodea root %d" % (base + j, res if j % 3 == 0 else -1))
                else:
                    lines.append("new %d node root" % (base + j))
                if j % 7 == 0:
                    lines.append("gcchk")
            if coll:
                lines.append("collect")
            lines.append("gcchk")
            for j in range(cnt):
                lines.append("del %d" % (base + j))
                if j % 7 == 0:
                    lines.append("gcchk")
        elif o == "churn":
            lines.append("churn %d %d" % (op[1], op[2]))
        else:
            raise HarnessBug(o)
        lines.append("gcchk")
    return lines


def run_case(ctx, case):
    ex = gcx.executor(ctx, case["cfg"])
    lines = encode(case)
    obs = ex.run("\n".join(lines))
    ev = ["cfg=" + case["cfg"]]
    gcx.check_harness(obs)
    if len(obs) != len(lines) + 1:
        return Result("executor stopped: %s" % (obs[-1] if obs else "no output"), False, ev, None)
    saw_disp = saw_rem_disp = grew = shrank = False
    last_ns = None
    prev_disp = False
    for l, o in zip(lines, obs):
        if " exc " in o or " depth=" in o or " err=[" in o:
            return Result("op `%s`: %s" % (l, o), False, ev, None)
        if l == "gcchk":
            kv = gcx.parse_kv(o)
            if kv.get("bad") != "-":
                return Result("registry check after previous op: %s" % o, True, ev, None)
            ns = int(kv["nslots"])
            if last_ns is not None:
                grew |= ns > last_ns
                shrank |= ns < last_ns
            last_ns = ns
            d = int(kv["disp"]) > 0 or int(kv["wrap"]) > 0
            saw_disp |= d
            prev_disp = d
        elif l.startswith("del") or l == "collect":
            if prev_disp:
                saw_rem_disp = True
    td = gcx.parse_teardown(obs[-1])
    if td is None:
        return Result("no teardown report: " + obs[-1], False, ev, None)
    if td["err"] != "[]":
        return Result("executor ledger error: " + obs[-1], True, ev, None)
    if saw_disp:
        ev.append("displaced-or-wrapped")
    if grew:
        ev.append("registry-grew")
    if shrank:
        ev.append("registry-shrank")
    return Result(None, saw_disp and saw_rem_disp and grew and shrank, ev, None)


def SAMPLE(case):
    return {"cfg": case["cfg"], "ops": case["ops"][:16] + (["..."] if len(case["ops"]) > 16 else [])}


KNOWN = []
