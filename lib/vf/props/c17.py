"""C17 - the collector's registry is exactly the set of live managed objects."""
import re
from hypothesis import strategies as st
from ..core import Result, HarnessBug
from . import gcx

ID = "C17"
# what the collector does depends on heap addresses (registry slots are address residues): a failing case is re-run 8
# times in fresh executors and reported when it fails again at least twice
CONFIRM = (2, 8)
LEVEL = "exploration"
BUDGET = {"quick": 1200, "thorough": 300000}
RULE = ("case = history in a fresh Cello Thread (own collector): managed / root / raw allocations (new, alloc without a "
        "constructor call, copy) of instrumented objects, a share of them from an arena at addresses chosen so that (addr>>3) "
        "falls into a requested residue class modulo the registry size the insertion will see (same-home pile-ups, last-slot "
        "wrap-around, chains across the array end at sizes 5, 11, 23, 53, 101, 197, ...), objects of size 0 (address = end of "
        "the block), 52 bytes and 1 MiB (far-away mmap addresses), library objects (containers, Thread objects) built directly "
        "or retyped by assign / copy, explicit del/del_root/del_raw, dropping references, forced collections, churn "
        "(threshold collections, growth and shrink rehash), Boxes swept together with their pointees and garbage Boxes whose "
        "pointee is still registered (removals and shrink rehash during a sweep), objects whose destructor allocates managed "
        "objects (insertions and growth rehash during a sweep or inside del; up to 3 generations), stop/start windows with allocations (never "
        "registered) and deletions of registered and unregistered objects inside. "
        "After EVERY op the executor compares the registry with its own ledger through the CELLO_VERIF accessor: mem(gc,p) <=> "
        "p allocated managed/root while running and neither deleted nor finalised (checked for all live and all dead addresses "
        "and raw objects), one entry per object with the right root flag, no entry for a deleted / unregistered / unknown "
        "object, stored home == (addr>>3) % nslots, robin-hood probe order, occupied == nitems < nslots, addresses within "
        "[minptr,maxptr], no mark bit left set. An enumerated ladder grows the registry with 1200 / 9000 / 34000 roots through "
        "every prime size up to 74093, sweeps half as many garbage objects out of the large table and shrinks it again by "
        "scattered deletions, with the same check at every change of size. non-trivial = the history saw a "
        "displaced or wrapped entry AND a removal while entries were displaced AND both a growth and a shrink of the registry. "
        "distinct = distinct case JSON.")
ASSUMPTIONS = ["finalisation is observed through the instrumented objects' destructors; conservative retention only delays it, the oracle follows the observed events",
               "registry internals read through Cello_Verif_GC_Stat/Entry (add-only hooks)",
               "constructors, assign and copy of the library containers / Thread register nothing but the object itself (observed: their internal storage is malloc'd or new_raw), so every registry entry must be a ledger object",
               "membership of objects allocated while the collector is stopped is not asserted while they are alive (documented as not added; the property's wording would also admit them); once deleted they must not be members"]

prepare = gcx.prepare


@st.composite
def _case(draw):
    ops = []
    nobj = 0
    kept = {}          # stack slot -> handle
    rootraw = []       # live root/raw handles
    n = draw(st.integers(3, 60))
    churn_next = 10000
    nbig = 0
    born_next = 50000
    allow_d = draw(st.booleans())
    has_d = False      # objects whose destructor allocates are never finalised while the collector is stopped
    nodes = set()
    stopped = False
    window_objs = []
    burst_budget = 1 if draw(st.integers(0, 3)) == 0 else 0      # at most one large root burst, in a quarter of the cases
    res_pool = draw(st.lists(st.integers(0, 400), min_size=1, max_size=3))
    for _ in range(n):
        o = draw(st.sampled_from(["new", "new", "new", "newa", "newa", "newa", "newx", "del", "del", "drop", "collect", "churn", "box", "burst",
                                  "rootburst", "copy", "lib", "stop", "start", "boxlive", "dburst"]))
        if o in ("new", "newa", "newx"):
            cls = draw(st.sampled_from(["m", "m", "m", "root", "raw"]))
            nobj += 1
            h = nobj
            if o == "newa":
                res = draw(st.one_of(st.sampled_from(res_pool), st.just(-1), st.sampled_from(res_pool).map(lambda r: r + 1)))
                ops.append(["new", h, "nodea", cls, res])
            elif o == "newx":
                # other address patterns: a size-0 object (its address is the end of its block), a 1 MiB object (mmap'd
                # far away from the rest: widens [minptr, maxptr]), a 52-byte object; new or alloc without construct
                kind = draw(st.sampled_from(["nodez", "nodez", "nodeo", "nodeb"]))
                if kind == "nodeb":
                    if nbig >= 2:
                        kind = "nodez"
                    else:
                        nbig += 1
                ops.append([draw(st.sampled_from(["new", "new", "alloc"])), h, kind, cls])
            else:
                ops.append([draw(st.sampled_from(["new", "new", "new", "alloc"])), h, "node", cls])
            if ops[-1][2] in ("node", "nodea", "nodeo"):
                nodes.add(h)                # sources of copy()
            if stopped and cls != "raw":
                window_objs.append(h)       # not registered: deleted by hand inside the window
            elif cls == "m":
                if draw(st.booleans()) and len(kept) < 16:
                    slot = min(set(range(16)) - set(kept))
                    kept[slot] = h
                    ops.append(["stk", slot, h])
            else:
                rootraw.append(h)
        elif o == "burst" and not stopped:
            # many arena objects into the same residue classes: long probe chains / wrap-around
            cnt = draw(st.sampled_from([4, 9, 20, 45]))
            r = draw(st.sampled_from(res_pool))
            last = draw(st.booleans())
            for j in range(cnt):
                nobj += 1
                ops.append(["new", nobj, "nodea", "m", -2 if last else r + (j % 2)])
        elif o == "rootburst" and burst_budget and not stopped:
            burst_budget = 0
            # many root objects at once: the registry passes through the larger sizes (197, 389, 683) with live entries,
            # and shrinks again when they are deleted.  One compact op (expanded when the case is encoded).
            cnt = draw(st.sampled_from([60, 60, 200, 200, 420]))
            ops.append(["rootburst", nobj + 1, cnt, draw(st.sampled_from(["node", "nodea"])), draw(st.sampled_from(res_pool)),
                        draw(st.booleans())])
            nobj += cnt
        elif o == "del":
            cands = list(kept.items())
            if window_objs and draw(st.booleans()):
                ops.append(["del", window_objs.pop(draw(st.integers(0, len(window_objs) - 1)))])
            elif rootraw and (not cands or draw(st.booleans())):
                h = rootraw.pop(draw(st.integers(0, len(rootraw) - 1)))
                ops.append(["del", h])
            elif cands:
                slot, h = cands[draw(st.integers(0, len(cands) - 1))]
                del kept[slot]
                ops.append(["unstk", slot])
                ops.append(["del", h])
        elif o == "drop":
            if kept:
                slot = draw(st.sampled_from(sorted(kept)))
                del kept[slot]
                ops.append(["unstk", slot])
        elif o == "collect":
            ops.append(["collect"])
        elif o == "churn":
            cnt = draw(st.sampled_from([5, 20, 60, 150]))
            if churn_next + cnt < 39000 and not stopped:
                ops.append(["churn", churn_next, cnt])
                churn_next += cnt
        elif o == "copy" and not stopped:
            srcs = sorted(h for h in kept.values() if h in nodes)
            if srcs:
                nobj += 1
                ops.append(["copy", nobj, draw(st.sampled_from(srcs))])
        elif o == "lib" and not stopped:
            # a library object (container / Thread object), built directly or retyped from a container of scalars by
            # assign / copy from an empty source: exactly one registry entry, for the object itself
            kind = draw(st.sampled_from(["arr", "lst", "tab", "tre", "tup", "tabr", "trer", "thr", "arrb", "lstb", "tabb", "treb"]))
            cls = draw(st.sampled_from(["m", "m", "root", "raw"]))
            rt = draw(st.sampled_from([0, 1, 2, 3])) if kind not in ("tup", "thr") else 0
            nobj += 1
            ops.append(["new", nobj, kind, cls] + (["retype%d" % rt] if rt else []))
            if cls == "m":
                if draw(st.booleans()) and len(kept) < 16:
                    slot = min(set(range(16)) - set(kept))
                    kept[slot] = nobj
                    ops.append(["stk", slot, nobj])
            else:
                rootraw.append(nobj)
        elif o == "dburst" and not stopped and allow_d:
            # objects whose destructor allocates 1..4 managed (ledger-tracked) objects, up to 3 generations: insertions
            # (and growth rehashes) while a sweep is finalising its pending list / while del is removing an entry
            how = draw(st.sampled_from(["collect", "del", "none"]))
            for _ in range(draw(st.integers(1, 12))):
                nobj += 1
                ops.append(["new", nobj, "noded", "m", draw(st.integers(1, 4)), born_next, draw(st.sampled_from([1, 1, 2, 3]))])
                born_next += 8
                if how == "del":
                    ops.append(["del", nobj])
            has_d = True
            if how == "collect":
                ops.append(["collect"])
        elif o == "stop" and not stopped and not has_d:
            ops.append(["stop"])
            stopped = True
        elif o == "start" and stopped:
            for h in window_objs:
                ops.append(["del", h])
            window_objs = []
            ops.append(["start"])
            stopped = False
        elif o == "boxlive" and not stopped and len(kept) < 16:
            # a garbage Box whose pointee is still seen by the conservative scan: the Box's destructor removes a
            # REGISTERED entry (and may shrink the registry) while the sweep is finalising its pending list
            slot = min(set(range(16)) - set(kept))
            nobj += 2
            t, b = nobj - 1, nobj
            ops.append(["note", "box-deletes-registered-pointee"])
            ops.append(["new", t, "nodea", "m", draw(st.sampled_from(res_pool))] if draw(st.booleans()) else ["new", t, "node", "m"])
            ops.append(["stk", slot, t])
            ops.append(["new", b, "box", "m", t])
            ops.append(["collect"])
            ops.append(["unstk", slot])
        elif o == "box" and not stopped:
            # owner and owned both unreferenced: the sweep meets them in either order
            nobj += 2
            t, b = nobj - 1, nobj
            if draw(st.booleans()):
                ops.append(["new", t, draw(st.sampled_from(["node", "nodea"])), "m"])
                ops.append(["new", b, "box", "m", t])
            else:
                ops.append(["new", t, "node", "m"])
                ops.append(["new", b, "box", "m", t])
    # delete what must be deleted by hand
    if stopped:
        for h in window_objs:
            ops.append(["del", h])
        ops.append(["start"])
    for h in rootraw:
        ops.append(["del", h])
    return {"ops": ops, "cfg": draw(st.sampled_from(["asan", "plain"]))}


def strategy(tier):
    return _case()


def encode(case):
    lines = []
    for op in case["ops"]:
        o = op[0]
        if o == "new":
            if op[2] == "nodea":
                res = op[4] if len(op) > 4 else -1
                if res == -2:
                    lines.append("new %d nodea %s last" % (op[1], op[3]))
                else:
                    lines.append("new %d nodea %s %d" % (op[1], op[3], res))
            elif op[2] == "box":
                lines.append("new %d box %s %d" % (op[1], op[3], op[4]))
            elif op[2] == "noded":
                lines.append("new %d noded %s %d %d %d" % (op[1], op[3], op[4], op[5], op[6]))
            else:
                if len(op) > 4 and str(op[4]).startswith("retype"):
                    lines.append("retype %s" % op[4][6:])
                lines.append("new %d %s %s" % (op[1], op[2], op[3]))
        elif o == "alloc":
            lines.append("alloc %d %s %s" % (op[1], op[2], op[3]))
        elif o == "copy":
            lines.append("copy %d %d" % (op[1], op[2]))
        elif o in ("stop", "start"):
            lines.append(o)
        elif o == "note":
            continue
        elif o == "stk":
            lines.append("stk %d %d" % (op[1], op[2]))
        elif o == "unstk":
            lines.append("unstk %d" % op[1])
        elif o == "del":
            lines.append("del %d" % op[1])
        elif o == "collect":
            lines.append("collect")
        elif o == "rootburst":
            base, cnt, kind, res, coll = op[1], op[2], op[3], op[4], op[5]
            for j in range(cnt):
                if kind == "nodea":
                    lines.append("new %d nodea root %d" % (base + j, res if j % 3 == 0 else -1))
                else:
                    lines.append("new %d node root" % (base + j))
                if j % 7 == 0:
                    lines.append("gcchk")
            if coll:
                lines.append("collect")
            lines.append("gcchk")
            for j in range(cnt):
                lines.append("del %d" % (base + j))
                if j % 7 == 0:
                    lines.append("gcchk")
        elif o == "churn":
            lines.append("churn %d %d" % (op[1], op[2]))
        elif o == "many":
            # bulk (de)allocation; the executor checks the registry at every change of its size (answers on one line)
            lines.append("many %s %d %d %s" % (op[1], op[2], op[3], op[4]))
        else:
            raise HarnessBug(o)
        lines.append("gcchk")
    return lines


def run_case(ctx, case):
    ex = gcx.executor(ctx, case["cfg"])
    lines = encode(case)
    obs = ex.run("\n".join(lines))
    ev = ["cfg=" + case["cfg"]]
    gcx.check_harness(obs)
    if len(obs) != len(lines) + 1:
        return Result("executor stopped: %s" % (obs[-1] if obs else "no output"), False, ev, None)
    saw_disp = saw_rem_disp = grew = shrank = False
    sizes = set()
    last_ns = None
    prev_disp = False
    for l, o in zip(lines, obs):
        if " exc " in o or " depth=" in o or " err=[" in o:
            return Result("op `%s`: %s" % (l, o), False, ev, None)
        if l.startswith("many"):
            parts = [x for x in o.split(" | ") if x.strip()]
            if not parts:
                return Result("bulk op `%s` reported no registry check: %s" % (l, o), False, ev, None)
            for part in parts:
                kv = gcx.parse_kv(part)
                if kv.get("bad") != "-":
                    return Result("registry check during `%s`: %s" % (l, part), True, ev, None)
                ns = int(kv["nslots"])
                sizes.add(ns)
                if last_ns is not None:
                    grew |= ns > last_ns
                    shrank |= ns < last_ns
                last_ns = ns
        elif l == "gcchk":
            kv = gcx.parse_kv(o)
            if kv.get("bad") != "-":
                return Result("registry check after previous op: %s" % o, True, ev, None)
            ns = int(kv["nslots"])
            sizes.add(ns)
            if last_ns is not None:
                grew |= ns > last_ns
                shrank |= ns < last_ns
            last_ns = ns
            d = int(kv["disp"]) > 0 or int(kv["wrap"]) > 0
            saw_disp |= d
            prev_disp = d
        elif l.startswith("del") or l == "collect" or l.startswith("many del"):
            if prev_disp:
                saw_rem_disp = True
    td = gcx.parse_teardown(obs[-1])
    if td is None:
        return Result("no teardown report: " + obs[-1], False, ev, None)
    if td["err"] != "[]":
        return Result("executor ledger error: " + obs[-1], True, ev, None)
    cls = set()
    win = False
    for op in case["ops"]:
        if op[0] in ("new", "alloc"):
            if op[2] in ("nodez", "nodeo", "nodeb"):
                cls.add("size=" + {"nodez": "0", "nodeo": "52", "nodeb": "1MiB"}[op[2]])
            elif op[2] == "noded":
                cls.add("destructor-allocates")
            elif op[2] not in ("node", "nodea", "box"):
                cls.add("library-object")
            if op[0] == "alloc":
                cls.add("alloc-without-construct")
            if len(op) > 4 and str(op[4]).startswith("retype"):
                cls.add("retyped")
            if win:
                cls.add("alloc-in-stop-window")
        elif op[0] == "copy":
            cls.add("copy")
        elif op[0] == "stop":
            win = True
        elif op[0] == "start":
            win = False
        elif op[0] == "del" and win:
            cls.add("del-in-stop-window")
        elif op[0] == "note":
            cls.add(op[1])
    ev += sorted(cls)
    if sizes:
        big = max(sizes)
        ev.append("max-registry-size" + ("<=197" if big <= 197 else "<=683" if big <= 683 else "<=4733" if big <= 4733 else "<=37097" if big <= 37097 else "=%d" % big))
    if saw_disp:
        ev.append("displaced-or-wrapped")
    if grew:
        ev.append("registry-grew")
    if shrank:
        ev.append("registry-shrank")
    return Result(None, saw_disp and saw_rem_disp and grew and shrank, ev, None)


def SAMPLE(case):
    return {"cfg": case["cfg"], "ops": case["ops"][:16] + (["..."] if len(case["ops"]) > 16 else [])}


def ladder_case(n, cfg):
    """n root objects (the registry grows through every size up to the one n needs), a collection, n/2 unreferenced
    managed objects (threshold collections sweep them out of the large table), then the roots are deleted in a
    scattered order (the registry shrinks through every size again)"""
    step = 7919 if n % 7919 else 7907
    return {"cfg": cfg, "ops": [["new", 1, "node", "m"], ["stk", 0, 1],
                                ["many", "new", 100, n, "root"], ["collect"],
                                ["many", "new", 100 + n, n // 2, "m"], ["collect"],
                                ["new", 2, "nodea", "m", -2], ["new", 3, "nodea", "root", -2], ["new", 4, "nodea", "m", -2], ["collect"],
                                ["many", "del", 100, n, str(step)], ["del", 3], ["collect"]]}


def extra_phase(ctx, tier, stats, sample_fn):
    """registry ladder: growth and shrink through the prime sizes up to 74093 with the root flags and the count checked
    at every change of size"""
    fails = []
    done = {}
    for n in (1200, 9000, 34000):
        for cfg in ("plain", "asan"):
            case = ladder_case(n, cfg)
            res = run_case(ctx, case)
            stats.add(case, res, sample_fn)
            done["%d/%s" % (n, cfg)] = "ok" if not res.fail else "FAIL"
            if res.fail:
                fails.append((case, res.fail))
    return {"fails": fails, "extra": {"registry_ladder": done}}


KNOWN = []
