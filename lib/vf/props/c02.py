"""C02 - Table behaves as a finite map whatever the hashing does."""
import os
from .. import build
from ..core import Result
from . import maps

ID = "C02"
ALT_BUILD = True          # a quarter of the workers run the gcc -O0 build (core.py)
LEVEL = "exploration"
BUDGET = {"quick": 1600, "thorough": 360000}
RULE = ("case = op list (set/rem/get/mem/resize/assign/copy/clear/bulk fill+drain in ascending, descending and strided orders/"
        "rebuild through the constructor's initial bindings new(Table,K,V,k1,v1,...)) over Table<K,V> for (Int,Int), "
        "(String,String), (Probe,Probe), (String,Int), (Int,String), (Int,Probe), (Probe,Int), (Int,Blob16), (String,Blob16) and "
        "plain structs whose size is not a multiple of 8 as key and/or value (Tri 3 bytes, Blob20 20 bytes); keys from "
        "collision families (same home slot at every "
        "table size 5..1259, home slot = last slot, String keys colliding under MurmurHash64A), key arguments as stack "
        "temporaries, heap objects, the table's own embedded keys and embedded values (get/mem), value arguments that are "
        "the embedded value of another key of the same table (set(t,k,get(t,k2))); resize to 0, to counts up to 1300 and to "
        "counts below len (refused or ignored: bindings unchanged); assign from Table/Tree sources, optionally onto a table that "
        "was assigned from a map of other key/value types (other slot size) just before; after every mutation the whole "
        "table is compared with a dict (len, forward+backward iteration, mem/get over the key universe) and the robin-hood "
        "invariants are checked through the CELLO_VERIF accessor. non-trivial = at some point an entry sat displaced from "
        "its home slot (measured) AND the case contains a rem or an updating set. distinct = distinct case JSON.")
ASSUMPTIONS = ["Python dict is the reference map", "white-box invariants read through Cello_Verif_Table_Slot (add-only hook)",
               "constructor bindings use unique keys (what a repeated key in the constructor means is not documented)",
               "a set never passes the container's own embedded key, nor the value bound to the very key being set (self-assignment of String "
               "is outside every listed property, DESIGN 8.3); a value embedded under a different key is ordinary user code",
               "resize(t, n) with 0 < n < len may raise (FormatError when bound checks are on) or do nothing; only the unchanged bindings are asserted"]


def prepare(tier):
    return {"ex_vm": build.executor("asan", "ex_vm"), "fz_map": build.executor("fuzz", "fz_map", extra_ldflags=["-fsanitize=fuzzer"])}


# coverage-guided companion (libFuzzer, ASan): bytes -> op list over a Table<Int,Int> and a Tree<Int,Int> in lock step
# against a naive association array, keys from a collision family (harness/fz_map.c)
FUZZ = [{"target": "fz_map", "runs": {"quick": 8000, "thorough": 3000000}, "max_len": 200}]


def strategy(tier):
    # VF_MAPS_BASE=1: the generator without the extras (what C05/C10/C12/C18 use) - for sensitivity comparisons only
    return maps.map_case("Table", extras=not os.environ.get("VF_MAPS_BASE"))


def run_case(ctx, case):
    r, fail, obs, ev = maps.run_map_case(ctx, case)
    nt = r.flags["collision"] and r.flags["rem_or_update"]
    return Result(fail, nt, ev, None)


def SAMPLE(case):
    return {"kt": case["kt"], "vt": case["vt"], "uni": case["uni"][:6] + ["..."], "ops": case["ops"][:12] + (["..."] if len(case["ops"]) > 12 else [])}


KNOWN = []
