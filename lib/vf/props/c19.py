"""C19 - objects keep their true type and class; non-heap objects are never freed."""
from hypothesis import strategies as st
from .. import build, gen
from ..core import Result, HarnessBug, load_known
from ..vm import Prog, expect_ok, expect_exc, lit_repr

ID = "C19"
ALT_BUILD = True          # a quarter of the workers run the gcc -O0 build (core.py)
LEVEL = "exploration"
BUDGET = {"quick": 1200, "thorough": 240000}
RULE = ("case = (way of obtaining an object) x (element type Int|Float|String|Ref|Probe|Tuple) x (list of freeing / reallocating "
        "operations) in a generated surrounding state (container kind, size, position). Ways: new, new_raw, new_root, stack "
        "($), copy, static (type objects, _), element of Array/List via get and via iteration, key/value of Table/Tree via get / "
        "iteration (the container constructed with its elements, or retyped by assign / copy from an empty or a full source of "
        "another element type, or cleared and refilled), items yielded by Range/Slice/Zip/Filter/Map (heap and stack forms). Oracle: type_of == constructing / "
        "element / key / value type and the header's allocation class == expected (heap/stack/static/data); writing a new "
        "value through the object and reading it back works (ASan watches the size(type) bytes); for non-heap objects every "
        "one of del_raw, dealloc, dealloc_raw, resize, concat, append, assign-longer, push/pop/pop_at/push_at raises ResourceError or "
        "ValueError, leaves the object's dump and its container intact and never reaches free/realloc (objects are laid out so "
        "that ASan reports a free of them at once), also after a forced collection; heap objects deleted once are finalised "
        "exactly once (Probe ledger). The full obtain x type x operation matrix is enumerated at container sizes 1, 3, 8 in both "
        "tiers. Embedded elements are also reached backwards (iter_last / iter_prev), by negative index and, for map values, "
        "through an iteration cursor (get(table, key pointer)); the stack forms range() / slice() / zip() / enumerate() / "
        "filter() / map() are themselves objects under test (type, stack class, freeing ops refused, still iterable). "
        "'sized' family (a quarter of the cases + a full enumeration): plain types of 1, 3, 5, 8, 12, 16, 20, 33 and 75 bytes - "
        "static ones and run-time types made by new(Type, name, size) - obtained by new / new_raw / new_root / alloc / "
        "alloc_raw / alloc_root / copy and as element of Array / List, key / value of Table / Tree (other side: any of these "
        "types) in containers that were constructed with the elements, filled one by one, shrunk from the front / by rem, "
        "or assigned / copied from another container; oracle: size(type) == declared size, type_of == that type and the "
        "allocation class, every one of the size(type) bytes reads back what was stored, writing all of them through the "
        "handed-out pointer changes that object only (byte-wise dump of the whole container incl. every element's type), "
        "freeing ops refused and harmless, the container takes one more element and is deleted cleanly; heap objects are "
        "released once by the matching del / del_raw / del_root / dealloc_raw (ASan). non-trivial = a non-heap object x "
        "freeing/reallocating op, or an embedded element obtained through an iterator, or a type whose size is not a multiple of 8. "
        "distinct = distinct case JSON.")
ASSUMPTIONS = ["del / del_root of a non-heap object is silently ignored by the collector build (known finding del-nonheap-silent): intactness is still checked, the missing exception is not reported",
               "Terminal is excluded (it is the argument-list sentinel of the variadic macros)", "destruct() applied by hand to an embedded element is out of contract and not generated"]

HEAP, STACK, STATIC, DATA = 3, 2, 1, 4
ETS = ["Int", "Float", "String", "Probe"]
LIT = {"Int": "i:41", "Float": "f:4004000000000000", "String": "s:68656c6c6f", "Probe": "p:4"}
LIT2 = {"Int": "i:-7", "Float": "f:bff8000000000000", "String": "s:6c6f6e6765722d76616c75652d6c6f6e6765722d76616c7565", "Probe": "p:6"}
FILL = {"Int": "i:1", "Float": "f:3ff0000000000000", "String": "s:78", "Probe": "p:1"}
OBTAIN = ["new", "new_raw", "new_root", "stack", "copy", "static-type", "static-underscore",
          "array-get", "array-iter", "list-get", "list-iter", "table-key", "table-val", "tree-key", "tree-val",
          "range-heap", "range-stack", "slice-heap", "slice-stack", "zip-heap", "zip-stack", "filter", "map-id", "tuple-elem"]
FREE_OPS = ["delkeep", "delrootkeep", "delrawkeep", "dealloc", "deallocraw"]
STR_OPS = ["resize-more", "resize-less", "concat", "append", "assign-longer"]
HISTS = ["direct", "direct", "assign-empty", "assign-full", "copy-empty", "copy-full", "clear-refill"]
TUP_OPS = ["push", "pop", "pop_at", "push_at", "concat", "resize", "assign", "assign-filter", "assign-filter-none"]
# the stack forms range() / slice() / zip() / enumerate() / filter() / map() themselves as the object under test
VIEWS = ["view-range", "view-slice", "view-zip", "view-enum", "view-filter", "view-map"]
OBTAIN = OBTAIN + VIEWS
# alternative entry points reaching an embedded element: backward iteration, negative index, Table/Tree get through an
# iteration cursor (Table_Get's pointer fast path)
VIAS = ["fwd", "fwd", "bwd", "neg", "cursor"]

# ---- "sized" family: plain types of every size (static 3 / 16 / 20 / 75 bytes, run-time types of 1 / 5 / 12 / 33 bytes, Int)
SIZED_TY = ["Tri", "Blob3", "Blob", "Blob20", "Blob75", "rt:1", "rt:5", "rt:12", "rt:33", "Int"]
SIZED_WHERE = ["new", "new_raw", "new_root", "alloc", "alloc_raw", "alloc_root", "copy",
               "array-get", "array-neg", "array-iter", "array-last", "list-get", "list-neg", "list-iter", "list-last",
               "table-key", "table-val", "table-cursor", "tree-key", "tree-val", "tree-cursor"]
SIZED_HIST = ["direct", "pushed", "shrunk", "assign", "copy"]
TY_SIZE = {"Tri": 3, "Blob3": 3, "Blob": 16, "Blob20": 20, "Blob75": 75, "Int": 8}


def ty_size(ty):
    return int(ty[3:]) if ty.startswith("rt:") else TY_SIZE[ty]


def ty_name(ty):
    return "RT%s" % ty[3:] if ty.startswith("rt:") else ty


def prepare(tier):
    return {"ex_vm": build.executor("asan", "ex_vm")}


@st.composite
def _sized(draw):
    where = draw(st.sampled_from(SIZED_WHERE))
    case = {"obtain": "sized", "ty": draw(st.sampled_from(SIZED_TY)), "where": where, "n": draw(st.integers(1, 10)),
            "pos": draw(st.integers(0, 1000)),
            "ops": draw(st.lists(st.sampled_from(FREE_OPS + ["collect", "write", "write"]), min_size=1, max_size=6))}
    if "-" in where:
        case["hist"] = draw(st.sampled_from(SIZED_HIST))
        case["oty"] = draw(st.sampled_from(SIZED_TY))      # the other side of a Table / Tree; the former element type for hist=assign
    return case


@st.composite
def _case(draw):
    if draw(st.integers(0, 3)) == 0:
        return draw(_sized())
    ob = draw(st.sampled_from(OBTAIN))
    et = draw(st.sampled_from(ETS + ["Tuple"]))
    n = draw(st.integers(1, 10))
    ops = draw(st.lists(st.sampled_from(FREE_OPS + STR_OPS + TUP_OPS + ["collect", "write"]), min_size=1, max_size=6))
    case = {"obtain": ob, "et": et, "n": n, "pos": draw(st.integers(0, 1000)), "ops": ops}
    if ob.split("-")[0] in ("array", "list", "table", "tree"):
        # how the container came to hold its elements (omitted = constructed with them)
        h = draw(st.sampled_from(HISTS))
        if h != "direct":
            case["hist"] = h
            case["was"] = draw(st.sampled_from(ETS))
        via = draw(st.sampled_from(VIAS))
        if via != "fwd":
            case["via"] = via
    return case


def strategy(tier):
    return _case()


def known():
    return load_known().get(ID, {})


def _int_hex(v):
    return (v & (2**64 - 1)).to_bytes(8, "little").hex()


def build_sized(case):
    """plain types of every size: (Prog, nontrivial).  Elements are heap objects of the type filled with one distinct byte
    each (Int: the values 16+j); containers are dumped byte-wise (`peeks`: type name / the size(type) bytes of every item)."""
    ty, where, n, ops = case["ty"], case["where"], case["n"], case["ops"]
    P = Prog()
    pos = case["pos"] * n // 1001
    size = ty_size(ty)
    T, O = "%20", "%21"

    def deftype(slot, t):
        if t.startswith("rt:"):
            P.add("rtype %s %s %s" % (slot, ty_name(t), t[3:]))
        else:
            P.add("tmp %s t:%s" % (slot, t))
        P.add("tsize %s" % slot, expect_ok(str(ty_size(t))))

    deftype(T, ty)

    def hexof(t, b):
        return _int_hex(b) if t == "Int" else ("%02x" % b) * ty_size(t)

    def mkobj(slot, tslot, t, b):
        """a heap object of type t holding b in every byte (Int: the value b); returns its dump"""
        if t == "Int":
            P.add("new %%%d heap t:Int i:%d" % (slot, b))
        else:
            P.add("alloc %%%d heap %s" % (slot, tslot))
            P.add("fill %%%d %02x" % (slot, b))
        return hexof(t, b)

    def ent(t, hx):
        return "%s/%s" % (ty_name(t), hx)

    nt = False
    heap_way = "-" not in where
    cur = [None]
    if heap_way:
        src = mkobj(30, T, ty, 0x11)
        if where in ("new", "new_raw", "new_root"):
            P.add("new %%1 %s %s %%30" % ({"new": "heap", "new_raw": "raw", "new_root": "root"}[where], T))
            cur[0] = src
        elif where in ("alloc", "alloc_raw", "alloc_root"):
            P.add("alloc %%1 %s %s" % ({"alloc": "heap", "alloc_raw": "raw", "alloc_root": "root"}[where], T))
            cur[0] = "00" * size
        else:
            P.add("copy %1 %30", lambda o: None if o.startswith("ok") else "copy failed " + o)
            cur[0] = src
        P.add("typeof %1", expect_ok("%s alloc=%d" % (ty_name(ty), HEAP)))
        P.add("peek %1", expect_ok(cur[0]))
        for op in ops:
            if op == "collect":
                P.add("collect")
            elif op == "write":
                b = 0xe0 + len(P.lines) % 16
                if ty == "Int":
                    continue
                P.add("fill %%1 %02x" % b)
                cur[0] = hexof(ty, b)
            else:
                continue          # freeing a heap object: once, at the end
            P.add("peek %1", expect_ok(cur[0]))
            P.add("typeof %1", expect_ok("%s alloc=%d" % (ty_name(ty), HEAP)))
        # the source is a different object: untouched by writes through the new one
        P.add("peek %30", expect_ok(src))
        P.add({"new": "del %1", "alloc": "del %1", "copy": "del %1", "new_raw": "delraw %1", "alloc_raw": "deallocraw %1",
               "new_root": "delroot %1", "alloc_root": "delroot %1"}[where])
        if where == "alloc_raw":
            P.add("zero %1")
        return P, size % 8 != 0

    kind = {"array": "Array", "list": "List", "table": "Table", "tree": "Tree"}[where.split("-")[0]]
    hist, oty = case.get("hist", "direct"), case.get("oty", "Int")
    ismap = kind in ("Table", "Tree")
    iskey = where.endswith("key")
    extra = 4 if hist == "shrunk" else 0
    tot = n + extra
    if ismap:
        deftype(O, oty)
        kt, vt = (ty, oty) if iskey else (oty, ty)
        KT, VT = (T, O) if iskey else (O, T)
    # element objects: slots 30.. (subject type), 60.. (other side of a map)
    subj, oth = [], []
    for j in range(tot):
        subj.append(mkobj(30 + j, T, ty, 0x10 + j))
        if ismap:
            oth.append(mkobj(60 + j, O, oty, 0x40 + j))

    def pair_args(j):
        return ("%%%d %%%d" % (30 + j, 60 + j)) if iskey else ("%%%d %%%d" % (60 + j, 30 + j))

    def ctor(slot, js, kt_=None):
        if ismap:
            P.add("new %s heap t:%s %s %s %s" % (slot, kind, KT, VT, " ".join(pair_args(j) for j in js)))
        else:
            P.add("new %s heap t:%s %s %s" % (slot, kind, T, " ".join("%%%d" % (30 + j) for j in js)))

    def add_one(slot, j):
        if ismap:
            P.add("set %s %s" % (slot, pair_args(j)))
        else:
            P.add("push %s %%%d" % (slot, 30 + j))

    ok_ = lambda o: None if o.startswith("ok") else "failed: " + o
    if hist in ("direct", "shrunk"):
        ctor("%0", range(tot))
    elif hist == "pushed":
        ctor("%0", [])
        for j in range(tot):
            add_one("%0", j)
    else:
        ctor("%4", range(tot))
        if hist == "assign":
            # the holder had other element types (other slot / node sizes) before
            if ismap:
                P.add("new %%0 heap t:%s t:Int %s i:1 %%%d i:2 %%%d" % (kind, O, 60, 60 + tot - 1))
            else:
                P.add("new %%0 heap t:%s t:Int i:1 i:2 i:3" % kind)
            P.add("assign %0 %4", ok_)
        else:
            P.add("copy %0 %4", ok_)
        P.add("del %4")
        P.add("zero %4")
    order = list(range(tot))
    if hist == "shrunk":
        # remove the four extras: from the front (Array memmove, List unlink of the head) / keys spread over the map
        for j in range(extra):
            if ismap:
                P.add("rem %%0 %%%d" % ((30 if iskey else 60) + n + j))
            else:
                P.add("pop_at %0 i:0")
        if not ismap:
            order = list(range(extra, tot))
        else:
            order = list(range(n))
    model = {}          # j -> current dump of the subject-typed item

    def dump_expect():
        if ismap:
            items = []
            for j in order:
                a, b = ent(ty, model.get(j, subj[j])), ent(oty, oth[j])
                items.append("%s:%s" % ((a, b) if iskey else (b, a)))
            return sorted(items)
        return [ent(ty, model.get(j, subj[j])) for j in order]

    def add_dump():
        want = dump_expect()

        def chk(o, want=want):
            if not (o.startswith("ok [") and o.endswith("]")):
                return "container walk failed: " + o
            got = o[4:-1].split(",") if len(o) > 5 else []
            if ismap:
                got = sorted(got)
            return None if got == want else "container dump %s, expected %s" % (got[:12], want[:12])
        P.add("peeks %0 kv" if ismap else "peeks %0", chk)

    add_dump()
    tj = order[pos]          # the item under test
    if not ismap:
        m = len(order)
        how = where.split("-")[1]
        if how == "get":
            P.add("get %%0 i:%d %%1" % pos, any_ok)
        elif how == "neg":
            P.add("get %%0 i:%d %%1" % (pos - m), any_ok)
        elif how == "iter":
            P.add("iter %0 init %1", any_ok)
            for _ in range(pos):
                P.add("iter %0 next %1 %1", any_ok)
        else:
            P.add("iter %0 last %1", any_ok)
            for _ in range(m - 1 - pos):
                P.add("iter %0 prev %1 %1", any_ok)
    else:
        if iskey:
            P.add("findkey %%0 %%%d %%1" % (30 + tj), expect_ok("found"))
        elif where.endswith("cursor"):
            P.add("findkey %%0 %%%d %%2" % (60 + tj), expect_ok("found"))
            P.add("get %0 %2 %1", any_ok)
        else:
            P.add("get %%0 %%%d %%1" % (60 + tj), any_ok)
    tdesc = "%s alloc=%d" % (ty_name(ty), DATA)
    P.add("typeof %1", expect_ok(tdesc))
    P.add("peek %1", expect_ok(subj[tj]))
    silent_del = "del-nonheap-silent" in known()
    for op in ops:
        if op == "collect":
            P.add("collect")
        elif op == "write":
            # all size(type) bytes are written through the handed-out pointer; a key is rewritten with its own bytes
            if ty == "Int":
                continue
            b = (0x10 + tj) if iskey else (0xe0 + len(P.lines) % 16)
            P.add("fill %%1 %02x" % b)
            model[tj] = hexof(ty, b)
        elif op in FREE_OPS:
            nt = True
            if op in ("delkeep", "delrootkeep") and silent_del:
                P.add("%s %%1" % op, lambda o: None if (o == "ok" or o == "ok " or o.startswith("exc ResourceError") or o.startswith("exc ValueError")) and " depth=" not in o else "del of a non-heap object: " + o)
            else:
                P.add("%s %%1" % op, expect_exc("ResourceError", "ValueError"))
        P.add("peek %1", expect_ok(model.get(tj, subj[tj])))
        P.add("typeof %1", expect_ok(tdesc))
        add_dump()
    # the container is still usable: one more element, then delete it
    j = tot
    subj.append(mkobj(30 + j, T, ty, 0x10 + j))
    if ismap:
        oth.append(mkobj(60 + j, O, oty, 0x40 + j))
    add_one("%0", j)
    order.append(j)
    add_dump()
    P.add("del %0")
    return P, True


def any_ok(o):
    return None if o.startswith("ok") else "failed: " + o


def build_prog(case):
    """returns (Prog, nontrivial) or None when the combination does not exist"""
    if case["obtain"] == "sized":
        return build_sized(case)
    ob, et, n, ops = case["obtain"], case["et"], case["n"], case["ops"]
    P = Prog()
    pos = case["pos"] * n // 1001
    cont = None            # (slot, expected repr builder)
    exp_type, exp_alloc = et, None
    val_repr = None
    writable = et in ("Int", "Float", "String", "Probe")
    if et == "Tuple" and ob not in ("new", "stack", "copy", "new_raw", "new_root"):
        return None
    if et == "Probe":
        P.add("pmode 0")
    items = [FILL[et]] * n if et != "Tuple" else []
    if et != "Tuple":
        items[pos] = LIT[et]
    cont_dump = None

    def seq_repr(tag):
        return "%s[%s]" % (tag, ",".join(lit_repr(x) for x in items))

    if ob in ("new", "new_raw", "new_root"):
        cls = {"new": "heap", "new_raw": "raw", "new_root": "root"}[ob]
        if et == "Tuple":
            P.add("new %10 heap t:Int i:1")
            P.add("new %11 heap t:Int i:2")
            P.add("new %%1 %s t:Tuple %%10 %%11" % cls)
            val_repr = "U[i1,i2]"
        else:
            P.add("new %%1 %s t:%s %s" % (cls, et, LIT[et]))
            val_repr = lit_repr(LIT[et])
        exp_alloc = HEAP
    elif ob == "stack":
        if et == "Tuple":
            P.add("new %10 heap t:Int i:1")
            P.add("new %11 heap t:Int i:2")
            P.add("stup %1 %10 %11")
            val_repr = "U[i1,i2]"
        else:
            P.add("tmp %%1 %s" % LIT[et])
            val_repr = lit_repr(LIT[et])
        exp_alloc = STACK
    elif ob == "copy":
        if et == "Tuple":
            P.add("new %10 heap t:Int i:1")
            P.add("stup %2 %10")
            P.add("copy %1 %2", lambda o: None if o.startswith("ok") else "copy failed " + o)
            val_repr = "U[i1]"
        else:
            P.add("copy %%1 %s" % LIT[et], lambda o: None if o.startswith("ok") else "copy failed " + o)
            val_repr = lit_repr(LIT[et])
        exp_alloc = HEAP
    elif ob == "static-type":
        P.add("tmp %%1 t:%s" % (et if et != "Probe" else "Int"))
        exp_type, exp_alloc, val_repr, writable = "Type", STATIC, "t" + (et if et != "Probe" else "Int"), False
    elif ob == "static-underscore":
        P.add("tmp %1 _")
        exp_type, exp_alloc, val_repr, writable = None, STATIC, "_", False
    elif ob in ("array-get", "array-iter", "list-get", "list-iter"):
        kind = "Array" if ob.startswith("array") else "List"
        hist, was = case.get("hist", "direct"), case.get("was", "Int")
        if was == "Probe":
            P.add("pmode 0")
        if hist == "direct":
            P.add("new %%0 heap t:%s t:%s %s" % (kind, et, " ".join(items)))
        elif hist == "clear-refill":
            P.add("new %%0 heap t:%s t:%s %s %s" % (kind, et, FILL[et], FILL[et]))
            P.add("resize %0 0")
            for x in items:
                P.add("push %%0 %s" % x)
        else:
            # the container is (re)typed by assign / copy from a source of element type et, empty or full
            full = hist.endswith("full")
            P.add("new %%4 heap t:%s t:%s %s" % (kind, et, " ".join(items) if full else ""))
            if hist.startswith("assign"):
                P.add("new %%0 heap t:%s t:%s %s %s %s" % (kind, was, FILL[was], LIT[was], FILL[was]))
                P.add("assign %0 %4", lambda o: None if o.startswith("ok") else "assign failed " + o)
            else:
                P.add("copy %0 %4", lambda o: None if o.startswith("ok") else "copy failed " + o)
            if not full:
                for x in items:
                    P.add("push %%0 %s" % x)
            P.add("del %4")
            P.add("zero %4")
        via = case.get("via", "fwd")
        if ob.endswith("get"):
            P.add("get %%0 i:%d %%1" % (pos - n if via == "neg" else pos), expect_ok(lit_repr(LIT[et])))
        elif via == "bwd":
            P.add("iter %0 last %1")
            for _ in range(n - 1 - pos):
                P.add("iter %0 prev %1 %1")
        else:
            P.add("iter %0 init %1")
            for _ in range(pos):
                P.add("iter %0 next %1 %1")
        cont_dump = lambda: ("repr %0", seq_repr(kind[0]))
        exp_alloc, val_repr = DATA, lit_repr(LIT[et])
    elif ob in ("table-key", "table-val", "tree-key", "tree-val"):
        kind = "Table" if ob.startswith("table") else "Tree"
        iskey = ob.endswith("key")
        kt, vt = (et, "Int") if iskey else ("Int", et)
        if iskey and et == "Float":
            pass
        hist, was = case.get("hist", "direct"), case.get("was", "Int")
        if was == "Probe":
            P.add("pmode 0")
        fill = "%4" if hist in ("assign-full", "copy-full") else "%0"
        if hist in ("direct", "clear-refill", "assign-full", "copy-full"):
            P.add("new %s heap t:%s t:%s t:%s" % (fill, kind, kt, vt))
            if hist == "clear-refill":
                P.add("set %%0 %s %s" % (FILL[kt], FILL[vt]))
                P.add("resize %0 0")
        else:
            P.add("new %%4 heap t:%s t:%s t:%s" % (kind, kt, vt))
            if hist == "assign-empty":
                wk, wv = (was, "Int") if not iskey else ("Int", was)
                P.add("new %%0 heap t:%s t:%s t:%s" % (kind, wk, wv))
                P.add("set %%0 %s %s" % (FILL[wk], LIT[wv]))
                P.add("set %%0 %s %s" % (LIT[wk], FILL[wv]))
                P.add("assign %0 %4", lambda o: None if o.startswith("ok") else "assign failed " + o)
            else:
                P.add("copy %0 %4", lambda o: None if o.startswith("ok") else "copy failed " + o)
            P.add("del %4")
            P.add("zero %4")
        for j in range(n):
            if iskey:
                k = LIT[et] if j == pos else {"Int": "i:%d" % (100 + j), "Float": "f:%016x" % gen.f2b(100.5 + j), "String": "s:" + ("k%d" % j).encode().hex(), "Probe": "p:%d" % (100 + j)}[et]
                P.add("set %s %s i:%d" % (fill, k, j))
            else:
                P.add("set %s i:%d %s" % (fill, j, LIT[et] if j == pos else FILL[et]))
        if hist in ("assign-full", "copy-full"):
            # the filled map becomes the source; the map under test is assigned / copied from it
            if hist == "assign-full":
                wk, wv = (was, "Int") if not iskey else ("Int", was)
                P.add("new %%0 heap t:%s t:%s t:%s" % (kind, wk, wv))
                P.add("set %%0 %s %s" % (FILL[wk], LIT[wv]))
                P.add("assign %0 %4", lambda o: None if o.startswith("ok") else "assign failed " + o)
            else:
                P.add("copy %0 %4", lambda o: None if o.startswith("ok") else "copy failed " + o)
            P.add("del %4")
            P.add("zero %4")
        if iskey:
            P.add("findkey %%0 %s %%1" % LIT[et], expect_ok("found"))
        elif case.get("via") == "cursor":
            # the value through an iteration cursor (pointer to the embedded key): Table_Get's pointer fast path
            P.add("findkey %%0 i:%d %%2" % pos, expect_ok("found"))
            P.add("get %0 %2 %1", expect_ok(lit_repr(LIT[et])))
        else:
            P.add("get %%0 i:%d %%1" % pos, expect_ok(lit_repr(LIT[et])))
        exp_alloc, val_repr = DATA, lit_repr(LIT[et])
        grabbed = {}

        def cont_dump_first():
            return None
        cont_dump = "map"
    elif ob in ("range-heap", "range-stack"):
        if ob == "range-heap" and case.get("pos", 0) % 2 == 1:
            # the Range received its value by assignment from another one that is deleted at once: the cursor object
            # it hands out must be its own
            P.add("new %%4 heap t:Range i:%d" % (n + 2))
            P.add("new %0 heap t:Range i:1")
            P.add("assign %0 %4", lambda o: None if o.startswith("ok") else "assign failed " + o)
            P.add("del %4")
            P.add("zero %4")
        elif ob == "range-heap":
            P.add("new %%0 heap t:Range i:%d" % (n + 2))
        else:
            P.add("stk %%0 range i:%d" % (n + 2))
        P.add("iter %0 init %1")
        exp_type, exp_alloc, val_repr, writable = "Int", HEAP if ob == "range-heap" else STACK, "i0", False
    elif ob in ("slice-heap", "slice-stack"):
        if et not in ("Int", "String", "Float", "Probe"):
            return None
        P.add("new %%2 heap t:Array t:%s %s" % (et, " ".join(items)))
        if ob == "slice-heap":
            P.add("new %%0 heap t:Slice %%2 i:%d _" % pos)
        else:
            P.add("stk %%0 slice %%2 i:%d _" % pos)
        P.add("iter %0 init %1")
        exp_alloc, val_repr = DATA, lit_repr(LIT[et])
        cont_dump = lambda: ("repr %2", seq_repr("A"))
    elif ob in ("zip-heap", "zip-stack"):
        P.add("new %2 heap t:Array t:Int i:1 i:2")
        P.add("new %3 heap t:List t:Int i:3 i:4")
        P.add("new %0 heap t:Zip %2 %3" if ob == "zip-heap" else "stk %0 zip %2 %3")
        P.add("iter %0 init %1")
        exp_type, exp_alloc, val_repr, writable = "Tuple", HEAP if ob == "zip-heap" else STACK, "U[i1,i3]", False
        et = "ZipTuple"
    elif ob in ("filter", "map-id"):
        if et not in ("Int",):
            return None
        P.add("new %%2 heap t:List t:Int %s" % " ".join("i:%d" % (2 * j + 2) for j in range(n)))
        P.add("new %%0 heap t:%s %%2 fn:%s" % ("Filter" if ob == "filter" else "Map", "even" if ob == "filter" else "id"))
        P.add("iter %0 init %1")
        exp_alloc, val_repr, writable = DATA, "i2", True
        cont_dump = lambda: ("repr %2", "L[%s]" % ",".join("i%d" % (2 * j + 2) for j in range(n)))
    elif ob in VIEWS:
        # the stack-class view object itself (what range() / slice() / ... hand out) under the freeing operations
        if et != "Int":
            return None
        kind = ob[5:]
        vals = list(range(1, n + 1))
        P.add("new %%2 heap t:Array t:Int %s" % " ".join("i:%d" % v for v in vals))
        P.add("new %3 heap t:List t:Int i:30 i:40 i:50")
        if kind == "range":
            P.add("stk %%1 range i:%d" % (n + 2))
            val_repr = "R(0,%d,1)" % (n + 2)
        elif kind == "slice":
            P.add("stk %%1 slice %%2 i:%d _" % pos)
            val_repr = "VSlice[%s]" % ",".join("i%d" % v for v in vals[pos:])
        elif kind == "zip":
            P.add("stk %1 zip %2 %3")
            val_repr = "VZip[%s]" % ",".join("U[i%d,i%d]" % (a, b) for a, b in zip(vals, [30, 40, 50]))
        elif kind == "enum":
            P.add("stk %1 enum %2")
            val_repr = "VZip[%s]" % ",".join("U[i%d,i%d]" % (i, v) for i, v in enumerate(vals))
        elif kind == "filter":
            P.add("stk %1 filter %2 fn:even")
            val_repr = "VFilter[%s]" % ",".join("i%d" % v for v in vals if v % 2 == 0)
        else:
            P.add("stk %1 map %2 fn:id")
            val_repr = "VMap[%s]" % ",".join("i%d" % v for v in vals)
        exp_type = {"range": "Range", "slice": "Slice", "zip": "Zip", "enum": "Zip", "filter": "Filter", "map": "Map"}[kind]
        exp_alloc, writable = STACK, False
        cont_dump = lambda: ("repr %2", "A[%s]" % ",".join("i%d" % v for v in vals))
        et = "View"
    elif ob == "tuple-elem":
        if et == "Tuple":
            return None
        P.add("new %%10 heap t:%s %s" % (et, LIT[et]))
        P.add("new %11 heap t:Int i:9")
        P.add("new %0 heap t:Tuple %11 %10")
        P.add("get %0 i:1 %1", expect_ok(lit_repr(LIT[et])))
        exp_alloc, val_repr = HEAP, lit_repr(LIT[et])
    else:
        raise HarnessBug(ob)

    # (A) true type and allocation class
    if exp_type is not None:
        P.add("typeof %1", expect_ok("%s alloc=%d" % (exp_type, exp_alloc)))
    else:
        P.add("typeof %1", lambda o: None if o.endswith("alloc=%d" % exp_alloc) else "allocation class: " + o)
    P.add("repr %1", expect_ok(val_repr))

    map_dump = {}

    def add_cont_check(reset=False):
        if cont_dump is None:
            return
        if cont_dump == "map":
            def chk(o, reset=reset):
                if not o.startswith("ok {"):
                    return "container walk failed: " + o
                if reset or "first" not in map_dump:
                    map_dump["first"] = sorted(o[4:-1].split(","))
                    return None
                return None if sorted(o[4:-1].split(",")) == map_dump["first"] else "container changed: %s vs %s" % (o, map_dump["first"])
            P.add("fwdkv %0", chk)
        else:
            line, want = cont_dump()
            P.add(line, expect_ok(want))

    add_cont_check()
    nonheap = exp_alloc != HEAP
    nt = False
    kn = known()
    silent_del = "del-nonheap-silent" in kn
    cur_repr = [val_repr]
    for op in ops:
        if op == "collect":
            P.add("collect")
        elif op == "write":
            # (B) size(type) bytes usable: assign a different value through the object and read it back
            if not writable or ob in ("table-key", "tree-key", "filter", "map-id"):
                continue
            if et == "String" and exp_alloc == STACK:
                continue        # assigning a longer value to a stack string is a reallocating op (below)
            new = LIT2[et] if et != "String" or exp_alloc != STACK else LIT[et]
            P.add("assign %%1 %s" % new, lambda o: None if o.startswith("ok") else "assign failed " + o)
            cur_repr[0] = lit_repr(new)
            if cont_dump not in (None, "map"):
                items[pos] = new
            elif cont_dump == "map":
                P.add("repr %1", expect_ok(cur_repr[0]))
                add_cont_check(reset=True)
                continue
        elif op in FREE_OPS:
            if not nonheap:
                continue        # freeing heap objects is C06's subject
            nt = True
            if op in ("delkeep", "delrootkeep"):
                if silent_del:
                    P.add("%s %%1" % op, lambda o: None if (o == "ok" or o == "ok " or o.startswith("exc ResourceError") or o.startswith("exc ValueError")) and " depth=" not in o else "del of a non-heap object: " + o)
                else:
                    P.add("%s %%1" % op, expect_exc("ResourceError", "ValueError"))
            else:
                P.add("%s %%1" % op, expect_exc("ResourceError", "ValueError"))
        elif op in STR_OPS:
            if exp_type != "String" or exp_alloc not in (STACK, STATIC):
                continue
            nt = True
            line = {"resize-more": "resize %1 64", "resize-less": "resize %1 2", "concat": "concat %1 s:7a7a7a7a7a7a7a7a7a7a7a7a7a7a7a7a7a7a7a",
                    "append": "append %1 s:7a7a7a7a7a7a7a7a", "assign-longer": "assign %%1 %s" % LIT2["String"]}[op]
            P.add(line, expect_exc("ResourceError", "ValueError"))
        elif op in TUP_OPS:
            if exp_type != "Tuple" or exp_alloc != STACK or et == "ZipTuple":
                continue
            nt = True
            line = {"push": "push %1 %10", "pop": "pop %1", "pop_at": "pop_at %1 i:0", "push_at": "push_at %1 %10 i:0",
                    "concat": "concat %1 %1", "resize": "resize %1 1", "assign": "assign %1 %1"}.get(op, "")
            if op in ("concat", "assign"):
                P.add("stup %5 %10")
                line = line.replace("%1 %1", "%1 %5")
            if op.startswith("assign-filter"):
                # a source that can only be iterated (no Len / Get): the other branch of Tuple's assign
                P.add("new %6 heap t:Array t:Int i:1 i:2 i:3")
                P.add("new %%7 heap t:Filter %%6 fn:%s" % ("all" if op == "assign-filter" else "none"))
                P.add("assign %1 %7", expect_exc("ResourceError", "ValueError"))
                P.add("del %7")
                P.add("del %6")
                P.add("repr %1", expect_ok(cur_repr[0]))
                add_cont_check()
                continue
            P.add(line, expect_exc("ResourceError", "ValueError"))
        P.add("repr %1", expect_ok(cur_repr[0]))
        add_cont_check()
    if ob.endswith("iter") or ob in ("table-key", "tree-key", "slice-heap", "slice-stack", "filter"):
        nt = True
    # container still usable afterwards
    if ob in ("array-get", "array-iter", "list-get", "list-iter"):
        P.add("push %%0 %s" % FILL[et if et != "ZipTuple" else "Int"])
        items.append(FILL[et])
        add_cont_check()
        P.add("del %0")
        if et == "Probe":
            P.add("live", expect_ok("live=0 ledger=-"))
    elif ob in ("new", "copy") and et == "Probe":
        P.add("del %1")
        P.add("live", expect_ok("live=0 ledger=-"))
    elif ob == "new_raw" and et == "Probe":
        P.add("delraw %1")
        P.add("live", expect_ok("live=0 ledger=-"))
    elif ob == "new_root" and et == "Probe":
        P.add("delroot %1")
        P.add("live", expect_ok("live=0 ledger=-"))
    return P, nt


def run_case(ctx, case):
    r = build_prog(case)
    if r is None:
        return Result(None, False, ["combination-does-not-exist"], None)
    P, nt = r
    fail, obs = P.run(ctx.executor("ex_vm"))
    if case["obtain"] == "sized":
        ev = ["obtain=sized", "sized:ty=" + case["ty"], "sized:where=" + case["where"]]
        if "hist" in case:
            ev += ["sized:hist=" + case["hist"], "sized:oty=" + case.get("oty", "Int")]
        return Result(fail, nt, ev, None)
    return Result(fail, nt, ["obtain=" + case["obtain"], "et=" + case["et"]] + (["hist=" + case["hist"]] if "hist" in case else []) +
                  (["via=" + case["via"]] if "via" in case else []), None)


def extra_phase(ctx, tier, stats, sample_fn):
    fails = []
    cells = 0
    for ob in OBTAIN:
        for et in ETS + ["Tuple"]:
            for n in (1, 3, 8):
              for hist in (HISTS[1:] if ob.split("-")[0] in ("array", "list", "table", "tree") and n == 3 else ["direct"]):
                for ops in (FREE_OPS + ["collect", "write"] + FREE_OPS, STR_OPS + ["collect"] + STR_OPS, TUP_OPS + ["collect"], ["write", "collect", "write"]):
                    case = {"obtain": ob, "et": et, "n": n, "pos": 500 if n > 1 else 0, "ops": ops}
                    if hist != "direct":
                        case.update(hist=hist, was="Probe" if et != "Probe" else "Int")
                    res = run_case(ctx, case)
                    if "combination-does-not-exist" in res.events:
                        continue
                    stats.add(case, res, sample_fn)
                    cells += 1
                    if res.fail:
                        fails.append((case, res.fail))
    # the sized family: every type x way x history once (5 elements, the middle one under test)
    for ti, ty in enumerate(SIZED_TY):
        for where in SIZED_WHERE:
            for hist in (SIZED_HIST if "-" in where else ["direct"]):
                case = {"obtain": "sized", "ty": ty, "where": where, "n": 5, "pos": 500,
                        "ops": ["write"] + FREE_OPS + ["collect", "write"] + FREE_OPS[2:]}
                if "-" in where:
                    case.update(hist=hist, oty=SIZED_TY[(ti + 3 + len(where)) % len(SIZED_TY)])
                res = run_case(ctx, case)
                stats.add(case, res, sample_fn)
                cells += 1
                if res.fail:
                    fails.append((case, res.fail))
    return {"fails": fails[:10], "extra": {"matrix_cells_enumerated": cells, "matrix_failures": len(fails)}}


KNOWN = [{"key": "del-nonheap-silent",
          "what": "del / del_root of a stack, static or container-embedded object is silently ignored instead of raising",
          "case": {"obtain": "stack", "et": "Int", "n": 1, "pos": 0, "ops": ["delkeep"], "strict": True}}]

_build_prog = build_prog


def build_prog(case):          # noqa: F811
    if case.get("strict"):
        # bounded reproduction of the known finding: demand the exception
        global known
        saved = known
        known = lambda: {}
        try:
            return _build_prog(case)
        finally:
            known = saved
    return _build_prog(case)
