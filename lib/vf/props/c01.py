"""C01 - the garbage collector never reclaims a reachable object."""
from hypothesis import strategies as st
from ..core import Result, HarnessBug, load_known
from . import gcx

ID = "C01"
# what the collector does depends on heap addresses (registry slots are address residues): a failing case is re-run 8
# times in fresh executors and reported when it fails again at least twice
CONFIRM = (2, 8)
LEVEL = "exploration"
BUDGET = {"quick": 1000, "thorough": 240000}
RULE = ("case = history over a shadow heap graph, executed in a fresh Cello Thread (7 of 8) or in a fresh process' main thread "
        "(collector set up by the main macro): objects of every representation (plain structs with 4 pointer fields of 48 bytes, "
        "52 bytes and 1 MiB - the latter with pointer fields in its first and its last words -, a struct that keeps its pointer "
        "fields in a malloc'd side block and reports them through its own Mark instance, a type of size 0 as a target, "
        "Ref, Box, Array<Ref>, List<Ref>, Table<Int,Ref>, Table<Ref,Ref> and Tree<Ref,Ref> keys+values, Tree<Int,Ref>, heap "
        "Tuple, a not-started Thread object holding thread-local entries; malloc'd and arena-allocated; obtained from new, "
        "from alloc without a constructor call, or from copy() of a reachable struct / Ref / whole container), holders built "
        "directly or retyped from containers of scalars, pointer stores and removals chosen among reachable objects through "
        "push / push_at / set on an index / set on a key, pop / pop_at / rem / resize 0 (so cycles, self references, diamonds "
        "and mixed-representation paths arise), roots of three kinds (stack slot, root-registered holder of ANY of these "
        "kinds, thread-local entry), root drops, explicit deletions, container bulk growth/shrink with live edges, chains of "
        "up to 400 links through fields / Ref objects / Lists, forced collections (always twice in a row), churn (threshold "
        "collections) and allocations of every kind made exactly when the registry is at its threshold, so that the "
        "collection runs inside alloc() on the not yet constructed object. Oracle (one-directional, as conservative scanning "
        "requires): after every collection every object the shadow graph reaches from the shadow roots is not finalised, "
        "its canary is intact, it is still registered, and containers still hold exactly the shadow contents; the collection "
        "returns. A separate ladder collects chains of 10^2..10^5 links. non-trivial = a collection finalised >= 1 object "
        "while >= 1 surviving object was reachable only at distance >= 2 or from a non-stack root. distinct = distinct case JSON.")
ASSUMPTIONS = ["nothing is asserted about unreachable objects (the conservative scan may retain them)",
               "a Box is the unique edge to its target; objects are deleted explicitly only when nothing points at them",
               "chains in generated cases stay below the recursion-depth finding (deep-chain ladder reproduces it separately)",
               "raw objects and objects allocated while the collector is stopped never lie on a path (the collector does not trace through unregistered plain structs; documented as the user's duty)",
               "a Thread object used as a holder is never started (tracing the storage of a running thread is the C13 finding)",
               "size-0 objects are never copied (copy of a type without Assign and of size 0 raises TypeError); the Mark-implementing struct is neither copied (a bytewise copy would share its side block) nor used unconstructed",
               "a user Mark instance calls the callback only on pointers to live Cello objects (the callback reads the object's header; the in-tree instances do the same)"]

prepare = gcx.prepare

NODEK = ("node", "nodea", "nodeb", "nodeo", "nodem")      # instrumented holders with 4 pointer fields (48 bytes, arena, 1 MiB, 52 bytes, fields in a side block reported by a Mark instance)
LEAFK = ("nodez",)                               # instrumented object of size 0: can only be pointed at
SEQ = ("arr", "lst", "tup")
MAPI = ("tab", "tre", "thr", "tre4", "tab4")             # keyed by a small integer (thr: thread-local entries of a Thread object;
                                                 # tre4 / tab4: Tree / Table with 4-byte struct keys: Tree values sit at addresses 4 mod 8, Table pads the key)
MAPR = ("tabr", "trer")                          # keys are references too
CONT = SEQ + MAPI + MAPR
IDLIM = 200000                                   # handles of bulk objects (churn, chains, fill) stay below the ledger size


class Shadow:
    def __init__(self):
        self.kind = {}
        self.cls = {}
        self.fields = {}      # node: [t|None]*4 ; ref/box: [t] ; arr/lst/tup: list ; tab/tre: dict ; tabr: dict key->val
        self.stk = {}
        self.tls = {}
        self.rootobjs = set()
        self.dead = set()

    def new(self, h, kind, cls, target=None):
        self.kind[h] = kind
        self.cls[h] = cls
        if kind in NODEK:
            self.fields[h] = [None] * 4
        elif kind in LEAFK:
            self.fields[h] = []
        elif kind in ("ref", "box"):
            self.fields[h] = [target]
        elif kind in SEQ:
            self.fields[h] = []
        else:
            self.fields[h] = {}
        if cls == "root":
            self.rootobjs.add(h)

    def copy(self, h, src):
        """h = copy(src): same type, same targets (plain structs are copied bytewise, Ref and the containers element-wise)"""
        self.kind[h] = self.kind[src]
        self.cls[h] = "m"
        f = self.fields[src]
        self.fields[h] = dict(f) if isinstance(f, dict) else list(f)

    def succ(self, h):
        f = self.fields[h]
        k = self.kind[h]
        if k in MAPI:
            return [t for t in f.values() if t is not None]
        if k in MAPR:
            return [t for kv in f.items() for t in kv if t is not None]
        return [t for t in f if t is not None]

    def reach(self):
        """handle -> distance from the nearest root; also which are reachable from a non-stack root"""
        dist = {}
        frontier = []
        for h in list(self.stk.values()) + list(self.tls.values()) + list(self.rootobjs):
            if h not in self.dead and h not in dist:
                dist[h] = 0
                frontier.append(h)
        while frontier:
            nxt = []
            for h in frontier:
                for t in self.succ(h):
                    if t not in dist and t not in self.dead:
                        dist[t] = dist[h] + 1
                        nxt.append(t)
            frontier = nxt
        return dist

    def indeg(self, t):
        n = 0
        for h in self.kind:
            if h in self.dead:
                continue
            n += self.succ(h).count(t)
        return n


@st.composite
def _case(draw):
    S = Shadow()
    ops = []
    nobj = [0]
    big = [20000]
    boxed = set()
    excl_tuple_cycle = "tuple-cycle" in load_known().get(ID, {})

    def fresh():
        nobj[0] += 1
        return nobj[0]

    def reachable():
        return sorted(S.reach())

    def attach(h):
        """make the newly allocated object h reachable right away (or leave it as garbage)"""
        how = draw(st.sampled_from(["stk", "stk", "field", "field", "cont", "tls", "garbage"]))
        R = [x for x in reachable() if x != h]
        if how == "stk" or not R:
            if how == "garbage" or len(S.stk) >= 14:
                return
            slot = min(set(range(16)) - set(S.stk))
            S.stk[slot] = h
            ops.append(["stk", slot, h])
            return
        if how == "tls" and len(S.tls) < 6:
            k = min(set(range(8)) - set(S.tls))
            S.tls[k] = h
            ops.append(["tls", k, h])
            return
        if how == "garbage":
            return
        srcs = [x for x in R if S.kind[x] in NODEK] if how == "field" else [x for x in R if S.kind[x] in CONT]
        if not srcs:
            srcs = [x for x in R if S.kind[x] in NODEK + CONT]
        if not srcs:
            if len(S.stk) < 14:
                slot = min(set(range(16)) - set(S.stk))
                S.stk[slot] = h
                ops.append(["stk", slot, h])
            return
        store(draw(st.sampled_from(srcs)), h)

    def store(s, t):
        k = S.kind[s]
        if t in boxed or (k == "box") or k in LEAFK:
            return
        if k in NODEK:
            i = draw(st.integers(0, 3))
            S.fields[s][i] = t
            ops.append(["store", s, i, t])
        elif k == "ref":
            S.fields[s][0] = t
            ops.append(["store", s, 0, t])
        elif k in SEQ:
            f = S.fields[s]
            if k == "tup" and (t in f):
                return                    # a tuple never holds one pointer twice (C11 finding)
            how = draw(st.sampled_from(["push", "push", "push", "pushat", "setat"]))
            if how == "pushat" and f:
                i = draw(st.integers(0, len(f) - 1))          # insert before element i (push_at needs an existing index)
                f.insert(i, t)
                ops.append(["pushat", s, i, t])
            elif how == "setat" and f and k != "tup":
                i = draw(st.integers(0, len(f) - 1))          # overwrite element i
                f[i] = t
                ops.append(["setat", s, i, t])
            else:
                f.append(t)
                ops.append(["store", s, 0, t])
        elif k in MAPI:
            key = draw(st.integers(0, 12))
            S.fields[s][key] = t
            ops.append(["store", s, key, t])
        elif k in MAPR:
            R = reachable()
            keyobj = draw(st.sampled_from(R)) if R else t
            if keyobj in boxed:
                return
            S.fields[s][keyobj] = t
            ops.append(["store", s, keyobj, t])

    nbig = [0]

    def node_kind():
        k = draw(st.sampled_from(["node", "node", "node", "nodea", "nodea", "nodeo", "nodez", "nodeb", "nodem", "nodem"]))
        if k == "nodeb":
            if nbig[0] >= 2:
                return "node"
            nbig[0] += 1
        return k

    def new_obj(h, kind, cls="m"):
        """emit the allocation of a fresh object of any kind but box (targets of Ref must be reachable)"""
        if kind == "ref":
            R = [x for x in reachable() if x not in boxed]
            if not R:
                kind = "node"
            else:
                t = draw(st.sampled_from(R))
                S.new(h, "ref", cls, t)
                ops.append(["new", h, "ref", cls, t])
                return
        S.new(h, kind, cls)
        if kind == "nodea":
            # arena object at an address aimed at a residue class of the registry (last slot, a shared home slot)
            ops.append(["new", h, kind, cls, draw(st.sampled_from([-1, -2, -2, 0, 1, 3]))])
        elif kind in NODEK + LEAFK:
            # new(...) or alloc(...) without a constructor call (the Mark-implementing struct needs its constructor)
            ops.append(["alloc" if (kind != "nodem" and draw(st.integers(0, 5)) == 0) else "new", h, kind, cls])
        else:
            # the holder is constructed with its element types, or first as a container of scalars that is then
            # assigned / copied from an empty container of the wanted types (its element types change afterwards)
            rt = draw(st.sampled_from([0, 0, 1, 2, 3])) if kind not in ("tup", "thr") else 0
            ops.append(["new", h, kind, cls] + (["retype%d" % rt] if rt else []))

    n = draw(st.integers(4, 45))
    for _ in range(n):
        o = draw(st.sampled_from(["new", "new", "new", "newc", "newc", "newp", "store", "store", "store", "store", "unstore", "unstore",
                                  "unroot", "del", "collect", "collect", "churn", "bulk", "chain", "box", "cycle", "rootobj", "rootobj",
                                  "cluster", "cluster", "cluster", "cluster", "copy", "copy", "fillnew", "fillnew"]))
        R = reachable()
        if o == "new":
            h = fresh()
            new_obj(h, node_kind())
            attach(h)
        elif o == "fillnew" and big[0] + 700 < IDLIM:
            # the registry is filled up to its collection threshold, so the next allocation runs a collection inside
            # alloc(), i.e. while the new object of this kind exists but is not constructed yet
            kind = draw(st.sampled_from(list(CONT) + ["node", "nodeo", "nodez", "nodem", "ref"]))
            ops.append(["fill", big[0], 600])
            big[0] += 600
            h = fresh()
            new_obj(h, kind)
            attach(h)
            ops.append(["check"])
        elif o == "copy" and R:
            # copy() of a reachable object: a plain struct, a Ref or a whole container; the copy shares the targets
            srcs = [x for x in R if S.kind[x] in NODEK + CONT + ("ref",) and x not in boxed and S.kind[x] != "nodem"
                    and (S.kind[x] != "nodeb" or nbig[0] < 2) and len(S.fields[x]) <= 60]
            if srcs:
                src = draw(st.sampled_from(srcs))
                if S.kind[src] == "nodeb":
                    nbig[0] += 1
                h = fresh()
                S.copy(h, src)
                ops.append(["copy", h, src])
                attach(h)
        elif o == "cluster":
            # a probe cluster in the registry (same home slot, preferably the last slot so that it wraps around)
            # made of reachable and unreachable objects and a root holder, then an explicit deletion inside the
            # cluster and collections: survivors must survive the backward shifts of del and of the sweep
            res = draw(st.sampled_from([-2, -2, 0, 2]))
            cnt = draw(st.integers(3, 10))
            keepers = [x for x in reachable() if S.kind[x] in ("arr", "lst")]
            cl_stk = []
            with_root = draw(st.integers(0, 2)) > 0
            nroot = 2 if cnt >= 5 else 1
            for j in range(cnt):
                h = fresh()
                if with_root and j >= cnt - nroot:
                    # root-registered holders late in the cluster (so they sit displaced), each the only path to a child
                    S.new(h, "nodea", "root")
                    ops.append(["new", h, "nodea", "root", res])
                    c = fresh()
                    S.new(c, "node", "m")
                    ops.append(["new", c, "node", "m"])
                    S.fields[h][0] = c
                    ops.append(["store", h, 0, c])
                    continue
                S.new(h, "nodea", "m")
                ops.append(["new", h, "nodea", "m", res])
                if (j in (cnt - nroot - 2, cnt - nroot - 1) if with_root else j == 0) and len(S.stk) < 14:       # the members allocated right before the root holders
                    slot = min(set(range(16)) - set(S.stk))
                    S.stk[slot] = h
                    ops.append(["stk", slot, h])
                    cl_stk.append((slot, h))
                elif draw(st.booleans()):
                    if keepers:
                        store(keepers[0], h)
                    elif len(S.stk) < 14:
                        slot = min(set(range(16)) - set(S.stk))
                        S.stk[slot] = h
                        ops.append(["stk", slot, h])
            for slot, h in cl_stk:
                # explicit deletions inside the cluster, before the next collection (entries behind them shift back)
                if draw(st.integers(0, 3)) > 0 and S.indeg(h) == 0:
                    del S.stk[slot]
                    S.dead.add(h)
                    ops.append(["unstk", slot])
                    ops.append(["del", h])
            ops.append(["collect"])
            ops.append(["check"])
            ops.append(["collect"])
            ops.append(["check"])
        elif o == "newc":
            h = fresh()
            new_obj(h, draw(st.sampled_from(CONT)))
            attach(h)
        elif o == "newp" and R:
            t = draw(st.sampled_from(R))
            if t in boxed:
                continue
            h = fresh()
            S.new(h, "ref", "m", t)
            ops.append(["new", h, "ref", "m", t])
            attach(h)
        elif o == "rootobj":
            # a root-registered holder: a plain struct or any of the containers / a Ref (new_root / alloc_root)
            h = fresh()
            new_obj(h, draw(st.sampled_from(["node", "node", "nodeo", "nodem", "ref"] + list(CONT))), "root")
        elif o == "box":
            # box -> fresh target; the box is the target's only edge
            t = fresh()
            S.new(t, "node", "m")
            ops.append(["new", t, "node", "m"])
            b = fresh()
            S.new(b, "box", "m", t)
            ops.append(["new", b, "box", "m", t])
            boxed.add(t)
            attach(b)
        elif o == "store" and R:
            s = draw(st.sampled_from(R))
            t = draw(st.sampled_from(R))
            if S.kind[s] == "tup" and excl_tuple_cycle:
                # known finding: a cycle through a heap Tuple; keep tuples acyclic
                if s == t or s in _reach_from(S, t):
                    continue
            store(s, t)
        elif o == "cycle" and R:
            # explicit cycle / self reference through plain nodes
            s = draw(st.sampled_from(R))
            if S.kind[s] in NODEK:
                S.fields[s][3] = s
                ops.append(["store", s, 3, s])
        elif o == "unstore" and R:
            s = draw(st.sampled_from(R))
            k = S.kind[s]
            f = S.fields[s]
            if k in NODEK:
                i = draw(st.integers(0, 3))
                f[i] = None
                ops.append(["unstore", s, i])
            elif k == "ref":
                f[0] = None
                ops.append(["unstore", s, 0])
            elif k in CONT and k != "thr" and f and draw(st.integers(0, 5)) == 0:
                f.clear()                                   # resize(c, 0)
                ops.append(["clear", s])
            elif k in SEQ and f:
                if draw(st.booleans()):
                    f.pop()
                    ops.append(["unstore", s, 0])
                else:
                    i = draw(st.integers(0, len(f) - 1))    # pop_at: front / middle / back
                    f.pop(i)
                    ops.append(["popat", s, i])
            elif k in MAPI + MAPR and f:
                key = draw(st.sampled_from(sorted(f)))
                del f[key]
                ops.append(["unstore", s, key])
        elif o == "unroot":
            which = draw(st.sampled_from(["stk", "stk", "tls"]))
            if which == "stk" and S.stk:
                slot = draw(st.sampled_from(sorted(S.stk)))
                del S.stk[slot]
                ops.append(["unstk", slot])
            elif S.tls:
                k = draw(st.sampled_from(sorted(S.tls)))
                del S.tls[k]
                ops.append(["untls", k])
        elif o == "del":
            # explicit deletion of an object nothing else points at: a stack-rooted object, or a root holder
            cands = [(slot, h) for slot, h in S.stk.items() if S.indeg(h) == 0 and list(S.stk.values()).count(h) == 1
                     and h not in S.tls.values() and S.kind[h] != "box"]
            roots = [h for h in S.rootobjs if S.indeg(h) == 0]
            if roots and (not cands or draw(st.booleans())):
                h = draw(st.sampled_from(sorted(roots)))
                S.rootobjs.discard(h)
                S.dead.add(h)
                ops.append(["del", h])
            elif cands:
                slot, h = cands[draw(st.integers(0, len(cands) - 1))]
                del S.stk[slot]
                S.dead.add(h)
                ops.append(["unstk", slot])
                ops.append(["del", h])
        elif o == "collect":
            ops.append(["collect"])
            ops.append(["check"])
            ops.append(["collect"])
            ops.append(["check"])
        elif o == "churn":
            cnt = draw(st.sampled_from([10, 40, 120]))
            if big[0] + cnt < IDLIM:
                ops.append(["churn", big[0], cnt])
                big[0] += cnt
                ops.append(["check"])
        elif o == "bulk" and R:
            conts = [x for x in R if S.kind[x] in ("arr", "lst", "tab", "tre", "tre4", "tab4")]
            live = [x for x in R if x not in boxed]
            if conts and live:
                s = draw(st.sampled_from(conts))
                t = draw(st.sampled_from(live))
                cnt = draw(st.sampled_from([6, 25, 60]))
                ops.append(["bulk", s, t, cnt])
                if S.kind[s] in ("arr", "lst"):
                    S.fields[s].extend([t] * cnt)
                else:
                    for j in range(cnt):
                        S.fields[s][1000 + j] = t
                if draw(st.booleans()):
                    ops.append(["collect"])
                    ops.append(["check"])
                if draw(st.booleans()):
                    ops.append(["unbulk", s, cnt])
                    if S.kind[s] in ("arr", "lst"):
                        del S.fields[s][-cnt:]
                    else:
                        for j in range(cnt):
                            S.fields[s].pop(1000 + j, None)
        elif o == "chain" and R:
            heads = [x for x in R if S.kind[x] in NODEK]
            if heads and big[0] + 900 < IDLIM:
                hd = draw(st.sampled_from(heads))
                L = draw(st.sampled_from([5, 40, 150, 400]))
                how = draw(st.integers(0, 2))
                base = big[0]
                big[0] += 2 * L + 2
                ops.append(["chain", hd, base, L, how])
                prev = hd
                for i in range(L):
                    nd = base + 2 * i
                    S.new(nd, "node", "m")
                    if how == 0:
                        S.fields[prev][0] = nd
                    elif how == 1:
                        S.new(nd + 1, "ref", "m", nd)
                        S.fields[prev][0] = nd + 1
                    else:
                        S.new(nd + 1, "lst", "m")
                        S.fields[nd + 1].append(nd)
                        S.fields[prev][0] = nd + 1
                    prev = nd
                ops.append(["collect"])
                ops.append(["check"])
    ops.append(["collect"])
    ops.append(["check"])
    ops.append(["collect"])
    ops.append(["check"])
    # root holders must be deleted by hand before teardown
    for h in sorted(S.rootobjs):
        ops.append(["del", h])
    # mostly in a fresh Cello Thread; sometimes in a fresh process' main thread (collector set up by the main macro)
    return {"ops": ops, "cfg": draw(st.sampled_from(["asan", "plain"])), "mode": draw(st.sampled_from(["thread"] * 7 + ["main"]))}


def _reach_from(S, t):
    seen = {t}
    fr = [t]
    while fr:
        nx = []
        for h in fr:
            for u in S.succ(h):
                if u not in seen and u not in S.dead:
                    seen.add(u)
                    nx.append(u)
        fr = nx
    return seen


def strategy(tier):
    return _case()


def replay_model(case):
    """re-run the shadow model over the op list; yields (line, kind, payload) for the executor and the oracle"""
    S = Shadow()
    out = []
    for op in case["ops"]:
        o = op[0]
        if o == "new":
            S.new(op[1], op[2], op[3], op[4] if len(op) > 4 and op[2] in ("ref", "box") else None)
            if op[2] in ("ref", "box"):
                out.append(("new %d %s %s %d" % (op[1], op[2], op[3], op[4]), None, None))
            elif op[2] == "nodea" and len(op) > 4:
                out.append(("new %d nodea %s %s" % (op[1], op[3], "last" if op[4] == -2 else str(op[4])), None, None))
            else:
                if len(op) > 4 and str(op[4]).startswith("retype"):
                    out.append(("retype %s" % op[4][6:], None, None))
                out.append(("new %d %s %s" % (op[1], op[2], op[3]), None, None))
        elif o == "store":
            s, k, t = op[1], op[2], op[3]
            kind = S.kind[s]
            if kind in NODEK:
                S.fields[s][k] = t
            elif kind in ("ref", "box"):
                S.fields[s][0] = t
            elif kind in SEQ:
                S.fields[s].append(t)
            else:
                S.fields[s][k] = t
            out.append(("store %d %d %d" % (s, k, t), None, None))
        elif o == "pushat":
            S.fields[op[1]].insert(op[2], op[3])
            out.append(("pushat %d %d %d" % (op[1], op[2], op[3]), None, None))
        elif o == "setat":
            S.fields[op[1]][op[2]] = op[3]
            out.append(("setat %d %d %d" % (op[1], op[2], op[3]), None, None))
        elif o == "popat":
            S.fields[op[1]].pop(op[2])
            out.append(("popat %d %d" % (op[1], op[2]), None, None))
        elif o == "clear":
            S.fields[op[1]].clear()
            out.append(("clear %d" % op[1], None, None))
        elif o == "copy":
            S.copy(op[1], op[2])
            out.append(("copy %d %d" % (op[1], op[2]), None, None))
        elif o == "alloc":
            S.new(op[1], op[2], op[3])
            out.append(("alloc %d %s %s" % (op[1], op[2], op[3]), None, None))
        elif o == "fill":
            out.append(("fill %d %d" % (op[1], op[2]), None, None))
        elif o == "unstore":
            s, k = op[1], op[2]
            kind = S.kind[s]
            if kind in NODEK:
                S.fields[s][k] = None
            elif kind == "ref":
                S.fields[s][0] = None
            elif kind in SEQ:
                S.fields[s].pop()
            else:
                del S.fields[s][k]
            out.append(("unstore %d %d" % (s, k), None, None))
        elif o == "stk":
            S.stk[op[1]] = op[2]
            out.append(("stk %d %d" % (op[1], op[2]), None, None))
        elif o == "unstk":
            S.stk.pop(op[1], None)
            out.append(("unstk %d" % op[1], None, None))
        elif o == "tls":
            S.tls[op[1]] = op[2]
            out.append(("tls %d %d" % (op[1], op[2]), None, None))
        elif o == "untls":
            S.tls.pop(op[1], None)
            out.append(("untls %d" % op[1], None, None))
        elif o == "del":
            S.dead.add(op[1])
            S.rootobjs.discard(op[1])
            if S.kind[op[1]] == "box":
                for t in S.succ(op[1]):
                    S.dead.add(t)
            out.append(("del %d" % op[1], None, None))
        elif o == "collect":
            out.append(("collect", "collect", None))
        elif o == "churn":
            out.append(("churn %d %d" % (op[1], op[2]), "collect", None))
        elif o == "bulk":
            s, t, cnt = op[1], op[2], op[3]
            if S.kind[s] in ("arr", "lst"):
                for j in range(cnt):
                    out.append(("store %d 0 %d" % (s, t), None, None))
                S.fields[s].extend([t] * cnt)
            else:
                for j in range(cnt):
                    out.append(("store %d %d %d" % (s, 1000 + j, t), None, None))
                    S.fields[s][1000 + j] = t
        elif o == "unbulk":
            s, cnt = op[1], op[2]
            if S.kind[s] in ("arr", "lst"):
                for j in range(cnt):
                    out.append(("unstore %d 0" % s, None, None))
                del S.fields[s][-cnt:]
            else:
                for j in range(cnt):
                    if (1000 + j) in S.fields[s]:
                        out.append(("unstore %d %d" % (s, 1000 + j), None, None))
                        del S.fields[s][1000 + j]
        elif o == "chain":
            hd, base, L, how = op[1], op[2], op[3], op[4]
            out.append(("chain %d %d %d %d" % (hd, base, L, how), None, None))
            prev = hd
            for i in range(L):
                nd = base + 2 * i
                S.new(nd, "node", "m")
                if how == 0:
                    S.fields[prev][0] = nd
                elif how == 1:
                    S.new(nd + 1, "ref", "m", nd)
                    S.fields[prev][0] = nd + 1
                else:
                    S.new(nd + 1, "lst", "m")
                    S.fields[nd + 1].append(nd)
                    S.fields[prev][0] = nd + 1
                prev = nd
        elif o == "check":
            dist = S.reach()
            ids = sorted(dist)
            out.append(("fin", "fin", dict(dist)))
            # verify in chunks (line length)
            for i in range(0, len(ids), 250):
                out.append(("alive " + " ".join(str(x) for x in ids[i:i + 250]), "alive", None))
            for h in ids:
                k = S.kind[h]
                if k in CONT and len(S.fields[h]) <= 40:
                    f = S.fields[h]
                    if k in SEQ:
                        want = "[%s]" % ",".join(str(t) for t in f)
                        out.append(("dump %d" % h, "dump", want))
                    else:
                        out.append(("dump %d" % h, "dumpset", sorted("%d:%d" % (a, b) for a, b in f.items())))
        else:
            raise HarnessBug(o)
    return out, S


def run_case(ctx, case):
    prog, S = replay_model(case)
    lines = [p[0] for p in prog]
    mode = case.get("mode", "thread")
    if mode == "main":
        ex = ctx.executor("ex_gc_" + case["cfg"], args=["--main"])
        obs = ex.run("\n".join(lines), fresh=True, timeout=120)
        ex.close()
    else:
        ex = gcx.executor(ctx, case["cfg"])
        obs = ex.run("\n".join(lines), timeout=120)
    gcx.check_harness(obs)
    ev = ["cfg=" + case["cfg"], "mode=" + mode]
    if len(obs) != len(lines) + 1:
        at = max(0, len(obs) - 1)
        line = lines[at] if at < len(lines) else "?"
        return Result("collection/operation did not complete at `%s`: %s" % (line[:80], obs[-1] if obs else "no output"), True, ev, None)
    nt = False
    kinds = set()
    for (l, kind, payload), o in zip(prog, obs):
        if " exc " in o or " depth=" in o or " err=[" in o:
            return Result("op `%s`: %s" % (l[:80], o), True, ev, None)
        if kind == "fin":
            fin = [int(x) for x in o.split()[1:]]
            dist = payload
            bad = [x for x in fin if x in dist]
            if bad:
                return Result("reachable object(s) %s finalised by a collection (distance from root %s)" % (bad[:5], [dist[b] for b in bad[:5]]), True, ev, None)
            if fin and any(d >= 2 for d in dist.values()):
                nt = True
        elif kind == "alive":
            if o.strip() != "alive":
                return Result("reachable object damaged or reclaimed: %s" % o, True, ev, None)
        elif kind == "dump":
            if o.strip() != payload:
                return Result("`%s`: container holds %s, shadow graph says %s" % (l, o, payload), True, ev, None)
        elif kind == "dumpset":
            body = o.strip()[1:-1]
            got = sorted(body.split(",")) if body else []
            if got != payload:
                return Result("`%s`: container holds %s, shadow graph says %s" % (l, got, payload), True, ev, None)
    td = gcx.parse_teardown(obs[-1])
    if td is None or td["err"] != "[]":
        return Result("teardown/ledger problem: " + obs[-1], True, ev, None)
    for op in case["ops"]:
        if op[0] in ("new", "alloc"):
            kinds.add("kind=" + op[2])
            if op[3] == "root":
                kinds.add("root-holder=" + op[2])
            if len(op) > 4 and str(op[4]).startswith("retype"):
                kinds.add("holder-retyped")
            if op[0] == "alloc":
                kinds.add("alloc-without-construct")
        elif op[0] == "copy":
            kinds.add("copy=" + S.kind[op[1]])
        elif op[0] == "fill":
            kinds.add("collection-inside-alloc")
        elif op[0] in ("tls", "chain", "bulk", "pushat", "setat", "popat", "clear"):
            kinds.add(op[0])
    return Result(None, nt, ev + sorted(kinds), None)


def SAMPLE(case):
    return {"cfg": case["cfg"], "mode": case.get("mode", "thread"), "ops": case["ops"][:20] + (["..."] if len(case["ops"]) > 20 else [])}


def extra_phase(ctx, tier, stats, sample_fn):
    """deep-chain ladder: a rooted chain of 10^k links must survive a collection, and the collection must return"""
    fails = []
    rungs = [100, 1000, 10000]
    known = load_known().get(ID, {})
    done = {}
    for L in rungs:
        for how in (0, 1, 2):
            case = {"cfg": "plain", "ops": [["new", 1, "node", "m"], ["stk", 0, 1], ["chain", 1, 100, L, how], ["collect"], ["check"], ["collect"], ["check"]]}
            res = run_case(ctx, case)
            stats.add(case, res, sample_fn)
            done["%d/%d" % (L, how)] = "ok" if not res.fail else "FAIL"
            if res.fail:
                fails.append((case, res.fail))
    return {"fails": fails, "extra": {"deep_chain_ladder": done}}


KNOWN = [{"key": "mark-recursion-depth",
          "what": "marking is recursive (GC_Mark_Item <-> GC_Recurse): a chain of 10^5 linked objects reachable from a root overflows the C stack during a collection",
          "case": {"cfg": "plain", "ops": [["new", 1, "node", "m"], ["stk", 0, 1], ["chain", 1, 100, 100000, 0], ["collect"], ["check"]]}}]
