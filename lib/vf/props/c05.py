"""C05 - containers own their elements: each is finalised exactly once."""
from hypothesis import strategies as st
from .. import build
from ..core import Result, HarnessBug
from ..vm import Prog, expect_ok
from . import seqs, maps

ID = "C05"
LEVEL = "exploration"
BUDGET = {"quick": 1200, "thorough": 240000}
RULE = ("case = 1-4 containers (Array, List, Table, Tree with Probe elements/keys/values - a type with constructor, "
        "assignment, destructor and owned heap memory - and Array<Box> owning collector-managed Probes) driven by "
        "interleaved op lists incl. copy, assign between containers of the same family (Array<->List, Table<->Tree), "
        "clear, delete, sort, bulk growth/drain, with generated Probe hash functions forcing displacement and rehash; "
        "after EVERY op the harness ledger is read: live tokens == sum of sequence lengths + 2 * sum of map lengths + "
        "boxed objects, no double finalise, no assign onto / compare of a finalised element, and 0 live at the end; "
        "contents are compared with the list/dict models as in C02-C04. non-trivial = the case contains an internal move "
        "with live tokens (Array capacity change, Table rehash/displacement, Tree removal of a two-child node, sort) AND a "
        "replace or remove. distinct = distinct case JSON.")
ASSUMPTIONS = ["token ledger kept by the harness' Probe type (issued on construct / first assign into zeroed memory, retired in the destructor)",
               "Box is never copied into a second owner; set() on Array<Box> (which overwrites the pointer) is not generated"]


def prepare(tier):
    return {"ex_vm": build.executor("asan", "ex_vm")}


@st.composite
def box_ops(draw):
    ops = []
    for _ in range(draw(st.integers(1, 25))):
        o = draw(st.sampled_from(["push", "push", "push", "pop", "pop_at", "clear", "pushn", "popn"]))
        if o == "pop_at":
            ops.append([o, draw(st.integers(0, 1000))])
        elif o in ("pushn", "popn"):
            ops.append([o, draw(st.sampled_from([3, 9, 30]))])
        else:
            ops.append([o])
    return {"kind": "BoxArray", "ops": ops}


@st.composite
def strategy_(draw):
    n = draw(st.integers(1, 4))
    conts = []
    for _ in range(n):
        fam = draw(st.sampled_from(["seq", "seq", "map", "map", "box"]))
        if fam == "seq":
            conts.append(draw(seqs.seq_case(kinds=("Array", "List"), ets=("Probe",), max_ops=30)))
        elif fam == "map":
            c = draw(maps.map_case(draw(st.sampled_from(["Table", "Tree"]))))
            # at least one of key / value must be the instrumented type (equal and different sizes: Probe/Probe,
            # Int/Probe, Probe/Int)
            if c["kt"] != "Probe" and c["vt"] != "Probe":
                c = None
            conts.append(c)
        else:
            conts.append(draw(box_ops()))
    conts = [c for c in conts if c is not None]
    if not conts:
        conts = [draw(seqs.seq_case(kinds=("Array", "List"), ets=("Probe",), max_ops=30))]
    total = sum(len(c["ops"]) for c in conts)
    order = draw(st.lists(st.integers(0, len(conts) - 1), min_size=total, max_size=total))
    cross = draw(st.lists(st.tuples(st.integers(0, max(0, total - 1)), st.integers(0, len(conts) - 1), st.integers(0, len(conts) - 1)), max_size=4))
    return {"conts": conts, "order": order, "cross": [list(c) for c in cross], "pmode": draw(st.integers(0, 3))}


@st.composite
def probe_map_case(draw, kind):
    uni = draw(maps.probe_universe(6, 16 if kind == "Table" else 30))
    base = draw(maps.map_case(kind))
    return base


def strategy(tier):
    return strategy_()


class BoxRun:
    def __init__(self, case, slot, prog):
        self.P = prog
        self.cur = slot
        self.n = 0
        self.flags = {"moves": False, "removes": False}
        self.events = set()

    @property
    def c(self):
        return "%%%d" % self.cur

    def start(self):
        self.P.add("new %s heap t:Array t:Box" % self.c)

    def _push(self):
        s = self.cur + 1
        self.P.add("new %%%d heap t:Probe i:%d" % (s, self.n % 7))
        self.P.add("push %s %%%d" % (self.c, s))
        self.P.add("zero %%%d" % s)
        self.n += 1

    def apply(self, op):
        o = op[0]
        if o == "push":
            self._push()
        elif o == "pushn":
            for _ in range(op[1]):
                self._push()
            self.flags["moves"] = True
        elif o == "pop":
            if self.n:
                self.P.add("pop %s" % self.c)
                self.n -= 1
                self.flags["removes"] = True
        elif o == "popn":
            for _ in range(min(op[1], self.n)):
                self.P.add("pop %s" % self.c)
                self.n -= 1
            self.flags["removes"] = True
        elif o == "pop_at":
            if self.n:
                self.P.add("pop_at %s i:%d" % (self.c, op[1] * self.n // 1001))
                self.n -= 1
                self.flags["removes"] = True
        elif o == "clear":
            self.P.add("resize %s 0" % self.c)
            self.n = 0
        self.P.add("len %s" % self.c, expect_ok(str(self.n)))

    def live(self):
        return self.n

    def finish(self):
        self.P.add("del %s" % self.c)
        self.n = 0


def run_case(ctx, case):
    P = Prog()
    P.add("pmode %d" % case["pmode"])
    runs = []
    for i, c in enumerate(case["conts"]):
        base = i * 12
        if c["kind"] in ("Array", "List"):
            r = seqs.SeqRun(c, slot=base, prog=P)
            r.fam = "seq"
        elif c["kind"] in ("Table", "Tree"):
            c = dict(c)
            r = maps.MapRun(c, slot=base, prog=P)
            r.fam = "map"
        else:
            r = BoxRun(c, base, P)
            r.fam = "box"
        r.todo = list(c["ops"])
        runs.append(r)

    def live():
        t = 0
        for r in runs:
            if r.fam == "seq":
                t += len(r.model)
            elif r.fam == "map":
                t += ((r.kt == "Probe") + (r.vt == "Probe")) * len(r.model)
            else:
                t += r.live()
        return t

    def chk_live():
        P.add("live", expect_ok("live=%d ledger=-" % live()))

    for r in runs:
        if r.fam == "map":
            P.add("new %s heap t:%s t:%s t:%s" % (r.c, r.kind, r.kt, r.vt))
            r.check()
        else:
            r.start()
    chk_live()
    cross = {}
    for (at, a, b) in case["cross"]:
        cross.setdefault(at, []).append((a, b))
    events = set()
    for step, ci in enumerate(case["order"]):
        for (a, b) in cross.get(step, []):
            ra, rb = runs[a], runs[b]
            if a != b and ra.fam == rb.fam and ra.fam in ("seq", "map") and \
                    (ra.fam == "seq" or (ra.kt, ra.vt) == (rb.kt, rb.vt)):
                P.add("assign %s %s" % (ra.c, rb.c), lambda ob: None if ob.startswith("ok") else "assign failed: " + ob)
                if ra.fam == "seq":
                    ra.model[:] = list(rb.model)
                    ra.flags["last_cap"] = None
                else:
                    ra.model.clear()
                    ra.model.update(rb.model)
                    # key universe of the target no longer covers the contents: extend it
                    ra.uni = list(dict.fromkeys(list(ra.uni) + list(rb.model.keys())))[:60]
                    ra.flags["last_nslots"] = None
                events.add("cross-assign-%s<-%s" % (ra.kind, rb.kind))
                ra.check()
                rb.check()
                chk_live()
        r = runs[ci]
        if r.todo:
            r.apply(r.todo.pop(0))
            chk_live()
    for r in runs:
        if r.fam == "map":
            r.finish(ledger=False)
        else:
            r.finish()
        if r.fam in ("seq", "map"):
            r.model.clear()
        chk_live()
    fail, obs = P.run(ctx.executor("ex_vm"))
    moves = False
    removes = False
    for r in runs:
        events |= r.events
        events.add("cont=" + r.kind if hasattr(r, "kind") else "cont=BoxArray")
        if r.fam == "seq":
            moves |= (r.flags["grow"] + r.flags["shrink"] > 0) or "sort" in r.events
            removes |= any(e.startswith("rem-first") for e in r.events) or any(o[0] in ("pop", "pop_at", "popn", "set", "resize") for o in r.case["ops"])
        elif r.fam == "map":
            moves |= r.flags["collision"] or r.flags["rehash"] > 0 or r.flags["two_children_rem"]
            removes |= r.flags["rem_or_update"]
        else:
            moves |= r.flags["moves"]
            removes |= r.flags["removes"]
    return Result(fail, moves and removes, sorted(events), None)


def SAMPLE(case):
    return {"pmode": case["pmode"], "cross": case["cross"], "order": case["order"][:20],
            "conts": [{k: (v[:8] if isinstance(v, list) else v) for k, v in c.items()} for c in case["conts"]]}


KNOWN = []
