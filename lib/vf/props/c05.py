"""C05 - containers own their elements: each is finalised exactly once."""
from hypothesis import strategies as st
from .. import build
from ..core import Result, HarnessBug
from ..vm import Prog, expect_ok, lit_repr
from . import seqs, maps

ID = "C05"
ALT_BUILD = True          # a quarter of the workers run the gcc -O0 build (core.py)
LEVEL = "exploration"
BUDGET = {"quick": 1200, "thorough": 240000}
RULE = ("case = 1-5 containers (Array, List, Table, Tree with Probe elements/keys/values - a 28-byte type (no multiple of the word size; its last bytes are a function of its token, so a partially moved element is seen as torn) with constructor, "
        "assignment, destructor and owned heap memory - and Array / List / Table / Tree of Box owning collector-managed Probes) "
        "driven by interleaved op lists incl. copy, assign between containers of the same family (Array<->List, Table<->Tree; a "
        "map is often given a twin of the same types and the other or the same kind, so that both sides of a cross-assign "
        "have a history), clear, delete, sort, bulk growth/drain, with generated Probe hash functions forcing displacement "
        "and rehash. Containers start empty or are built by their constructor from initial elements / key-value pairs (maps: "
        "also with repeated keys, whose earlier bindings must be finalised); map op lists get extra assign / copy / clear / "
        "reserve ops; Array / List are also assigned / concatenated from views of another container (Slice, Filter - the "
        "item-by-item branch of Array_Assign -, Map); a container may be copied and the COPY mutated and deleted (the "
        "original must be unaffected - the existing copy op checks the other direction). Box containers: push, push_at, pop, "
        "pop_at, concat from a Tuple, resize to fewer (and, List, to more: empty Boxes), set of a new / of a bound key "
        "(Table: the old object is finalised; not generated for Tree, where set assigns onto the Box), rem, clear, bulk "
        "growth, and forced collections (an object owned only through a contained Box must survive them). "
        "After EVERY op the harness ledger is read: live tokens == sum of sequence lengths + 2 * sum of map lengths + "
        "boxed objects, no double finalise, no assign onto / compare of a finalised element, and 0 live at the end; "
        "contents are compared with the list/dict models as in C02-C04. non-trivial = the case contains an internal move "
        "with live tokens (Array capacity change, Table rehash/displacement, Tree removal of a two-child node, sort) AND a "
        "replace or remove. distinct = distinct case JSON.")
ASSUMPTIONS = ["token ledger kept by the harness' Probe type (issued on construct / first assign into zeroed memory, retired in the destructor)",
               "Box is never copied into a second owner; set() on Array<Box> / Tree<K,Box> of a bound key (which overwrites the pointer, the documented behaviour of assigning to a Box) is not generated",
               "assign(list, filter) and concat(array, filter) are not generated (List_Assign / Array_Concat call len(source), a Filter has none: ClassError, C12's subject), assign from a Map view neither (a Map has no iter_type: the target is retyped to Ref, a documented conversion)"]

M = maps.M


def prepare(tier):
    return {"ex_vm": build.executor("asan", "ex_vm")}


# ---- generators -------------------------------------------------------------------------

@st.composite
def box_ops(draw):
    kind = draw(st.sampled_from(["BoxArray", "BoxArray", "BoxList", "BoxTable", "BoxTree"]))
    ops = []
    if kind in ("BoxArray", "BoxList"):
        names = ["push", "push", "push", "pop", "pop_at", "clear", "pushn", "popn", "push_at", "resize_less", "concat", "collect"]
        if kind == "BoxList":
            names = names + ["resize_more", "resize_more"]
        for _ in range(draw(st.integers(1, 25))):
            o = draw(st.sampled_from(names))
            if o in ("pop_at", "push_at", "resize_less"):
                ops.append([o, draw(st.integers(0, 1000))])
            elif o in ("pushn", "popn"):
                ops.append([o, draw(st.sampled_from([3, 9, 30]))])
            elif o in ("concat", "resize_more"):
                ops.append([o, draw(st.integers(0, 5))])
            else:
                ops.append([o])
    else:
        # keys: a family that collides in Tables of 5, 11 and 23 slots, plus small ones
        for _ in range(draw(st.integers(1, 25))):
            o = draw(st.sampled_from(["set", "set", "set", "set", "rem", "rem", "clear", "bulk", "drain", "collect", "reserve"]))
            if o in ("set", "rem"):
                ops.append([o, draw(st.integers(0, 23))])
            elif o in ("bulk", "drain"):
                ops.append([o, draw(st.sampled_from([6, 12, 30]))])
            elif o == "reserve":
                ops.append([o, draw(st.integers(0, 40))])
            else:
                ops.append([o])
    return {"kind": kind, "ops": ops}


def box_key(i):
    if i >= 100:
        return "i:%d" % (1000 + 7 * (i - 100))          # bulk keys
    return "i:%d" % ((i // 2 + 1) * 5 * 11 * 23 if i % 2 else i)


@st.composite
def view_op(draw, kind):
    """assign / concat from a view of another container: [op, view, source kind, items, a, b]"""
    o = draw(st.sampled_from(["assign_view", "concat_view", "concat_view"]))
    # a Filter has no Len: Array_Assign then copies item by item (foreach + push), List_Concat iterates anyway, but
    # List_Assign and Array_Concat call len(source) first and refuse it (ClassError: C12's subject)
    if o == "assign_view":
        views = ["slice", "slice"] + (["filter-all", "filter-all", "filter-none"] if kind == "Array" else [])
    else:
        views = ["slice", "map"] + (["filter-all", "filter-none"] if kind == "List" else [])
    items = draw(st.lists(seqs.elem_values("Probe"), max_size=8))
    return [o, draw(st.sampled_from(views)), draw(st.sampled_from(["Array", "List"])), items,
            draw(st.integers(0, 1000)), draw(st.integers(0, 1000))]


@st.composite
def seq5(draw):
    c = draw(seqs.seq_case(kinds=("Array", "List"), ets=("Probe",), max_ops=30))
    c = {"kind": c["kind"], "et": c["et"], "ops": c["ops"]}
    # views as sources
    for _ in range(draw(st.integers(0, 2))):
        at = draw(st.integers(0, len(c["ops"])))
        c["ops"].insert(at, draw(view_op(c["kind"])))
    # constructed with initial elements
    if draw(st.integers(0, 2)) == 0:
        c["init5"] = draw(st.lists(seqs.elem_values("Probe"), max_size=9))
    return c


def _retarget(ops, kind):
    """op list of a twin map: the same universe indices, `reserve` only on a Table"""
    out = []
    for op in ops:
        if op[0] == "reserve" and kind != "Table":
            out.append(["clear"])
        else:
            out.append(op)
    return out


@st.composite
def map5(draw):
    """-> list of one or two map cases (the second is a twin of the same key / value types)"""
    c = None
    for _ in range(4):
        c = draw(maps.map_case(draw(st.sampled_from(["Table", "Tree"]))))
        # at least one of key / value must be the instrumented type (equal and different sizes: Probe/Probe, Int/Probe, Probe/Int)
        if c["kt"] == "Probe" or c["vt"] == "Probe":
            break
        c = None
    if c is None:
        return []
    c = dict(c)
    nk = len(c["uni"])
    vals = maps.values(c["vt"], c["uni"] if c["kt"] == c["vt"] else None)
    # extra special ops: the shared generator issues them rarely
    ops = list(c["ops"])
    for _ in range(draw(st.integers(0, 3))):
        o = draw(st.sampled_from(["assign", "assign", "copy", "clear", "reserve"]))
        if o == "assign":
            pairs = draw(st.lists(st.tuples(st.integers(0, nk - 1), vals), max_size=10, unique_by=lambda p: p[0]))
            op = ["assign", draw(st.sampled_from(["Table", "Tree"])), [[i, v] for (i, v) in pairs]]
        elif o == "reserve":
            op = ["reserve", draw(st.integers(0, 60))] if c["kind"] == "Table" else ["clear"]
        else:
            op = [o]
        ops.insert(draw(st.integers(0, len(ops))), op)
    c["ops"] = ops[:80]
    # constructed from initial pairs, keys may repeat (the later binding wins, the earlier one is finalised)
    if draw(st.integers(0, 2)) == 0:
        c["init5"] = [[i, v] for (i, v) in draw(st.lists(st.tuples(st.integers(0, nk - 1), vals), max_size=12))]
    out = [c]
    if draw(st.booleans()):
        k2 = draw(st.sampled_from(["Table", "Tree"]))
        sub = draw(st.lists(st.integers(0, max(0, len(ops) - 1)), max_size=30))
        t = {"kind": k2, "kt": c["kt"], "vt": c["vt"], "uni": c["uni"], "pmode": c["pmode"],
             "ops": _retarget([ops[i] for i in sub if i < len(ops)], k2), "twin": 1}
        out.append(t)
    return out


@st.composite
def strategy_(draw):
    n = draw(st.integers(1, 4))
    conts = []
    twins = []
    for _ in range(n):
        fam = draw(st.sampled_from(["seq", "seq", "map", "map", "box"]))
        if fam == "seq":
            conts.append(draw(seq5()))
        elif fam == "map":
            ms = draw(map5())
            if len(ms) == 2 and len(conts) <= 3:
                twins.append((len(conts), len(conts) + 1))
                conts.extend(ms)
            elif ms:
                conts.append(ms[0])
        else:
            conts.append(draw(box_ops()))
    conts = conts[:5]
    twins = [(a, b) for (a, b) in twins if b < len(conts)]
    if not conts:
        conts = [draw(seq5())]
    total = sum(len(c["ops"]) for c in conts)
    order = draw(st.lists(st.integers(0, len(conts) - 1), min_size=total, max_size=total))
    # (step, a, b): a != b: assign a <- b; a == b: copy a, mutate and delete the copy
    cross = draw(st.lists(st.tuples(st.integers(0, max(0, total - 1)), st.integers(0, len(conts) - 1), st.integers(0, len(conts) - 1)), max_size=4))
    cross = [list(c) for c in cross]
    for (a, b) in twins:
        for _ in range(draw(st.integers(1, 3))):
            x, y = (a, b) if draw(st.booleans()) else (b, a)
            cross.append([draw(st.integers(0, max(0, total - 1))), x, y])
    return {"conts": conts, "order": order, "cross": cross, "pmode": draw(st.integers(0, 3))}


def strategy(tier):
    return strategy_()


# ---- runs -------------------------------------------------------------------------------

class Seq5(seqs.SeqRun):
    """SeqRun plus sources that are views of another container"""

    def apply(self, op):
        if op[0] not in ("assign_view", "concat_view"):
            return seqs.SeqRun.apply(self, op)
        P, m = self.P, self.model
        o, view, sk, items, a, b = op
        src, v = self.aux, self.aux + 4
        n = len(items)
        P.add(("new %%%d heap t:%s t:Probe %s" % (src, sk, " ".join(items))).rstrip())
        if view == "slice":
            lo, hi = sorted((a * (n + 1) // 1001, b * (n + 1) // 1001))
            P.add("new %%%d heap t:Slice %%%d i:%d i:%d" % (v, src, lo, hi))
            got = items[lo:hi]
        elif view.startswith("filter"):
            P.add("new %%%d heap t:Filter %%%d fn:%s" % (v, src, view[7:]))
            got = list(items) if view == "filter-all" else []
        else:
            P.add("new %%%d heap t:Map %%%d fn:id" % (v, src))
            got = list(items)
        if o == "assign_view":
            P.add("assign %s %%%d" % (self.c, v), lambda ob: None if ob.startswith("ok") else "assign failed: " + ob)
            m[:] = got
            self.flags["last_cap"] = None
        else:
            P.add("concat %s %%%d" % (self.c, v))
            m.extend(got)
        # deep: changing and deleting the source afterwards does not reach the target
        if n:
            P.add("set %%%d i:0 p:55" % src)
        P.add("push %%%d p:56" % src)
        P.add("del %%%d" % v)
        P.add("del %%%d" % src)
        self.events.add("%s-%s-of-%s" % (o.split("_")[0], view, sk))
        self.check()


class BoxRun:
    """Array / List / Table / Tree of Box, each Box owning one collector-managed Probe (or nothing: List padding)"""

    def __init__(self, case, slot, prog):
        self.P = prog
        self.kind = case["kind"]
        self.cur = slot
        self.seq = self.kind in ("BoxArray", "BoxList")
        self.items = []           # sequences: True = Box holds an object, False = empty Box
        self.keys = {}            # maps: bound key index -> True
        self.serial = 0
        self.flags = {"moves": False, "removes": False}
        self.events = set()

    @property
    def c(self):
        return "%%%d" % self.cur

    def start(self):
        t = {"BoxArray": "t:Array t:Box", "BoxList": "t:List t:Box", "BoxTable": "t:Table t:Int t:Box", "BoxTree": "t:Tree t:Int t:Box"}[self.kind]
        self.P.add("new %s heap %s" % (self.c, t))

    def _obj(self, s):
        self.P.add("new %%%d heap t:Probe i:%d" % (s, self.serial % 7))
        self.serial += 1

    def _push(self):
        s = self.cur + 1
        self._obj(s)
        self.P.add("push %s %%%d" % (self.c, s))
        self.P.add("zero %%%d" % s)
        self.items.append(True)

    def _pop(self):
        self.P.add("pop %s" % self.c)
        self.items.pop()

    def _set(self, i):
        s = self.cur + 1
        self._obj(s)
        self.P.add("set %s %s x:%%%d" % (self.c, box_key(i), s))
        self.P.add("zero %%%d" % s)
        self.keys[i] = True

    def apply(self, op):
        o = op[0]
        P = self.P
        n = len(self.items)
        if o == "collect":
            P.add("collect")
            self.events.add("box-collect-%s" % self.kind)
        elif self.seq:
            if o == "push":
                self._push()
            elif o == "pushn":
                for _ in range(op[1]):
                    self._push()
                self.flags["moves"] = True
            elif o == "pop":
                if n:
                    self._pop()
                    self.flags["removes"] = True
            elif o == "popn":
                for _ in range(min(op[1], n)):
                    self._pop()
                self.flags["removes"] = True
            elif o == "pop_at":
                if n:
                    i = op[1] * n // 1001
                    P.add("pop_at %s i:%d" % (self.c, i))
                    self.items.pop(i)
                    self.flags["removes"] = True
            elif o == "push_at":
                if n:
                    i = op[1] * n // 1001
                    s = self.cur + 1
                    self._obj(s)
                    P.add("push_at %s %%%d i:%d" % (self.c, s, i))
                    P.add("zero %%%d" % s)
                    self.items.insert(i, True)
                    self.flags["moves"] = True
                    self.events.add("box-push_at")
            elif o == "resize_less":
                if n >= 2:
                    k = 1 + op[1] * (n - 1) // 1001
                    P.add("resize %s %d" % (self.c, k))
                    del self.items[k:]
                    self.flags["removes"] = True
                    self.events.add("box-resize-less")
            elif o == "resize_more":
                # List only: the new tail elements are empty Boxes (zeroed, nothing to finalise)
                P.add("resize %s %d" % (self.c, n + 1 + op[1]))
                self.items.extend([False] * (1 + op[1]))
                self.events.add("box-list-padding")
            elif o == "concat":
                k = op[1]
                base = self.cur + 2
                for j in range(k):
                    self._obj(base + j)
                P.add(("stup %%%d %s" % (self.cur + 1, " ".join("%%%d" % (base + j) for j in range(k)))).rstrip())
                P.add("concat %s %%%d" % (self.c, self.cur + 1))
                for j in range(k):
                    P.add("zero %%%d" % (base + j))
                P.add("zero %%%d" % (self.cur + 1))
                self.items.extend([True] * k)
                self.events.add("box-concat")
            elif o == "clear":
                P.add("resize %s 0" % self.c)
                self.items = []
            else:
                raise HarnessBug("box op " + o)
            P.add("len %s" % self.c, expect_ok(str(len(self.items))))
        else:
            if o == "set":
                i = op[1]
                if i in self.keys:
                    if self.kind == "BoxTree":
                        return            # Tree_Set assigns onto the bound Box (pointer overwritten): not generated
                    self.flags["removes"] = True
                    self.events.add("box-table-replace")
                self._set(i)
            elif o == "rem":
                i = op[1]
                if i not in self.keys and self.keys:
                    i = sorted(self.keys)[i % len(self.keys)]
                if i in self.keys:
                    P.add("rem %s %s" % (self.c, box_key(i)))
                    del self.keys[i]
                    self.flags["removes"] = True
            elif o == "bulk":
                for j in range(op[1]):
                    if 100 + j not in self.keys:
                        s = self.cur + 1
                        self._obj(s)
                        P.add("set %s %s x:%%%d" % (self.c, box_key(100 + j), s))
                        P.add("zero %%%d" % s)
                        self.keys[100 + j] = True
                self.flags["moves"] = True
            elif o == "drain":
                for j in range(op[1]):
                    if 100 + j in self.keys:
                        P.add("rem %s %s" % (self.c, box_key(100 + j)))
                        del self.keys[100 + j]
                self.flags["removes"] = True
                self.flags["moves"] = True
            elif o == "reserve":
                if self.kind == "BoxTable" and (op[1] == 0 or op[1] >= len(self.keys)):
                    P.add("resize %s %d" % (self.c, op[1]))
                    if op[1] == 0:
                        self.keys = {}
                    self.flags["moves"] = True
            elif o == "clear":
                P.add("resize %s 0" % self.c)
                self.keys = {}
            else:
                raise HarnessBug("box op " + o)
            P.add("len %s" % self.c, expect_ok(str(len(self.keys))))
            if self.kind == "BoxTable":
                P.add("tchk %s" % self.c, lambda ob: None if ob.startswith("ok ") and ob.endswith("bad=-") else "Table invariant: " + ob)
            else:
                P.add("rbchk %s" % self.c, lambda ob: None if ob.startswith("ok ") and ob.endswith("bad=-") else "Tree invariant: " + ob)

    def live(self):
        return sum(1 for x in self.items if x) + len(self.keys)

    def finish(self):
        self.P.add("del %s" % self.c)
        self.items = []
        self.keys = {}


def run_case(ctx, case):
    P = Prog()
    P.add("pmode %d" % case["pmode"])
    runs = []
    for i, c in enumerate(case["conts"]):
        base = i * 12
        if c["kind"] in ("Array", "List"):
            r = Seq5(c, slot=base, prog=P)
            r.fam = "seq"
        elif c["kind"] in ("Table", "Tree"):
            c = dict(c)
            r = maps.MapRun(c, slot=base, prog=P)
            r.fam = "map"
        else:
            r = BoxRun(c, base, P)
            r.fam = "box"
        r.todo = list(c["ops"])
        r.base = base
        runs.append(r)

    def live():
        t = 0
        for r in runs:
            if r.fam == "seq":
                t += len(r.model)
            elif r.fam == "map":
                t += ((r.kt == "Probe") + (r.vt == "Probe")) * len(r.model)
            else:
                t += r.live()
        return t

    def chk_live():
        P.add("live", expect_ok("live=%d ledger=-" % live()))

    events = set()
    for r, c in zip(runs, case["conts"]):
        init = c.get("init5")
        if r.fam == "map":
            words = []
            if init:
                for (i, v) in init:
                    k = r.uni[i]
                    words += [k, v]
                    r.model[k] = v
                events.add("ctor-pairs-%s%s" % (r.kind, "-repeated-key" if len(r.model) < len(init) else ""))
            P.add(("new %s heap t:%s t:%s t:%s %s" % (r.c, r.kind, r.kt, r.vt, " ".join(words))).rstrip())
            r.check()
        elif r.fam == "seq" and init:
            P.add("new %s heap t:%s t:Probe %s" % (r.c, r.kind, " ".join(init)))
            r.model[:] = list(init)
            r.check()
            events.add("ctor-elements-" + r.kind)
        else:
            r.start()
        if "twin" in c:
            events.add("twin-maps")
    chk_live()
    cross = {}
    for (at, a, b) in case["cross"]:
        cross.setdefault(at, []).append((a, b))
    for step, ci in enumerate(case["order"]):
        for (a, b) in cross.get(step, []):
            ra, rb = runs[a], runs[b]
            if a != b and ra.fam == rb.fam and ra.fam in ("seq", "map") and \
                    (ra.fam == "seq" or (ra.kt, ra.vt) == (rb.kt, rb.vt)):
                P.add("assign %s %s" % (ra.c, rb.c), lambda ob: None if ob.startswith("ok") else "assign failed: " + ob)
                if ra.fam == "seq":
                    ra.model[:] = list(rb.model)
                    ra.flags["last_cap"] = None
                else:
                    ra.model.clear()
                    ra.model.update(rb.model)
                    # key universe of the target no longer covers the contents: extend it
                    ra.uni = list(dict.fromkeys(list(ra.uni) + list(rb.model.keys())))[:60]
                    ra.flags["last_nslots"] = None
                events.add("cross-assign-%s<-%s" % (ra.kind, rb.kind))
                ra.check()
                rb.check()
                chk_live()
            elif a == b and ra.fam in ("seq", "map"):
                # the other direction of "deep": the COPY is mutated and deleted, the original must not notice
                t = "%%%d" % (ra.base + 10)
                P.add("copy %s %s" % (t, ra.c), lambda ob: None if ob.startswith("ok") else "copy failed: " + ob)
                n0 = len(ra.model)
                if ra.fam == "seq":
                    if n0:
                        P.add("set %s i:%d p:55" % (t, step % n0))
                        P.add("pop_at %s i:%d" % (t, (step // 3) % n0))
                    P.add("push %s p:56" % t)
                    P.add("live", expect_ok("live=%d ledger=-" % (live() + n0 + (0 if n0 else 1))))
                else:
                    if n0:
                        k0 = sorted(ra.model)[step % n0]
                        P.add("rem %s %s" % (t, k0))
                    P.add("set %s %s %s" % (t, maps.filler_key(ra.kt, 9997), maps.filler_val(ra.vt, 3)))
                    per = (ra.kt == "Probe") + (ra.vt == "Probe")
                    P.add("live", expect_ok("live=%d ledger=-" % (live() + per * (n0 + (0 if n0 else 1)))))
                P.add("del %s" % t)
                ra.check()
                chk_live()
                events.add("copy-dropped-%s" % ra.kind)
        r = runs[ci]
        if r.todo:
            r.apply(r.todo.pop(0))
            chk_live()
    for r in runs:
        if r.fam == "map":
            r.finish(ledger=False)
        else:
            r.finish()
        if r.fam in ("seq", "map"):
            r.model.clear()
        chk_live()
    fail, obs = P.run(ctx.executor("ex_vm"))
    moves = False
    removes = False
    for r in runs:
        events |= r.events
        events.add("cont=" + r.kind)
        if r.fam == "seq":
            moves |= (r.flags["grow"] + r.flags["shrink"] > 0) or "sort" in r.events
            removes |= any(e.startswith("rem-first") for e in r.events) or any(o[0] in ("pop", "pop_at", "popn", "set", "resize") for o in r.case["ops"])
        elif r.fam == "map":
            moves |= r.flags["collision"] or r.flags["rehash"] > 0 or r.flags["two_children_rem"]
            removes |= r.flags["rem_or_update"]
        else:
            moves |= r.flags["moves"]
            removes |= r.flags["removes"]
    return Result(fail, moves and removes, sorted(events), None)


def SAMPLE(case):
    return {"pmode": case["pmode"], "cross": case["cross"], "order": case["order"][:20],
            "conts": [{k: (v[:8] if isinstance(v, list) else v) for k, v in c.items()} for c in case["conts"]]}


KNOWN = []
