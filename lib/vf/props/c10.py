"""C10 - equal values hash equally; copy and assign produce equal values; swap exchanges."""
from hypothesis import strategies as st
from .. import build, gen
from ..core import Result, HarnessBug
from ..vm import Prog, expect_ok, lit_repr
from . import maps
from . import c09 as hist_lib            # container histories (seq_lines / map_lines) shared with C09

ID = "C10"
LEVEL = "exploration"
BUDGET = {"quick": 4500, "thorough": 900000}
RULE = ("case families: (scalar) one Int/Float/String/Type/plain-struct (3, 16, 20, 75 bytes)/Ref value materialised through two "
        "generated histories out of {heap new, stack, embedded in Array/List, Table key/value, Tree key/value, copy, assign over a "
        "pre-used heap / stack / container-embedded object; String also: concat of two halves, resize to a larger buffer, "
        "truncation by resize; Type also: a run-time created type of the same name}; (seq) one element list (0..30 items) built "
        "as Array/List/Tuple (elements Int, String, Float or a 20-byte struct) through direct construction, pushes, push_at front, detours, trim by resize, clear+refill, reserve, "
        "copy, assign over a container of the same or another element type (another element size), assign from an empty source "
        "then fill, concat, stack tuple, Tuple assigned from an Array; Float elements may differ in the sign of zero between the "
        "two builds; (map) one binding set built as Table/Tree in two insertion orders with detours (extra keys inserted and "
        "removed), reserves, prefill+clear, copy, assign from the same / the other kind / over a container of other key+value "
        "types, keys from collision families or Floats, Float keys/values may differ in the sign of zero; (hash_data) byte "
        "strings of length 0..64+ at alignment offsets 0..7 against an independent MurmurHash64A; (swap) two values of one "
        "family in equal or different allocation classes (heap, stack, embedded in one or two Arrays/Lists, Table values), or "
        "two containers (Array/List/Tuple of Int or String, Table, Tree) that are used (push/set, del) afterwards. Oracle: "
        "values equal by construction are eq (both directions) and have equal hash; eq => equal hash on every compared pair; "
        "copy/assign results are eq and hash the same; swap exchanges the dumps and the hashes. non-trivial = the two histories "
        "differ (allocation class, insertion order, detour, kind) or the value is a corner value (+-0.0, empty container/string, "
        "INT64_MIN). distinct = distinct case JSON.")
ASSUMPTIONS = ["independent Python MurmurHash64A (seed 0xCe110) is the reference for hash_data",
               "Table eq is asserted only when both tables iterate in the same slot order (known finding table-cmp-slot-order); hash and bindings are always compared",
               "NaN excluded; Box (owning pointer) not generated as a compared value",
               "two type objects carrying one name (a static type and a run-time created one): eq is not demanded, only eq => equal hash",
               "swap of Strings only between objects that own their buffer the same way (both heap/embedded or both stack): the "
               "default swap exchanges the buffer pointers, so a stack String swapped with a heap String would hand a "
               "non-heap buffer to a destructor",
               "Range / Slice (Cmp without Hash, copy raises) are not generated: reported to the maintainer as a candidate defect"]

HISTS = ["heap", "stack", "arr", "lst", "tabk", "tabv", "treek", "treev", "copy", "assign"]
BLOBS = {"Blob": ("b:", 16), "Blob3": ("b3:", 3), "Blob20": ("b20:", 20), "Blob75": ("b75:", 75)}


def prepare(tier):
    # two compilers / optimisation levels, chosen per case (see c09)
    return {"ex_vm": build.executor("asan", "ex_vm"), "ex_vm_plain": build.executor("plain", "ex_vm")}


def _exe(case):
    """a case without a "cfg" field (older replay files) runs in the ASan build; otherwise the field decides"""
    return "ex_vm_plain" if case.get("cfg") == "plain" else "ex_vm"


def _blob(tn):
    pre, n = BLOBS[tn]
    edge = [bytes(n), b"\xff" * n, bytes(n - 1) + b"\x01"]
    return st.one_of(st.binary(min_size=n, max_size=n), st.sampled_from(edge)).map(lambda b: [tn, pre + b.hex()])


def _scalar_of(kind):
    if kind == "Int":
        return st.one_of(gen.ints(), st.sampled_from([0, -2**63, 2**63 - 1])).map(lambda v: ["Int", "i:%d" % v])
    if kind == "Float":
        return st.one_of(gen.floats(), st.sampled_from([0.0, -0.0])).map(lambda x: ["Float", "f:%016x" % gen.f2b(x)])
    if kind == "String":
        return st.one_of(gen.cbytes(20), gen.cbytes(20), st.builds(lambda u, k: (u or b"x") * k, gen.cbytes(5), st.sampled_from([7, 16, 40, 300]))
                         ).map(lambda b: ["String", "s:" + b.hex()])
    if kind in BLOBS:
        return _blob(kind)
    if kind == "Type":
        return st.sampled_from(["Int", "String", "Array", "Table", "KeyError", "Cmp"]).map(lambda n: ["Type", "t:" + n])
    raise HarnessBug(kind)


def _scalar():
    return st.one_of(
        gen.ints().map(lambda v: ["Int", "i:%d" % v]),
        st.sampled_from([0, -2**63, 2**63 - 1]).map(lambda v: ["Int", "i:%d" % v]),
        gen.floats().map(lambda x: ["Float", "f:%016x" % gen.f2b(x)]),
        st.sampled_from([0.0, -0.0]).map(lambda x: ["Float", "f:%016x" % gen.f2b(x)]),
        _scalar_of("String"),
        _blob("Blob"), _blob("Blob3"), _blob("Blob20"), _blob("Blob75"),
        _scalar_of("Type"),
    )


def _hists_for(tn):
    if tn == "Type":
        return ["stack", "stack", "dyn"]
    if tn in BLOBS:
        return ["heap", "stack", "arr", "lst", "copy", "assign", "tabv", "treev", "assign_embed", "assign_stack"]
    if tn == "String":
        return HISTS + ["assign_embed", "str_concat", "str_reserve", "str_trunc"]
    return HISTS + ["assign_embed", "assign_stack"]


def _flip_zero(lit):
    """f:<bits> of +0.0 <-> -0.0, anything else unchanged"""
    if lit == "f:0000000000000000":
        return "f:8000000000000000"
    if lit == "f:8000000000000000":
        return "f:0000000000000000"
    return lit


@st.composite
def _float_universe(draw, lo, hi):
    xs = draw(st.lists(st.one_of(st.sampled_from([0.0, -0.0, 1.0, -1.0, 0.5, 2.0**53, 5e-324]), gen.finite_floats()),
                       min_size=lo, max_size=hi, unique=True))      # unique by value: 0.0 and -0.0 are one key
    return ["f:%016x" % gen.f2b(x) for x in xs]


_SWAP_CLS = ["heap", "stack", "arr", "lst", "tabv", "same_arr", "same_lst"]


@st.composite
def _case(draw):
    fam = draw(st.sampled_from(["scalar", "scalar", "seq", "seq", "map", "map", "hash_data", "swap", "swap", "zero"]))
    if fam == "scalar":
        v = draw(_scalar())
        hs = _hists_for(v[0])
        return {"fam": fam, "val": v, "hist": [draw(st.sampled_from(hs)), draw(st.sampled_from(hs))],
                "other": draw(_scalar_of(v[0]))}
    if fam == "zero":
        hs = _hists_for("Float")
        return {"fam": "scalar", "val": ["Float", "f:%016x" % gen.f2b(0.0)], "val2": ["Float", "f:%016x" % gen.f2b(-0.0)],
                "hist": [draw(st.sampled_from(hs)), draw(st.sampled_from(hs))], "other": ["Float", "f:%016x" % gen.f2b(1.5)]}
    if fam == "seq":
        et = draw(st.sampled_from(["Int", "String", "Float", "Blob20"]))
        ev = {"Blob20": st.one_of(st.sampled_from([bytes(20), b"\xff" * 20]), st.binary(min_size=20, max_size=20)).map(lambda b: "b20:" + b.hex()),
              "Int": st.one_of(st.integers(-3, 3), gen.ints()).map(lambda v: "i:%d" % v),
              "String": gen.cbytes(5).map(lambda b: "s:" + b.hex()),
              "Float": st.one_of(st.sampled_from([0.0, -0.0, 1.0, -1.5]), gen.finite_floats()).map(lambda x: "f:%016x" % gen.f2b(x))}[et]
        items = draw(st.one_of(st.lists(ev, max_size=8), st.lists(ev, max_size=8), st.lists(ev, max_size=8), st.lists(ev, min_size=9, max_size=30)))
        builds = []
        for _ in range(2):
            kind = draw(st.sampled_from(["Array", "List", "Tuple"]))
            b = {"kind": kind, "how": draw(st.sampled_from(hist_lib.TUP_HOWS if kind == "Tuple" else hist_lib.SEQ_HOWS)),
                 "extra": draw(st.lists(ev, min_size=1, max_size=3))}
            if et == "Float" and draw(st.booleans()):
                b["zflip"] = True
            builds.append(b)
        return {"fam": fam, "et": et, "items": items, "builds": builds}
    if fam == "map":
        kt, vt = draw(st.sampled_from([("Int", "Int"), ("String", "Int"), ("Int", "String"), ("String", "String"), ("Int", "Blob"), ("String", "Blob"),
                                       ("Int", "Float"), ("Float", "Int"), ("Float", "Float")]))
        lo, hi = draw(st.sampled_from([(4, 12), (4, 12), (4, 12), (14, 30)]))
        uni = draw(_float_universe(lo, hi)) if kt == "Float" else draw(maps.universe(kt, lo, hi))
        nk = draw(st.integers(0, len(uni) - 2))
        keys = uni[:nk]
        extra_keys = uni[nk:]
        if vt == "Float":
            vals = [draw(st.sampled_from([0.0, -0.0, 1.0, -2.5, 1e300]).map(lambda x: "f:%016x" % gen.f2b(x))) for _ in keys]
        else:
            vals = [draw(maps.values(vt)) for _ in keys]
        builds = []
        for _ in range(2):
            b = {"kind": draw(st.sampled_from(["Table", "Table", "Tree"])),
                 "order": draw(st.permutations(list(range(nk)))),
                 "detour": draw(st.lists(st.integers(0, len(extra_keys) - 1), max_size=3)),
                 "detour_at": draw(st.integers(0, 1000)),
                 "reserve": draw(st.sampled_from([0, 0, 7, 30])),
                 "via": draw(st.sampled_from(["direct", "direct", "copy", "assign", "assign_x", "assign_retype"]))}
            if draw(st.integers(0, 3)) == 0:
                b["prefill"] = True
            if "Float" in (kt, vt) and draw(st.booleans()):
                b["zflip"] = True
            builds.append(b)
        return {"fam": fam, "kt": kt, "vt": vt, "keys": keys, "vals": vals, "extra": extra_keys, "builds": builds}
    if fam == "hash_data":
        n = draw(st.one_of(st.integers(0, 64), st.integers(0, 64), st.integers(65, 600)))
        return {"fam": fam, "data": draw(st.binary(min_size=n, max_size=n)).hex(), "off": draw(st.integers(0, 7))}
    # swap
    if draw(st.booleans()):
        et = draw(st.sampled_from(["Int", "Int", "String"]))
        el = st.integers(-5, 5) if et == "Int" else st.sampled_from(["", "61", "6162", "80ff", "7a" * 9])
        return {"fam": "swap", "cont": True, "et": et, "items": [draw(st.lists(el, max_size=5)), draw(st.lists(el, max_size=5))],
                "ck": draw(st.sampled_from(["Array", "List", "Table", "Tree", "Tuple", "Array", "List", "Tuple"])),
                "use": draw(st.booleans())}
    kind = draw(st.sampled_from(["Int", "Float", "String", "String", "Blob", "Blob3", "Blob20", "Blob75"]))
    a = draw(_scalar_of(kind))
    b = draw(_scalar_of(kind))
    c1 = draw(st.sampled_from(_SWAP_CLS))
    if c1.startswith("same_"):
        c2 = c1
    elif kind == "String":
        # Strings: both own a heap buffer (heap object / embedded element) or both are stack temporaries
        c2 = "stack" if c1 == "stack" else draw(st.sampled_from(["heap", "arr", "lst", "tabv"]))
    else:
        c2 = draw(st.sampled_from(["heap", "stack", "arr", "lst", "tabv", c1, c1]))
    return {"fam": "swap", "cont": False, "a": a, "b": b, "cls2": [c1, c2]}


def strategy(tier):
    return st.tuples(_case(), st.sampled_from(["asan", "asan", "plain"])).map(lambda t: dict(t[0], cfg=t[1]))


_DEF = {"Int": "i:7", "Float": "f:3ff0000000000000", "String": "s:7a7a7a7a7a", "Blob": "b:" + "11" * 16,
        "Blob3": "b3:" + "11" * 3, "Blob20": "b20:" + "11" * 20, "Blob75": "b75:" + "11" * 75}


def materialise(P, slot, aux, val, hist, other):
    """put an object holding `val` into slot via the given history; aux..aux+2 are scratch slots"""
    tn, lit = val
    ok = lambda what: (lambda o: None if o.startswith("ok") else what + " failed: " + o)
    if tn == "Type" and hist == "dyn":
        # a second, run-time created type object carrying the same name
        P.add("new %%%d heap t:Type s:%s i:8" % (slot, lit[2:].encode().hex()))
    elif tn == "Type" or hist == "stack":
        P.add("tmp %%%d %s" % (slot, lit))
    elif hist == "heap":
        P.add("new %%%d heap t:%s %s" % (slot, tn, lit))
    elif hist in ("arr", "lst"):
        P.add("new %%%d heap t:%s t:%s %s %s" % (aux, "Array" if hist == "arr" else "List", tn, _DEF[tn], lit))
        P.add("get %%%d i:1 %%%d" % (aux, slot))
    elif hist in ("tabk", "treek"):
        P.add("new %%%d heap t:%s t:%s t:Int" % (aux, "Table" if hist == "tabk" else "Tree", tn))
        P.add("set %%%d %s i:1" % (aux, lit))
        P.add("findkey %%%d %s %%%d" % (aux, lit, slot), expect_ok("found"))
    elif hist in ("tabv", "treev"):
        P.add("new %%%d heap t:%s t:Int t:%s" % (aux, "Table" if hist == "tabv" else "Tree", tn))
        P.add("set %%%d i:1 %s" % (aux, lit))
        P.add("get %%%d i:1 %%%d" % (aux, slot))
    elif hist == "copy":
        P.add("tmp %%%d %s" % (aux, lit))
        P.add("copy %%%d %%%d" % (slot, aux), ok("copy"))
    elif hist == "assign":
        olit = other[1] if other[0] == tn else _DEF[tn]
        P.add("new %%%d heap t:%s %s" % (slot, tn, olit))
        P.add("assign %%%d %s" % (slot, lit), ok("assign"))
    elif hist == "assign_embed":
        # assignment in place onto an element that lives inside a container
        olit = other[1] if other[0] == tn else _DEF[tn]
        P.add("new %%%d heap t:%s t:%s %s %s %s" % (aux, "Array" if slot % 2 == 0 else "List", tn, _DEF[tn], olit, _DEF[tn]))
        P.add("get %%%d i:1 %%%d" % (aux, slot))
        P.add("assign %%%d %s" % (slot, lit), ok("assign"))
    elif hist == "assign_stack":
        olit = other[1] if other[0] == tn else _DEF[tn]
        P.add("tmp %%%d %s" % (slot, olit))
        P.add("assign %%%d %s" % (slot, lit), ok("assign"))
    elif hist in ("str_concat", "str_reserve", "str_trunc"):
        b = bytes.fromhex(lit[2:])
        if hist == "str_concat":
            P.add("new %%%d heap t:String s:%s" % (slot, b[:len(b) // 2].hex()))
            P.add("concat %%%d s:%s" % (slot, b[len(b) // 2:].hex()))
        elif hist == "str_reserve":
            P.add("new %%%d heap t:String %s" % (slot, lit))
            P.add("resize %%%d %d" % (slot, len(b) + 17))
        else:
            P.add("new %%%d heap t:String s:%s" % (slot, (b + b"tail" + b[:3]).hex()))
            P.add("resize %%%d %d" % (slot, len(b)))
    else:
        raise HarnessBug(hist)


class Grab:
    """collects payloads of selected ops for cross-op comparisons"""

    def __init__(self):
        self.v = {}

    def want(self, name):
        def chk(o):
            if not o.startswith("ok"):
                return "op failed: " + o
            self.v[name] = o[3:]
            return None
        return chk


def _norm_zero(tok):
    """dump token of -0.0 -> that of +0.0 (the two are one value)"""
    return "f0000000000000000" if tok == "f8000000000000000" else tok


def run_case(ctx, case):
    P = Prog()
    G = Grab()
    fam = case["fam"]
    nt = False
    ev = [fam]
    post = []          # deferred comparisons: callables -> message|None
    okc = lambda what: (lambda o: None if o.startswith("ok") else what + " failed: " + o)

    def eq_and_hash(a, b, tag, assert_eq=True):
        P.add("eq %%%d %%%d" % (a, b), G.want(tag + ".eq1"))
        P.add("eq %%%d %%%d" % (b, a), G.want(tag + ".eq2"))
        P.add("hash %%%d" % a, G.want(tag + ".ha"))
        P.add("hash %%%d" % b, G.want(tag + ".hb"))

        def chk():
            e1, e2, ha, hb = G.v.get(tag + ".eq1"), G.v.get(tag + ".eq2"), G.v.get(tag + ".ha"), G.v.get(tag + ".hb")
            if assert_eq and (e1 != "1" or e2 != "1"):
                return "%s: values equal by construction but eq gives %s/%s" % (tag, e1, e2)
            if e1 != e2:
                return "%s: eq not symmetric (%s/%s)" % (tag, e1, e2)
            if (assert_eq or e1 == "1") and ha != hb:
                return "%s: equal values hash differently (%s vs %s)" % (tag, ha, hb)
            return None
        post.append(chk)

    if fam == "hash_data":
        data = bytes.fromhex(case["data"])
        if data:
            P.add("hash_data %s %d" % (case["data"], case["off"]), expect_ok("%016x" % gen.murmur64a(data)))
        else:
            P.add("hash s:", expect_ok("%016x" % gen.murmur64a(b"")))
        nt = len(data) % 8 != 0 or case["off"] != 0
        ev.append("len%%8=%d" % (len(data) % 8))
    elif fam == "scalar":
        v1 = case["val"]
        v2 = case.get("val2", v1)
        materialise(P, 0, 10, v1, case["hist"][0], case["other"])
        materialise(P, 1, 14, v2, case["hist"][1], case["other"])
        eq_and_hash(0, 1, "pair", assert_eq=(v1[0] != "Type" or "dyn" not in case["hist"]))
        # copy / assign of the first value
        if v1[0] == "Type":
            # copying / assigning type objects is documented to raise ValueError
            from ..vm import expect_exc
            P.add("copy %2 %0", expect_exc("ValueError"))
        else:
            P.add("copy %2 %0", okc("copy"))
            eq_and_hash(0, 2, "copy")
        if v1[0] != "Type":
            olit = case["other"][1] if case["other"][0] == v1[0] else _DEF[v1[0]]
            P.add("new %%3 heap t:%s %s" % (v1[0], olit))
            P.add("assign %3 %0", okc("assign"))
            eq_and_hash(0, 3, "assign")
            # an unrelated value: eq => hash equal
            P.add("new %%4 heap t:%s %s" % (v1[0], olit))
            eq_and_hash(0, 4, "other", assert_eq=False)
        if v1[0] in ("Int", "String", "Float"):
            # Refs to the same target compare/hash equal, however the Ref was made (stack, heap, copy, assign over another Ref)
            P.add("tmp %5 r:%0")
            P.add("new %6 heap t:Ref %0")
            eq_and_hash(5, 6, "ref")
            P.add("copy %7 %6", okc("copy"))
            eq_and_hash(6, 7, "refcopy")
            P.add("new %8 heap t:Ref %1")
            P.add("assign %8 %5", okc("assign"))
            eq_and_hash(5, 8, "refassign")
        nt = case["hist"][0] != case["hist"][1] or v1 != v2 or v1[1] in ("i:%d" % -2**63, "s:", "f:%016x" % gen.f2b(0.0), "f:%016x" % gen.f2b(-0.0))
        ev.append("type=" + v1[0])
        ev += ["hist=" + h for h in case["hist"]]
    elif fam == "seq":
        et, items = case["et"], case["items"]
        tagc = {"Array": "A", "List": "L", "Tuple": "U"}
        pool = [20]

        def fresh():
            pool[0] += 1
            if pool[0] >= 250:
                raise HarnessBug("out of slots")
            return pool[0]
        for s_, b in ((0, case["builds"][0]), (1, case["builds"][1])):
            its = [_flip_zero(x) for x in items] if b.get("zflip") else list(items)
            lines = hist_lib.seq_lines(s_, b["kind"], et, its, b["how"], b["extra"], fresh)
            for l in lines:
                P.add(l, okc(l.split()[0]))
            P.add("repr %%%d" % s_, expect_ok("%s[%s]" % (tagc[b["kind"]], ",".join(lit_repr(x) for x in its))))
        eq_and_hash(0, 1, "pair")
        P.add("copy %2 %0", okc("copy"))
        eq_and_hash(0, 2, "copy")
        nt = case["builds"][0] != case["builds"][1] or not items
        ev += ["kind=" + b["kind"] for b in case["builds"]] + ["how=" + b["how"] for b in case["builds"]]
        if any(b.get("zflip") for b in case["builds"]) and any(x in ("f:0000000000000000", "f:8000000000000000") for x in items):
            ev.append("seq:zero-sign-differs")
        if len(items) >= 9:
            ev.append("seq:len>=9")
    elif fam == "map":
        kt, vt, keys, vals = case["kt"], case["vt"], case["keys"], case["vals"]
        dv = {"Int": "i:1", "String": "s:78", "Blob": "b:" + "5a" * 16, "Float": "f:4045000000000000"}[vt]
        okt = "String" if kt != "String" else "Int"
        ovt = "Blob" if vt != "Blob" else "Int"
        olit = {"String": "s:6b", "Int": "i:1", "Blob": "b:" + "a5" * 16}

        def mk(slot, b):
            via = b["via"]
            tgt = slot if via == "direct" else slot + 4
            kind = b["kind"] if via != "assign_x" else ("Tree" if b["kind"] == "Table" else "Table")
            z = (lambda x: _flip_zero(x)) if b.get("zflip") else (lambda x: x)
            P.add("new %%%d heap t:%s t:%s t:%s" % (tgt, kind, kt, vt))
            if b["reserve"] and kind == "Table":
                P.add("resize %%%d %d" % (tgt, b["reserve"] + len(keys)))
            if b.get("prefill"):
                # bindings that are wiped again before the real ones go in
                for d in sorted(set(b["detour"])) or [0]:
                    P.add("set %%%d %s %s" % (tgt, case["extra"][d], dv))
                for i in b["order"][:2]:
                    P.add("set %%%d %s %s" % (tgt, keys[i], dv))
                P.add("resize %%%d 0" % tgt)
            at = b["detour_at"] * (len(keys) + 1) // 1001
            for n_, i in enumerate(b["order"]):
                if n_ == at:
                    for d in b["detour"]:
                        P.add("set %%%d %s %s" % (tgt, case["extra"][d], vals[0] if vals else dv))
                P.add("set %%%d %s %s" % (tgt, z(keys[i]), z(vals[i])))
            if at >= len(keys):
                for d in b["detour"]:
                    P.add("set %%%d %s %s" % (tgt, case["extra"][d], dv))
            for d in sorted(set(b["detour"])):
                P.add("rem %%%d %s" % (tgt, case["extra"][d]))
            if via == "copy":
                P.add("copy %%%d %%%d" % (slot, tgt), okc("copy"))
            elif via in ("assign", "assign_x"):
                P.add("new %%%d heap t:%s t:%s t:%s" % (slot, b["kind"], kt, vt))
                if case["extra"]:
                    P.add("set %%%d %s %s" % (slot, case["extra"][0], dv))
                P.add("assign %%%d %%%d" % (slot, tgt), okc("assign"))
            elif via == "assign_retype":
                P.add("new %%%d heap t:%s t:%s t:%s" % (slot, b["kind"], okt, ovt))
                P.add("set %%%d %s %s" % (slot, olit[okt], olit[ovt]))
                P.add("assign %%%d %%%d" % (slot, tgt), okc("assign"))
        mk(0, case["builds"][0])
        mk(1, case["builds"][1])
        want = sorted((_norm_zero(lit_repr(k)), _norm_zero(lit_repr(v))) for k, v in zip(keys, vals))

        def norm_pairs(body):
            return [(_norm_zero(k), _norm_zero(v)) for k, v in maps.parse_pairs(body)]
        for s in (0, 1):
            def chk(o, s=s):
                if not o.startswith("ok {"):
                    return "iteration failed " + o
                pairs = norm_pairs(o[4:-1])
                G.v["order%d" % s] = [k for k, _ in pairs]
                if sorted(pairs) != want:
                    return "map %d holds %s, expected %s" % (s, sorted(pairs), want)
                return None
            P.add("fwdkv %%%d" % s, chk)
        kinds = [b["kind"] for b in case["builds"]]
        same_kind = kinds[0] == kinds[1]
        # equality across Table/Tree kinds is not claimed (different iteration orders by design)
        if same_kind:
            strict = kinds[0] == "Tree" or bool(case.get("strict_table_eq"))
            eq_and_hash(0, 1, "pair", assert_eq=strict)
            if not strict:
                def chk_tab():
                    if G.v.get("order0") == G.v.get("order1") and G.v.get("pair.eq1") != "1":
                        return "Tables with identical bindings and identical slot order compare unequal"
                    if G.v.get("pair.ha") != G.v.get("pair.hb"):
                        return "Tables with identical bindings hash differently"
                    if G.v.get("order0") != G.v.get("order1"):
                        ev.append("excluded:table-eq-different-slot-order")
                    return None
                post.append(chk_tab)
        else:
            P.add("hash %0", G.want("h0"))
            P.add("hash %1", G.want("h1"))
            post.append(lambda: None if G.v.get("h0") == G.v.get("h1") else "Table and Tree with identical bindings hash differently")
        # copy of the first
        P.add("copy %2 %0", okc("copy"))

        def chk2(o):
            if not o.startswith("ok {"):
                return "iteration failed " + o
            pairs = norm_pairs(o[4:-1])
            G.v["order2"] = [k for k, _ in pairs]
            return None if sorted(pairs) == want else "copy holds %s, expected %s" % (sorted(pairs), want)
        P.add("fwdkv %2", chk2)
        eq_and_hash(0, 2, "copy", assert_eq=(kinds[0] == "Tree"))
        if kinds[0] == "Table":
            def chk_cp():
                if G.v.get("order0") == G.v.get("order2") and G.v.get("copy.eq1") != "1":
                    return "copy of a Table with the same slot order compares unequal"
                if G.v.get("copy.ha") != G.v.get("copy.hb"):
                    return "copy of a Table hashes differently"
                if G.v.get("order0") != G.v.get("order2"):
                    ev.append("excluded:table-eq-different-slot-order")
                return None
            post.append(chk_cp)
        if keys and len(vals) >= 2 and vals[0] != vals[-1]:
            # the copy with ONE value replaced (same keys): whatever eq says about it and the original, eq implies equal
            # hashes (an eq that looks at keys only would call them equal while the hashes differ)
            P.add("set %%2 %s %s" % (keys[0], vals[-1] if vals[0] != vals[-1] else vals[0]), lambda o: None if o.startswith("ok") else "set failed " + o)
            eq_and_hash(0, 2, "one-value-changed", assert_eq=False)
            ev.append("map:one-value-changed")
        nt = case["builds"][0] != case["builds"][1] or not keys
        ev += ["kind=" + k for k in kinds] + ["via=" + b["via"] for b in case["builds"]]
        ev.append("map-types=%s,%s" % (kt, vt))
        if any(b.get("prefill") for b in case["builds"]):
            ev.append("map:prefill+clear")
        if any(b.get("zflip") for b in case["builds"]) and any(x in ("f:0000000000000000", "f:8000000000000000") for x in keys + vals):
            ev.append("map:zero-sign-differs")
        if len(keys) >= 11:
            ev.append("map:len>=11")
    elif fam == "swap":
        if case["cont"]:
            ck = case["ck"]
            et = case.get("et", "Int")
            use = case.get("use", False)
            enc = (lambda x: "i:%d" % x) if et == "Int" else (lambda x: "s:" + x)
            seen = {}
            ev.append("swap-" + ck)
            ev.append("swap-elem=" + et)
            if use:
                ev.append("swap:used-afterwards")
            if ck in ("Table", "Tree"):
                # maps: keys = the distinct items, value = position; the dump is whatever the container shows before
                # the swap (slot order travels with the value), plus len and get of every key afterwards
                for s_, its in ((0, case["items"][0]), (1, case["items"][1])):
                    P.add("new %%%d heap t:%s t:%s t:Int" % (s_, ck, et))
                    for j, x in enumerate(its):
                        P.add("set %%%d %s i:%d" % (s_, enc(x), j))
                P.add("repr %0", lambda o: seen.__setitem__("a", o))
                P.add("repr %1", lambda o: seen.__setitem__("b", o))
                P.add("hash %0", lambda o: seen.__setitem__("ha", o))
                P.add("hash %1", lambda o: seen.__setitem__("hb", o))
                P.add("swap %0 %1")
                P.add("repr %0", lambda o: None if o == seen.get("b") else "after swap the first %s shows %s, the second one showed %s before" % (ck, o, seen.get("b")))
                P.add("repr %1", lambda o: None if o == seen.get("a") else "after swap the second %s shows %s, the first one showed %s before" % (ck, o, seen.get("a")))
                P.add("hash %0", lambda o: None if o == seen.get("hb") else "after swap the first %s hashes to %s, the second one hashed to %s before" % (ck, o, seen.get("hb")))
                P.add("hash %1", lambda o: None if o == seen.get("ha") else "after swap the second %s hashes to %s, the first one hashed to %s before" % (ck, o, seen.get("ha")))
                nk = "i:77" if et == "Int" else "s:6e6577"
                for s_, its in ((0, case["items"][1]), (1, case["items"][0])):
                    last = {x: j for j, x in enumerate(its)}
                    P.add("len %%%d" % s_, expect_ok(str(len(last))))
                    for x, j in last.items():
                        P.add("get %%%d %s" % (s_, enc(x)), expect_ok("i%d" % j))
                    P.add("set %%%d %s i:1" % (s_, nk))
                    P.add("len %%%d" % s_, expect_ok(str(len(last) + (0 if (77 if et == "Int" else "6e6577") in last else 1))))
                P.add("del %0")
                P.add("del %1")
                fail, obs = P.run(ctx.executor(_exe(case)))
                return Result(fail, case["items"][0] != case["items"][1], ev, None)
            if ck == "Tuple":
                for s_, its in ((0, case["items"][0]), (1, case["items"][1])):
                    refs = []
                    for j, x in enumerate(its):
                        P.add("new %%%d heap t:%s %s" % (20 + 10 * s_ + j, et, enc(x)))
                        refs.append("%%%d" % (20 + 10 * s_ + j))
                    P.add("new %%%d heap t:Tuple %s" % (s_, " ".join(refs)))
            else:
                P.add("new %%0 heap t:%s t:%s %s" % (ck, et, " ".join(enc(x) for x in case["items"][0])))
                P.add("new %%1 heap t:%s t:%s %s" % (ck, et, " ".join(enc(x) for x in case["items"][1])))
            tag = {"Array": "A", "List": "L", "Tuple": "U"}[ck]
            rp = lambda its: "%s[%s]" % (tag, ",".join(lit_repr(enc(x)) for x in its))
            ra, rb = rp(case["items"][0]), rp(case["items"][1])
        else:
            a, b = case["a"], case["b"]
            if a[0] == "Type":
                return Result(None, False, ["swap-type-skipped"], None)
            cls = case["cls2"] if "cls2" in case else [case["cls"], case["cls"]]
            ev.append("swap-type=" + a[0])
            ev.append("swap-cls=" + "/".join(sorted(cls)))
            use = False
            cont_checks = []
            if cls[0].startswith("same_"):
                # the two values are neighbours inside one container (what a sort does)
                ckind = "Array" if cls[0] == "same_arr" else "List"
                P.add("new %%10 heap t:%s t:%s %s %s %s" % (ckind, a[0], a[1], _DEF[a[0]], b[1]))
                P.add("get %10 i:0 %0")
                P.add("get %10 i:2 %1")
                t_ = ckind[0]
                d_ = lit_repr(_DEF[a[0]])
                cont_checks = [("%s[%s,%s,%s]" % (t_, lit_repr(a[1]), d_, lit_repr(b[1]))), ("%s[%s,%s,%s]" % (t_, lit_repr(b[1]), d_, lit_repr(a[1])))]
            else:
                materialise(P, 0, 10, a, cls[0], a)
                materialise(P, 1, 14, b, cls[1], b)
            ra, rb = lit_repr(a[1]), lit_repr(b[1])
        seen = {}
        P.add("repr %0", expect_ok(ra))
        P.add("repr %1", expect_ok(rb))
        P.add("hash %0", lambda o: seen.__setitem__("ha", o))
        P.add("hash %1", lambda o: seen.__setitem__("hb", o))
        P.add("swap %0 %1")
        P.add("repr %0", expect_ok(rb))
        P.add("repr %1", expect_ok(ra))
        P.add("hash %0", lambda o: None if o == seen.get("hb") else "after swap the first value hashes to %s, the second one hashed to %s before" % (o, seen.get("hb")))
        P.add("hash %1", lambda o: None if o == seen.get("ha") else "after swap the second value hashes to %s, the first one hashed to %s before" % (o, seen.get("ha")))
        if not case["cont"] and cont_checks:
            P.add("repr %10", expect_ok(cont_checks[1]))
        P.add("swap %1 %0")
        P.add("repr %0", expect_ok(ra))
        P.add("repr %1", expect_ok(rb))
        if not case["cont"] and cont_checks:
            P.add("repr %10", expect_ok(cont_checks[0]))
        if case["cont"] and use:
            # the swapped containers stay fully usable: one more swap, grow both, dump, delete both
            P.add("swap %0 %1")
            if ck == "Tuple":
                P.add("new %%60 heap t:%s %s" % (et, enc(9 if et == "Int" else "6e6577")))
                nl = "%60"
            else:
                nl = enc(9 if et == "Int" else "6e6577")
            P.add("push %%0 %s" % nl)
            P.add("push %%1 %s" % nl)
            P.add("repr %0", expect_ok(rp(case["items"][1] + [9 if et == "Int" else "6e6577"])))
            P.add("repr %1", expect_ok(rp(case["items"][0] + [9 if et == "Int" else "6e6577"])))
            P.add("del %0")
            P.add("del %1")
        nt = ra != rb
    elif fam == "view":
        # NOT generated (see ASSUMPTIONS): Range / Slice have Cmp but no Hash, and copy() of them raises.  Kept so that the
        # candidate defect can be replayed: ./check C10 --replay <case with fam=view>
        a = " ".join("i:%d" % x for x in case["args"])
        if case["kind"] == "Range":
            P.add("new %%0 heap t:Range %s" % a)
            P.add("stk %%1 range %s" % a)
        else:
            P.add("new %9 heap t:Array t:Int i:1 i:2 i:3 i:4")
            P.add("new %%0 heap t:Slice %%9 %s" % a)
            P.add("stk %%1 slice %%9 %s" % a)
        eq_and_hash(0, 1, "pair")
        if case.get("copy"):
            P.add("copy %2 %0", okc("copy"))
            eq_and_hash(0, 2, "copy")
        nt = True
        ev.append("view=" + case["kind"])
    else:
        raise HarnessBug(fam)
    fail, obs = P.run(ctx.executor(_exe(case)))
    if not fail:
        for chk in post:
            m = chk()
            if m:
                fail = m
                break
    return Result(fail, nt, ev, None)


# One bounded reproduction of the known finding: the same bindings inserted in two orders with colliding keys give
# two Tables whose slot order differs; Table_Cmp walks slot order, so eq() is false.  (strict_table_eq switches the
# exclusion off for this one case only.)
KNOWN = [{"key": "table-cmp-slot-order",
          "what": "Table_Cmp compares in slot order: equal bindings inserted in different orders (colliding keys) are not eq",
          "case": {"fam": "map", "kt": "Int", "vt": "Int", "keys": ["i:5", "i:10"], "vals": ["i:1", "i:2"], "extra": ["i:99"],
                   "strict_table_eq": True,
                   "builds": [{"kind": "Table", "order": [0, 1], "detour": [], "detour_at": 0, "reserve": 0, "via": "direct"},
                              {"kind": "Table", "order": [1, 0], "detour": [], "detour_at": 0, "reserve": 0, "via": "direct"}]}}]
