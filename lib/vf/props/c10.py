"""C10 - equal values hash equally; copy and assign produce equal values; swap exchanges."""
from hypothesis import strategies as st
from .. import build, gen
from ..core import Result, HarnessBug
from ..vm import Prog, expect_ok, lit_repr
from . import maps

ID = "C10"
LEVEL = "exploration"
BUDGET = {"quick": 3000, "thorough": 900000}
RULE = ("case families: (scalar) one Int/Float/String/Type/plain-struct/Ref value materialised through two generated "
        "histories out of {heap new, stack, embedded in Array/List, Table key/value, Tree key/value, copy, assign over a "
        "pre-used object}; (seq) one element list built as Array/List/Tuple through direct construction, pushes, detours "
        "(extra pushes + removals), reserves, copy, assign; (map) one binding set built as Table/Tree in two insertion "
        "orders with detours (extra keys inserted and removed), reserves, copy, assign, keys from collision families; "
        "(hash_data) byte strings of length 0..64+ at alignment offsets 0..7 against an independent MurmurHash64A; (swap) two "
        "values of one family. Oracle: values equal by construction are eq (both directions) and have equal hash; eq => "
        "equal hash on every compared pair; copy/assign results are eq and hash the same; swap exchanges the dumps. "
        "non-trivial = the two histories differ (allocation class, insertion order, detour, kind) or the value is a corner "
        "value (+-0.0, empty container/string, INT64_MIN). distinct = distinct case JSON.")
ASSUMPTIONS = ["independent Python MurmurHash64A (seed 0xCe110) is the reference for hash_data",
               "Table eq is asserted only when both tables iterate in the same slot order (known finding table-cmp-slot-order); hash and bindings are always compared",
               "NaN excluded; Box (owning pointer) not generated as a compared value"]

HISTS = ["heap", "stack", "arr", "lst", "tabk", "tabv", "treek", "treev", "copy", "assign"]


def prepare(tier):
    return {"ex_vm": build.executor("asan", "ex_vm")}


def _scalar():
    return st.one_of(
        gen.ints().map(lambda v: ["Int", "i:%d" % v]),
        st.sampled_from([0, -2**63, 2**63 - 1]).map(lambda v: ["Int", "i:%d" % v]),
        gen.floats().map(lambda x: ["Float", "f:%016x" % gen.f2b(x)]),
        st.sampled_from([0.0, -0.0]).map(lambda x: ["Float", "f:%016x" % gen.f2b(x)]),
        gen.cbytes(20).map(lambda b: ["String", "s:" + b.hex()]),
        st.binary(min_size=16, max_size=16).map(lambda b: ["Blob", "b:" + b.hex()]),
        st.sampled_from(["Int", "String", "Array", "Table", "KeyError", "Cmp"]).map(lambda n: ["Type", "t:" + n]),
    )


@st.composite
def _case(draw):
    fam = draw(st.sampled_from(["scalar", "scalar", "seq", "seq", "map", "map", "hash_data", "swap", "zero"]))
    if fam == "scalar":
        v = draw(_scalar())
        hs = HISTS if v[0] not in ("Type",) else ["stack"]
        if v[0] == "Blob":
            hs = ["heap", "stack", "arr", "lst", "copy", "assign", "tabv", "treev"]
        return {"fam": fam, "val": v, "hist": [draw(st.sampled_from(hs)), draw(st.sampled_from(hs))],
                "other": draw(_scalar())}
    if fam == "zero":
        return {"fam": "scalar", "val": ["Float", "f:%016x" % gen.f2b(0.0)], "val2": ["Float", "f:%016x" % gen.f2b(-0.0)],
                "hist": [draw(st.sampled_from(HISTS)), draw(st.sampled_from(HISTS))], "other": ["Float", "f:%016x" % gen.f2b(1.5)]}
    if fam == "seq":
        et = draw(st.sampled_from(["Int", "String", "Float"]))
        ev = {"Int": st.one_of(st.integers(-3, 3), gen.ints()).map(lambda v: "i:%d" % v),
              "String": gen.cbytes(5).map(lambda b: "s:" + b.hex()),
              "Float": st.one_of(st.sampled_from([0.0, 1.0, -1.5]), gen.finite_floats()).map(lambda x: "f:%016x" % gen.f2b(x))}[et]
        items = draw(st.lists(ev, max_size=8))
        builds = []
        for _ in range(2):
            builds.append({"kind": draw(st.sampled_from(["Array", "List", "Tuple"])),
                           "how": draw(st.sampled_from(["direct", "push", "detour", "reserve", "copy", "assign"])),
                           "extra": draw(st.lists(ev, min_size=1, max_size=3))})
        return {"fam": fam, "et": et, "items": items, "builds": builds}
    if fam == "map":
        kt, vt = draw(st.sampled_from([("Int", "Int"), ("String", "Int"), ("Int", "String"), ("String", "String"), ("Int", "Blob"), ("String", "Blob")]))
        uni = draw(maps.universe(kt, 4, 12))
        nk = draw(st.integers(0, len(uni) - 2))
        keys = uni[:nk]
        extra_keys = uni[nk:]
        vals = [draw(maps.values(vt)) for _ in keys]
        builds = []
        for _ in range(2):
            builds.append({"kind": draw(st.sampled_from(["Table", "Table", "Tree"])),
                           "order": draw(st.permutations(list(range(nk)))),
                           "detour": draw(st.lists(st.integers(0, len(extra_keys) - 1), max_size=3)),
                           "detour_at": draw(st.integers(0, 1000)),
                           "reserve": draw(st.sampled_from([0, 0, 7, 30])),
                           "via": draw(st.sampled_from(["direct", "copy", "assign"]))})
        return {"fam": fam, "kt": kt, "vt": vt, "keys": keys, "vals": vals, "extra": extra_keys, "builds": builds}
    if fam == "hash_data":
        n = draw(st.one_of(st.integers(0, 64), st.integers(0, 64), st.integers(65, 600)))
        return {"fam": fam, "data": draw(st.binary(min_size=n, max_size=n)).hex(), "off": draw(st.integers(0, 7))}
    # swap
    a = draw(_scalar())
    kind = a[0]
    b = draw(_scalar().filter(lambda v: v[0] == kind))
    return {"fam": "swap", "a": a, "b": b, "cls": draw(st.sampled_from(["heap", "stack", "arr"])),
            "cont": draw(st.booleans()), "items": [draw(st.lists(st.integers(-5, 5), max_size=5)), draw(st.lists(st.integers(-5, 5), max_size=5))],
            "ck": draw(st.sampled_from(["Array", "List", "Table", "Tree", "Tuple", "Table", "Tree"]))}


def strategy(tier):
    return _case()


_DEF = {"Int": "i:7", "Float": "f:3ff0000000000000", "String": "s:7a7a7a7a7a", "Blob": "b:" + "11" * 16}


def materialise(P, slot, aux, val, hist, other):
    """put an object holding `val` into slot via the given history; aux..aux+2 are scratch slots"""
    tn, lit = val
    if tn == "Type" or hist == "stack":
        P.add("tmp %%%d %s" % (slot, lit))
    elif hist == "heap":
        P.add("new %%%d heap t:%s %s" % (slot, tn, lit))
    elif hist in ("arr", "lst"):
        P.add("new %%%d heap t:%s t:%s %s %s" % (aux, "Array" if hist == "arr" else "List", tn, _DEF[tn], lit))
        P.add("get %%%d i:1 %%%d" % (aux, slot))
    elif hist in ("tabk", "treek"):
        P.add("new %%%d heap t:%s t:%s t:Int" % (aux, "Table" if hist == "tabk" else "Tree", tn))
        P.add("set %%%d %s i:1" % (aux, lit))
        P.add("findkey %%%d %s %%%d" % (aux, lit, slot), expect_ok("found"))
    elif hist in ("tabv", "treev"):
        P.add("new %%%d heap t:%s t:Int t:%s" % (aux, "Table" if hist == "tabv" else "Tree", tn))
        P.add("set %%%d i:1 %s" % (aux, lit))
        P.add("get %%%d i:1 %%%d" % (aux, slot))
    elif hist == "copy":
        P.add("tmp %%%d %s" % (aux, lit))
        P.add("copy %%%d %%%d" % (slot, aux), lambda o: None if o.startswith("ok") else "copy failed: " + o)
    elif hist == "assign":
        olit = other[1] if other[0] == tn else _DEF[tn]
        P.add("new %%%d heap t:%s %s" % (slot, tn, olit))
        P.add("assign %%%d %s" % (slot, lit), lambda o: None if o.startswith("ok") else "assign failed: " + o)
    else:
        raise HarnessBug(hist)


class Grab:
    """collects payloads of selected ops for cross-op comparisons"""

    def __init__(self):
        self.v = {}

    def want(self, name):
        def chk(o):
            if not o.startswith("ok"):
                return "op failed: " + o
            self.v[name] = o[3:]
            return None
        return chk


def run_case(ctx, case):
    P = Prog()
    G = Grab()
    fam = case["fam"]
    nt = False
    ev = [fam]
    post = []          # deferred comparisons: callables -> message|None

    def eq_and_hash(a, b, tag, assert_eq=True):
        P.add("eq %%%d %%%d" % (a, b), G.want(tag + ".eq1"))
        P.add("eq %%%d %%%d" % (b, a), G.want(tag + ".eq2"))
        P.add("hash %%%d" % a, G.want(tag + ".ha"))
        P.add("hash %%%d" % b, G.want(tag + ".hb"))

        def chk():
            e1, e2, ha, hb = G.v.get(tag + ".eq1"), G.v.get(tag + ".eq2"), G.v.get(tag + ".ha"), G.v.get(tag + ".hb")
            if assert_eq and (e1 != "1" or e2 != "1"):
                return "%s: values equal by construction but eq gives %s/%s" % (tag, e1, e2)
            if e1 != e2:
                return "%s: eq not symmetric (%s/%s)" % (tag, e1, e2)
            if (assert_eq or e1 == "1") and ha != hb:
                return "%s: equal values hash differently (%s vs %s)" % (tag, ha, hb)
            return None
        post.append(chk)

    if fam == "hash_data":
        data = bytes.fromhex(case["data"])
        if data:
            P.add("hash_data %s %d" % (case["data"], case["off"]), expect_ok("%016x" % gen.murmur64a(data)))
        else:
            P.add("hash s:", expect_ok("%016x" % gen.murmur64a(b"")))
        nt = len(data) % 8 != 0 or case["off"] != 0
        ev.append("len%%8=%d" % (len(data) % 8))
    elif fam == "scalar":
        v1 = case["val"]
        v2 = case.get("val2", v1)
        materialise(P, 0, 10, v1, case["hist"][0], case["other"])
        materialise(P, 1, 14, v2, case["hist"][1], case["other"])
        eq_and_hash(0, 1, "pair")
        # copy / assign of the first value
        if v1[0] == "Type":
            # copying / assigning type objects is documented to raise ValueError
            from ..vm import expect_exc
            P.add("copy %2 %0", expect_exc("ValueError"))
        else:
            P.add("copy %2 %0", lambda o: None if o.startswith("ok") else "copy failed: " + o)
            eq_and_hash(0, 2, "copy")
        if v1[0] != "Type":
            olit = case["other"][1] if case["other"][0] == v1[0] else _DEF[v1[0]]
            P.add("new %%3 heap t:%s %s" % (v1[0], olit))
            P.add("assign %3 %0", lambda o: None if o.startswith("ok") else "assign failed: " + o)
            eq_and_hash(0, 3, "assign")
            # an unrelated value: eq => hash equal
            P.add("new %%4 heap t:%s %s" % (v1[0], olit))
            eq_and_hash(0, 4, "other", assert_eq=False)
        if v1[0] in ("Int", "String", "Float"):
            # Ref to the same target compare/hash equal
            P.add("tmp %5 r:%0")
            P.add("new %6 heap t:Ref %0")
            eq_and_hash(5, 6, "ref")
        nt = case["hist"][0] != case["hist"][1] or v1 != v2 or v1[1] in ("i:%d" % -2**63, "s:", "f:%016x" % gen.f2b(0.0), "f:%016x" % gen.f2b(-0.0))
        ev.append("type=" + v1[0])
        ev += ["hist=" + h for h in case["hist"]]
    elif fam == "seq":
        et, items = case["et"], case["items"]
        tagc = {"Array": "A", "List": "L", "Tuple": "U"}
        pool = [20]

        def mk(slot, b):
            kind, how = b["kind"], b["how"]
            if kind == "Tuple":
                refs = []
                for it in items:
                    pool[0] += 1
                    P.add("new %%%d heap t:%s %s" % (pool[0], et, it))
                    refs.append("%%%d" % pool[0])
                if how in ("direct", "reserve"):
                    P.add("new %%%d heap t:Tuple %s" % (slot, " ".join(refs)))
                elif how in ("push", "detour"):
                    P.add("new %%%d heap t:Tuple" % slot)
                    for r in refs:
                        P.add("push %%%d %s" % (slot, r))
                    if how == "detour":
                        pool[0] += 1
                        P.add("new %%%d heap t:%s %s" % (pool[0], et, b["extra"][0]))
                        P.add("push %%%d %%%d" % (slot, pool[0]))
                        P.add("pop %%%d" % slot)
                else:
                    P.add("new %%%d heap t:Tuple %s" % (slot + 4, " ".join(refs)))
                    if how == "copy":
                        P.add("copy %%%d %%%d" % (slot, slot + 4), lambda o: None if o.startswith("ok") else "copy failed: " + o)
                    else:
                        P.add("new %%%d heap t:Tuple" % slot)
                        P.add("assign %%%d %%%d" % (slot, slot + 4), lambda o: None if o.startswith("ok") else "assign failed: " + o)
                return
            if how == "direct":
                P.add("new %%%d heap t:%s t:%s %s" % (slot, kind, et, " ".join(items)))
            elif how in ("push", "detour", "reserve"):
                P.add("new %%%d heap t:%s t:%s" % (slot, kind, et))
                if how == "reserve" and kind == "Array":
                    P.add("resize %%%d %d" % (slot, len(items) + 9))
                for j, it in enumerate(items):
                    P.add("push %%%d %s" % (slot, it))
                    if how == "detour" and j == len(items) // 2:
                        for x in b["extra"]:
                            P.add("push %%%d %s" % (slot, x))
                        for x in b["extra"]:
                            P.add("pop %%%d" % slot)
                if how == "detour":
                    P.add("push_at %%%d %s i:0" % (slot, b["extra"][0]) if items else "push %%%d %s" % (slot, b["extra"][0]))
                    P.add("pop_at %%%d i:0" % slot)
            else:
                P.add("new %%%d heap t:%s t:%s %s" % (slot + 4, "List" if kind == "Array" else "Array", et, " ".join(items)))
                if how == "copy":
                    P.add("new %%%d heap t:%s t:%s %s" % (slot + 5, kind, et, " ".join(items)))
                    P.add("copy %%%d %%%d" % (slot, slot + 5), lambda o: None if o.startswith("ok") else "copy failed: " + o)
                else:
                    P.add("new %%%d heap t:%s t:%s %s" % (slot, kind, et, " ".join(b["extra"])))
                    P.add("assign %%%d %%%d" % (slot, slot + 4), lambda o: None if o.startswith("ok") else "assign failed: " + o)
        mk(0, case["builds"][0])
        mk(1, case["builds"][1])
        for s, b in ((0, case["builds"][0]), (1, case["builds"][1])):
            P.add("repr %%%d" % s, expect_ok("%s[%s]" % (tagc[b["kind"]], ",".join(lit_repr(x) for x in items))))
        eq_and_hash(0, 1, "pair")
        P.add("copy %2 %0", lambda o: None if o.startswith("ok") else "copy failed: " + o)
        eq_and_hash(0, 2, "copy")
        nt = case["builds"][0] != case["builds"][1] or not items
        ev += ["kind=" + b["kind"] for b in case["builds"]] + ["how=" + b["how"] for b in case["builds"]]
    elif fam == "map":
        kt, vt, keys, vals = case["kt"], case["vt"], case["keys"], case["vals"]

        def mk(slot, b):
            tgt = slot if b["via"] == "direct" else slot + 4
            P.add("new %%%d heap t:%s t:%s t:%s" % (tgt, b["kind"], kt, vt))
            if b["reserve"] and b["kind"] == "Table":
                P.add("resize %%%d %d" % (tgt, b["reserve"] + len(keys)))
            at = b["detour_at"] * (len(keys) + 1) // 1001
            for n_, i in enumerate(b["order"]):
                if n_ == at:
                    for d in b["detour"]:
                        P.add("set %%%d %s %s" % (tgt, case["extra"][d], vals[0] if vals else {"Int": "i:1", "String": "s:78", "Blob": "b:" + "5a" * 16}[vt]))
                P.add("set %%%d %s %s" % (tgt, keys[i], vals[i]))
            if at >= len(keys):
                for d in b["detour"]:
                    P.add("set %%%d %s %s" % (tgt, case["extra"][d], {"Int": "i:1", "String": "s:78", "Blob": "b:" + "5a" * 16}[vt]))
            for d in sorted(set(b["detour"])):
                P.add("rem %%%d %s" % (tgt, case["extra"][d]))
            if b["via"] == "copy":
                P.add("copy %%%d %%%d" % (slot, tgt), lambda o: None if o.startswith("ok") else "copy failed: " + o)
            elif b["via"] == "assign":
                P.add("new %%%d heap t:%s t:%s t:%s" % (slot, b["kind"], kt, vt))
                if case["extra"]:
                    P.add("set %%%d %s %s" % (slot, case["extra"][0], {"Int": "i:1", "String": "s:78", "Blob": "b:" + "5a" * 16}[vt]))
                P.add("assign %%%d %%%d" % (slot, tgt), lambda o: None if o.startswith("ok") else "assign failed: " + o)
        mk(0, case["builds"][0])
        mk(1, case["builds"][1])
        want = sorted((lit_repr(k), lit_repr(v)) for k, v in zip(keys, vals))
        for s in (0, 1):
            def chk(o, s=s):
                if not o.startswith("ok {"):
                    return "iteration failed " + o
                pairs = maps.parse_pairs(o[4:-1])
                G.v["order%d" % s] = [k for k, _ in pairs]
                if sorted(pairs) != want:
                    return "map %d holds %s, expected %s" % (s, sorted(pairs), want)
                return None
            P.add("fwdkv %%%d" % s, chk)
        kinds = [b["kind"] for b in case["builds"]]
        same_kind = kinds[0] == kinds[1]
        # equality across Table/Tree kinds is not claimed (different iteration orders by design)
        if same_kind:
            strict = kinds[0] == "Tree" or bool(case.get("strict_table_eq"))
            eq_and_hash(0, 1, "pair", assert_eq=strict)
            if not strict:
                def chk_tab():
                    if G.v.get("order0") == G.v.get("order1") and G.v.get("pair.eq1") != "1":
                        return "Tables with identical bindings and identical slot order compare unequal"
                    if G.v.get("pair.ha") != G.v.get("pair.hb"):
                        return "Tables with identical bindings hash differently"
                    if G.v.get("order0") != G.v.get("order1"):
                        ev.append("excluded:table-eq-different-slot-order")
                    return None
                post.append(chk_tab)
        else:
            P.add("hash %0", G.want("h0"))
            P.add("hash %1", G.want("h1"))
            post.append(lambda: None if G.v.get("h0") == G.v.get("h1") else "Table and Tree with identical bindings hash differently")
        # copy of the first
        P.add("copy %2 %0", lambda o: None if o.startswith("ok") else "copy failed: " + o)

        def chk2(o):
            if not o.startswith("ok {"):
                return "iteration failed " + o
            pairs = maps.parse_pairs(o[4:-1])
            G.v["order2"] = [k for k, _ in pairs]
            return None if sorted(pairs) == want else "copy holds %s, expected %s" % (sorted(pairs), want)
        P.add("fwdkv %2", chk2)
        eq_and_hash(0, 2, "copy", assert_eq=(kinds[0] == "Tree"))
        if kinds[0] == "Table":
            def chk_cp():
                if G.v.get("order0") == G.v.get("order2") and G.v.get("copy.eq1") != "1":
                    return "copy of a Table with the same slot order compares unequal"
                if G.v.get("copy.ha") != G.v.get("copy.hb"):
                    return "copy of a Table hashes differently"
                if G.v.get("order0") != G.v.get("order2"):
                    ev.append("excluded:table-eq-different-slot-order")
                return None
            post.append(chk_cp)
        nt = case["builds"][0] != case["builds"][1] or not keys
        ev += ["kind=" + k for k in kinds]
    elif fam == "swap":
        a, b = case["a"], case["b"]
        if case["cont"]:
            ck = case["ck"]
            seen = {}
            if ck in ("Table", "Tree"):
                # maps: keys = the distinct items, value = position; the dump is whatever the container shows before
                # the swap (slot order travels with the value), plus len and get of every key afterwards
                for s_, its in ((0, case["items"][0]), (1, case["items"][1])):
                    P.add("new %%%d heap t:%s t:Int t:Int" % (s_, ck))
                    for j, x in enumerate(its):
                        P.add("set %%%d i:%d i:%d" % (s_, x, j))
                P.add("repr %0", lambda o: seen.__setitem__("a", o))
                P.add("repr %1", lambda o: seen.__setitem__("b", o))
                P.add("swap %0 %1")
                P.add("repr %0", lambda o: None if o == seen.get("b") else "after swap the first %s shows %s, the second one showed %s before" % (ck, o, seen.get("b")))
                P.add("repr %1", lambda o: None if o == seen.get("a") else "after swap the second %s shows %s, the first one showed %s before" % (ck, o, seen.get("a")))
                for s_, its in ((0, case["items"][1]), (1, case["items"][0])):
                    last = {x: j for j, x in enumerate(its)}
                    P.add("len %%%d" % s_, expect_ok(str(len(last))))
                    for x, j in last.items():
                        P.add("get %%%d i:%d" % (s_, x), expect_ok("i%d" % j))
                    P.add("set %%%d i:77 i:1" % s_)
                    P.add("len %%%d" % s_, expect_ok(str(len(last) + (0 if 77 in last else 1))))
                P.add("del %0")
                P.add("del %1")
                fail, obs = P.run(ctx.executor("ex_vm"))
                return Result(fail, case["items"][0] != case["items"][1], ev + ["swap-" + ck], None)
            if ck == "Tuple":
                for s_, its in ((0, case["items"][0]), (1, case["items"][1])):
                    refs = []
                    for j, x in enumerate(its):
                        P.add("new %%%d heap t:Int i:%d" % (20 + 10 * s_ + j, x))
                        refs.append("%%%d" % (20 + 10 * s_ + j))
                    P.add("new %%%d heap t:Tuple %s" % (s_, " ".join(refs)))
            else:
                P.add("new %%0 heap t:%s t:Int %s" % (ck, " ".join("i:%d" % x for x in case["items"][0])))
                P.add("new %%1 heap t:%s t:Int %s" % (ck, " ".join("i:%d" % x for x in case["items"][1])))
            tag = {"Array": "A", "List": "L", "Tuple": "U"}[ck]
            ra = "%s[%s]" % (tag, ",".join("i%d" % x for x in case["items"][0]))
            rb = "%s[%s]" % (tag, ",".join("i%d" % x for x in case["items"][1]))
            ev.append("swap-" + ck)
        else:
            cls = case["cls"] if a[0] != "Type" else "stack"
            if a[0] == "Type":
                return Result(None, False, ["swap-type-skipped"], None)
            materialise(P, 0, 10, a, cls, a)
            materialise(P, 1, 14, b, cls, b)
            ra, rb = lit_repr(a[1]), lit_repr(b[1])
        P.add("repr %0", expect_ok(ra))
        P.add("repr %1", expect_ok(rb))
        P.add("swap %0 %1")
        P.add("repr %0", expect_ok(rb))
        P.add("repr %1", expect_ok(ra))
        P.add("swap %1 %0")
        P.add("repr %0", expect_ok(ra))
        P.add("repr %1", expect_ok(rb))
        nt = ra != rb
    else:
        raise HarnessBug(fam)
    fail, obs = P.run(ctx.executor("ex_vm"))
    if not fail:
        for chk in post:
            m = chk()
            if m:
                fail = m
                break
    return Result(fail, nt, ev, None)


# One bounded reproduction of the known finding: the same bindings inserted in two orders with colliding keys give
# two Tables whose slot order differs; Table_Cmp walks slot order, so eq() is false.  (strict_table_eq switches the
# exclusion off for this one case only.)
KNOWN = [{"key": "table-cmp-slot-order",
          "what": "Table_Cmp compares in slot order: equal bindings inserted in different orders (colliding keys) are not eq",
          "case": {"fam": "map", "kt": "Int", "vt": "Int", "keys": ["i:5", "i:10"], "vals": ["i:1", "i:2"], "extra": ["i:99"],
                   "strict_table_eq": True,
                   "builds": [{"kind": "Table", "order": [0, 1], "detour": [], "detour_at": 0, "reserve": 0, "via": "direct"},
                              {"kind": "Table", "order": [1, 0], "detour": [], "detour_at": 0, "reserve": 0, "via": "direct"}]}}]
