"""Shared generator + list model for Array / List / Tuple op sequences (C04, reused by C05/C18)."""
from hypothesis import strategies as st
from ..vm import Prog, lit_repr, expect_ok, expect_exc
from ..core import HarnessBug

POOL0 = 100          # tuple element objects live in slots POOL0 .. POOL0+NPOOL-1
NPOOL = 120


# element types: Int and String are 8 bytes wide, Blob is a 16-byte and Tri a 3-byte plain struct (default byte-wise
# assign / cmp), Probe (C05) a 24-byte type with constructor and destructor
_BLOBS = ["00" * 16, "01" + "00" * 15, "00" * 15 + "01", "ff" * 16, "00" * 8 + "ff" * 8, "0102030405060708090a0b0c0d0e0f10", "7f" + "00" * 14 + "80"]
_TRIS = ["000000", "000001", "010000", "ffffff", "00ff00", "616263", "7f0080"]
# 20 bytes: larger than a machine word and not a multiple of it (a word-wise copy or swap leaves a tail)
_B20S = ["00" * 20, "00" * 19 + "01", "01" + "00" * 19, "ff" * 20, "00" * 16 + "01020304", "00" * 8 + "ff" * 12, "0102030405060708090a0b0c0d0e0f1011121314"]
ZERO = {"Int": "i:0", "Blob": "b:" + "00" * 16, "Tri": "c:000000", "Blob20": "b20:" + "00" * 20}            # what a zero-filled element reads as
SENT1 = {"Int": "i:9", "String": "s:39", "Probe": "p:9", "Blob": "b:" + "39" * 16, "Tri": "c:393939", "Blob20": "b20:" + "39" * 20}
SENT2 = {"Int": "i:77", "String": "s:7777", "Probe": "p:77", "Blob": "b:" + "77" * 16, "Tri": "c:777777", "Blob20": "b20:" + "77" * 20}
UNIVERSE = {
    "Int": ["i:%d" % v for v in (-3, -2, -1, 0, 1, 2, 3, 2**31, -2**63, 2**63 - 1, 1000, 12345)],
    "String": ["s:" + b.hex() for b in (b"", b"a", b"b", b"ab", b"abc", b"\x80", b"zz", b"a b", b"zzz")],
    "Probe": ["p:%d" % v for v in (0, 1, 2, 3, 4, 5, 6, 99)],
    "Blob": ["b:" + h for h in _BLOBS] + ["b:" + "42" * 16],
    "Tri": ["c:" + h for h in _TRIS] + ["c:424242"],
    "Blob20": ["b20:" + h for h in _B20S] + ["b20:" + "42" * 20],
}


def elem_values(et):
    if et == "Int":
        return st.one_of(st.integers(-3, 3), st.integers(-3, 3), st.sampled_from([2**31, -2**63, 2**63 - 1, 1000])).map(lambda v: "i:%d" % v)
    if et == "String":
        return st.sampled_from([b"", b"a", b"b", b"ab", b"abc", b"\x80", b"zz", b"a b"]).map(lambda b: "s:" + b.hex())
    if et == "Probe":
        return st.integers(0, 6).map(lambda v: "p:%d" % v)
    if et == "Blob":
        return st.sampled_from(_BLOBS).map(lambda h: "b:" + h)
    if et == "Tri":
        return st.sampled_from(_TRIS).map(lambda h: "c:" + h)
    if et == "Blob20":
        return st.sampled_from(_B20S).map(lambda h: "b20:" + h)
    raise HarnessBug(et)


def val_order(lit):
    if lit[0] in "ip":
        return int(lit[2:])
    return bytes.fromhex(lit.split(":", 1)[1])


@st.composite
def seq_case(draw, kinds=("Array", "List", "Tuple"), ets=("Int", "String"), max_ops=60, ext=False):
    """ext=True (C04, C11) adds: element types Blob (16 bytes) and Tri (3 bytes), a constructor with initial elements,
    plain sort, push_at with i == len (also on an empty container), large concat / assign sources, assign from a Range"""
    kind = draw(st.sampled_from(kinds))
    if ext and tuple(ets) == ("Int", "String"):
        ets = ("Int", "String", "Int", "String", "Blob", "Tri", "Blob20")
    et = draw(st.sampled_from(ets))
    vals = elem_values(et)
    ops = []
    n = draw(st.integers(1, max_ops))
    pm = st.one_of(st.sampled_from([0, 1000]), st.integers(0, 1000))      # positions biased to both ends
    idx = st.tuples(pm, st.booleans())          # (position permille, negative form)
    choices = ["push", "push", "push", "pop", "push_at", "push_at_neg", "pop_at", "set", "get", "rem", "mem", "concat", "append",
               "resize", "sort", "assign", "copy", "pushn", "popn"]
    init = None
    if ext:
        choices = choices + ["sort0", "push_at_end", "push_at_end", "concatn", "assignn", "assign_range", "assign_filter"]
        init = draw(st.one_of(st.none(), st.lists(vals, max_size=9)))
    for _ in range(n):
        o = draw(st.sampled_from(choices))
        if o in ("push", "append", "rem", "mem"):
            ops.append([o, draw(vals)])
        elif o == "pop":
            ops.append([o])
        elif o in ("push_at", "push_at_neg"):
            ops.append([o, draw(pm), draw(vals)])
        elif o in ("pop_at", "get"):
            p, neg = draw(idx)
            ops.append([o, p, neg])
        elif o == "set":
            p, neg = draw(idx)
            ops.append([o, p, neg, draw(vals)])
        elif o in ("concat", "assign"):
            k2 = draw(st.sampled_from(["Array", "List", "Tuple"]))
            ops.append([o, k2, draw(st.lists(vals, max_size=6))])
        elif o == "resize":
            ops.append([o, draw(st.sampled_from(["zero", "less", "same", "more"])), draw(st.integers(0, 1000))])
        elif o == "sort":
            ops.append([o, draw(st.sampled_from(["lt", "gt", "le", "ge"]))])      # strict and non-strict comparison functions
        elif o == "copy":
            ops.append([o])
        elif o == "pushn":
            ops.append([o, draw(st.sampled_from([3, 8, 20, 50, 120])), draw(st.lists(vals, min_size=1, max_size=4))])
        elif o == "popn":
            ops.append([o, draw(st.sampled_from([3, 8, 20, 50, 120]))])
        elif o == "sort0":
            ops.append([o])
        elif o == "push_at_end":
            ops.append([o, draw(vals)])
        elif o in ("concatn", "assignn"):
            ops.append([o, draw(st.sampled_from(["Array", "List", "Tuple"])), draw(st.sampled_from([9, 17, 40, 90, 150])),
                        draw(st.lists(vals, min_size=1, max_size=4))])
        elif o == "assign_filter":
            ops.append([o, draw(st.lists(st.integers(-4, 9).map(lambda v: "i:%d" % v), max_size=8)), draw(st.sampled_from(["even", "all"]))])
        elif o == "assign_range":
            ops.append([o, draw(st.integers(-5, 5)), draw(st.sampled_from([0, 1, 2, 7, 30])), draw(st.integers(1, 3)),
                        draw(st.sampled_from(["heap", "stack"]))])
    case = {"kind": kind, "et": et, "ops": ops}
    if init is not None:
        case["init"] = init
    return case


class SeqRun:
    def __init__(self, case, slot=0, prog=None, check_every=True, check_mem=False):
        self.case = case
        self.kind, self.et = case["kind"], case["et"]
        self.P = prog or Prog()
        self.model = []
        self.cur = slot
        self.alt = slot + 1
        self.aux = slot + 2
        self.pool_next = 0
        self.events = set()
        self.flags = {"grow": 0, "shrink": 0, "neg_ops": set(), "sort_dups": False, "last_cap": None, "maxlen": 0}
        self.check_every = check_every        # False: no model comparison after each op (the caller compares at the end)
        self.check_mem = check_mem            # True: mem() of every value of the element universe after each op

    @property
    def c(self):
        return "%%%d" % self.cur

    def start(self):
        init = list(self.case.get("init") or [])
        if self.kind == "Tuple":
            self.P.add("new %s heap t:Tuple %s" % (self.c, " ".join(self.pool_obj(v) for v in init)))
        else:
            self.P.add("new %s heap t:%s t:%s %s" % (self.c, self.kind, self.et, " ".join(init)))
        self.model[:] = init
        if init:
            self.events.add("constructed-with-elements")
        self.check()

    def pool_obj(self, lit):
        """a fresh heap object (never reused) holding lit, for Tuple elements; None when exhausted"""
        if self.pool_next >= NPOOL:
            return None
        s = POOL0 + self.pool_next
        self.pool_next += 1
        self.P.add("new %%%d heap t:%s %s" % (s, self.et, lit))
        return "%%%d" % s

    def elem_arg(self, lit):
        if self.kind == "Tuple":
            return self.pool_obj(lit)
        return lit

    def room(self, k=1):
        return self.kind != "Tuple" or self.pool_next + k <= NPOOL

    def check(self, force=False):
        P, model = self.P, list(self.model)
        self.flags["maxlen"] = max(self.flags["maxlen"], len(model))
        if not (self.check_every or force):
            return
        P.add("len %s" % self.c, expect_ok(str(len(model))))
        tag = {"Array": "A", "List": "L", "Tuple": "U"}[self.kind]
        P.add("repr %s" % self.c, expect_ok("%s[%s]" % (tag, ",".join(lit_repr(v) for v in model))))
        if len(model) <= 40:
            P.add("gets %s" % self.c, expect_ok(",".join(lit_repr(v) for v in model + model)))
        if self.check_mem:
            uni = UNIVERSE[self.et]
            have = set(model)
            P.add("mems %s %s" % (self.c, " ".join(uni)), expect_ok("".join("1" if u in have else "0" for u in uni)))
        if self.kind == "Array":
            fl = self.flags

            def chk(o):
                if not o.startswith("ok "):
                    return "cap failed " + o
                c = int(o[3:])
                if fl["last_cap"] is not None:
                    if c > fl["last_cap"]:
                        fl["grow"] += 1
                    elif c < fl["last_cap"]:
                        fl["shrink"] += 1
                fl["last_cap"] = c
                return None
            P.add("cap %s" % self.c, chk)

    def index(self, p, neg, n):
        i = p * n // 1001
        return i - n if neg else i

    def build_other(self, k2, items, slot):
        """another container holding items; returns slot arg or None"""
        P = self.P
        if k2 == "Tuple" or self.kind == "Tuple":
            if self.kind == "Tuple" and not self.room(len(items)):
                return None
            refs = []
            for it in items:
                if self.kind == "Tuple":
                    refs.append(self.pool_obj(it))
                else:
                    refs.append(it)
            P.add("new %%%d heap t:Tuple %s" % (slot, " ".join(refs)))
        else:
            P.add("new %%%d heap t:%s t:%s %s" % (slot, k2, self.et, " ".join(items)))
        return "%%%d" % slot

    def apply(self, op):
        P, m = self.P, self.model
        o = op[0]
        n = len(m)
        if o in ("push", "append"):
            if not self.room():
                return
            P.add("%s %s %s" % (o, self.c, self.elem_arg(op[1])))
            m.append(op[1])
        elif o == "pushn":
            cnt, vs = op[1], op[2]
            if self.kind == "Tuple":
                cnt = min(cnt, 20)
            if not self.room(cnt):
                return
            for j in range(cnt):
                v = vs[j % len(vs)]
                P.add("push %s %s" % (self.c, self.elem_arg(v)))
                m.append(v)
                if j % 9 == 4 and self.kind == "Array":
                    self.check()
        elif o == "popn":
            for j in range(min(op[1], n)):
                P.add("pop %s" % self.c)
                m.pop()
                if j % 9 == 4 and self.kind == "Array":
                    self.check()
        elif o == "pop":
            if n == 0:
                return
            P.add("pop %s" % self.c)
            m.pop()
        elif o == "push_at":
            if n == 0 or not self.room():
                return
            i = op[1] * n // 1001
            P.add("push_at %s %s i:%d" % (self.c, self.elem_arg(op[2]), i))
            m.insert(i, op[2])
        elif o == "push_at_neg":
            # negative index: the containers disagree whether it counts from the old or the new length (Appendix A),
            # so either insertion position is accepted; afterwards the container is rebuilt to a known state.
            if n == 0 or self.kind == "Tuple":
                return
            i = -(1 + op[1] * n // 1001)                  # in [-n, -1]
            a = list(m); a.insert(n + i, op[2])           # counted from the old length
            b = list(m); b.insert(n + 1 + i, op[2])       # counted from the new length
            tag = {"Array": "A", "List": "L"}[self.kind]
            ra = "ok %s[%s]" % (tag, ",".join(lit_repr(v) for v in a))
            rb = "ok %s[%s]" % (tag, ",".join(lit_repr(v) for v in b))
            P.add("push_at %s %s i:%d" % (self.c, op[2], i))
            P.add("repr %s" % self.c, lambda o, ra=ra, rb=rb: None if o in (ra, rb) else "after push_at with a negative index: %s, expected %s or %s" % (o, ra, rb))
            P.add("len %s" % self.c, expect_ok(str(n + 1)))
            P.add("resize %s 0" % self.c)
            for v in a:
                P.add("push %s %s" % (self.c, v))
            m[:] = a
            self.flags["neg_ops"].add("push_at")
            self.flags["last_cap"] = None
        elif o == "pop_at":
            if n == 0:
                return
            i = self.index(op[1], op[2], n)
            P.add("pop_at %s i:%d" % (self.c, i))
            m.pop(i)
            if op[2]:
                self.flags["neg_ops"].add(o)
        elif o == "get":
            if n == 0:
                return
            i = self.index(op[1], op[2], n)
            P.add("get %s i:%d" % (self.c, i), expect_ok(lit_repr(m[i])))
            if op[2]:
                self.flags["neg_ops"].add(o)
            return
        elif o == "set":
            if n == 0 or not self.room():
                return
            i = self.index(op[1], op[2], n)
            P.add("set %s i:%d %s" % (self.c, i, self.elem_arg(op[3])))
            m[i] = op[3]
            if op[2]:
                self.flags["neg_ops"].add(o)
        elif o == "rem":
            if op[1] not in m:
                return        # absent element: C12's subject
            P.add("rem %s %s" % (self.c, op[1]))
            m.remove(op[1])
            self.events.add("rem-first-of-%d" % min(3, m.count(op[1]) + 1))
        elif o == "mem":
            P.add("mem %s %s" % (self.c, op[1]), expect_ok("1" if op[1] in m else "0"))
            return
        elif o == "concat":
            other = self.build_other(op[1], op[2], self.aux)
            if other is None:
                return
            P.add("concat %s %s" % (self.c, other))
            m.extend(op[2])
            if self.kind != "Tuple":
                P.add("del %%%d" % self.aux)
            self.events.add("concat-" + op[1])
        elif o == "assign":
            if self.kind != "Tuple" and op[1] == "Tuple":
                # assign(array|list, tuple) re-types the target to Ref elements (Tuple has no iter_type):
                # a documented conversion, not a value copy - not part of the sequence model
                op = [o, "List", op[2]]
            other = self.build_other(op[1], op[2], self.aux)
            if other is None:
                return
            P.add("assign %s %s" % (self.c, other), lambda ob: None if ob.startswith("ok") else "assign failed: " + ob)
            m[:] = list(op[2])
            if self.kind != "Tuple":
                P.add("push %%%d %s" % (self.aux, op[2][0] if op[2] else SENT1[self.et]))
                P.add("del %%%d" % self.aux)
            self.flags["last_cap"] = None
            self.events.add("assign-" + op[1])
        elif o == "resize":
            how = op[1]
            if how == "zero":
                if self.kind == "Tuple" and n == 0:
                    return
                P.add("resize %s 0" % self.c)
                m[:] = []
            elif how == "less":
                if n < 2:
                    return
                k = 1 + op[2] * (n - 1) // 1001
                P.add("resize %s %d" % (self.c, k))
                del m[k:]
            elif how == "same":
                if self.kind == "Tuple" or n == 0:
                    return
                P.add("resize %s %d" % (self.c, n))
            else:
                k = n + 1 + op[2] % 40
                if self.kind == "Array":
                    P.add("resize %s %d" % (self.c, k))
                elif self.kind == "List" and self.et in ZERO:
                    P.add("resize %s %d" % (self.c, k))
                    m.extend([ZERO[self.et]] * (k - n))
                else:
                    return
            self.events.add("resize-" + how)
        elif o == "sort":
            if self.kind == "List":
                return
            P.add("sortby %s %s" % (self.c, op[1]))
            if len(set(m)) < len(m):
                self.flags["sort_dups"] = True
            m.sort(key=val_order, reverse=(op[1] in ("gt", "ge")))
            self.events.add("sort")
        elif o == "copy":
            P.add("copy %%%d %s" % (self.alt, self.c), lambda ob: None if ob.startswith("ok") else "copy failed: " + ob)
            if self.room():
                P.add("push %s %s" % (self.c, self.elem_arg(SENT2[self.et])))
            P.add("del %s" % self.c)
            self.cur, self.alt = self.alt, self.cur
            self.flags["last_cap"] = None
            self.events.add("copy")
        elif o == "sort0":
            # the plain entry point: sort(x) == sort_by(x, lt)
            if self.kind == "List":
                return
            P.add("sort %s" % self.c)
            if len(set(m)) < len(m):
                self.flags["sort_dups"] = True
            m.sort(key=val_order)
            self.events.add("sort-plain")
        elif o == "push_at_end":
            # i == len (also on an empty container): Array appends, List accepts it only when empty, Tuple rejects it
            # (DESIGN.md Appendix A) - either "IndexOutOfBoundsError and unchanged" or "appended" is accepted, nothing
            # else; afterwards the container is brought back to the old contents (push one more, truncate to n).
            if not self.room(2):
                return
            v = op[1]
            tag = {"Array": "A", "List": "L", "Tuple": "U"}[self.kind]
            ra = "ok %s[%s]" % (tag, ",".join(lit_repr(x) for x in m + [v]))
            rb = "ok %s[%s]" % (tag, ",".join(lit_repr(x) for x in m))
            seen = {}

            def c1(ob, seen=seen):
                if ob == "ok" or ob.startswith("ok "):
                    seen["acc"] = True
                    return None
                if ob == "exc IndexOutOfBoundsError":
                    seen["acc"] = False
                    return None
                return "push_at with i == len: expected ok or IndexOutOfBoundsError, got '%s'" % ob

            def c2(ob, seen=seen, ra=ra, rb=rb):
                want = ra if seen.get("acc") else rb
                return None if ob == want else "after push_at with i == len (%s): %s, expected %s" % (
                    "accepted" if seen.get("acc") else "rejected", ob, want)
            sa = "ok %s[%s]" % (tag, ",".join(lit_repr(x) for x in m + [v, SENT2[self.et]]))
            sb = "ok %s[%s]" % (tag, ",".join(lit_repr(x) for x in m + [SENT2[self.et]]))

            def c3(ob, seen=seen, sa=sa, sb=sb):
                want = sa if seen.get("acc") else sb
                return None if ob == want else "push after push_at with i == len (%s): %s, expected %s" % (
                    "accepted" if seen.get("acc") else "rejected", ob, want)

            def c4(ob, seen=seen, n=n):
                want = "ok %d" % (n + 2 if seen.get("acc") else n + 1)
                return None if ob == want else "len after push_at with i == len and a push: %s, expected %s" % (ob, want)
            P.add("push_at %s %s i:%d" % (self.c, self.elem_arg(v), n), c1)
            P.add("repr %s" % self.c, c2)
            P.add("push %s %s" % (self.c, self.elem_arg(SENT2[self.et])))      # the next operation must see a consistent container
            P.add("repr %s" % self.c, c3)
            P.add("len %s" % self.c, c4)
            P.add("resize %s %d" % (self.c, n))
            self.flags["last_cap"] = None
            self.events.add("push_at-len" + ("-empty" if n == 0 else ""))
        elif o in ("concatn", "assignn"):
            # large sources: the target's capacity jumps by many elements at once
            k2, cnt, vs = op[1], op[2], op[3]
            if self.kind == "Tuple":
                cnt = min(cnt, 40)
            if o == "assignn" and self.kind != "Tuple" and k2 == "Tuple":
                k2 = "Array"          # see "assign": a Tuple source re-types the target
            items = [vs[j % len(vs)] for j in range(cnt)]
            other = self.build_other(k2, items, self.aux)
            if other is None:
                return
            if o == "concatn":
                P.add("concat %s %s" % (self.c, other))
                m.extend(items)
            else:
                P.add("assign %s %s" % (self.c, other), lambda ob: None if ob.startswith("ok") else "assign failed: " + ob)
                m[:] = items
                self.flags["last_cap"] = None
            if self.kind != "Tuple":
                P.add("del %%%d" % self.aux)
            self.events.add("%s-large-%s" % (o[:-1], k2))
        elif o == "assign_range":
            # assign(array | list, range(...)): the element type becomes Int (iter_type of Range), every item is a copy
            # of the Range's single value object (tests/test.c: test_array_assign, test_list_assign)
            if self.kind == "Tuple" or self.et != "Int":
                return
            a, cnt, step, alloc = op[1], op[2], op[3], op[4]
            b = a + cnt * step - ((a + cnt) % step if cnt else 0)      # cnt items; the span is not always divisible by the step
            if alloc == "heap":
                P.add("new %%%d heap t:Range i:%d i:%d i:%d" % (self.aux, a, b, step))
            else:
                P.add("stk %%%d range i:%d i:%d i:%d" % (self.aux, a, b, step))
            P.add("assign %s %%%d" % (self.c, self.aux), lambda ob: None if ob.startswith("ok") else "assign failed: " + ob)
            m[:] = ["i:%d" % v for v in range(a, b, step)]
            if alloc == "heap":
                P.add("del %%%d" % self.aux)
            self.flags["last_cap"] = None
            self.events.add("assign-Range")
        elif o == "assign_filter":
            # assign from an iterable that has neither Len nor Get (a Filter): the old contents are replaced
            # (Array, Tuple; List needs Len and raises ClassError - C12's subject, not generated here)
            if self.et != "Int" or self.kind == "List":
                return
            items, fn = op[1], op[2]
            P.add("new %%%d heap t:Array t:Int %s" % (self.aux, " ".join(items)))
            P.add("new %%%d heap t:Filter %%%d fn:%s" % (self.aux + 1, self.aux, fn))
            P.add("assign %s %%%d" % (self.c, self.aux + 1), lambda ob: None if ob.startswith("ok") else "assign failed: " + ob)
            m[:] = [v for v in items if fn == "all" or (fn == "even" and int(v[2:]) % 2 == 0)]
            self.events.add("assign-Filter")
            self.flags["last_cap"] = None
            if self.kind == "Tuple":
                # the Tuple now points at elements embedded in the source Array: look at it while that Array is alive,
                # then empty it before the source goes away
                self.check()
                if m:
                    P.add("resize %s 0" % self.c)
                    m[:] = []
            P.add("del %%%d" % (self.aux + 1))
            P.add("del %%%d" % self.aux)
        else:
            raise HarnessBug("op " + o)
        self.check()

    def finish(self):
        self.P.add("del %s" % self.c)
