"""Shared generator + reference model for Table (C02) and Tree (C03) op sequences."""
import json, os, functools, math
from hypothesis import strategies as st
from .. import gen
from ..vm import Prog, lit_repr, expect_ok, expect_exc
from ..core import Result, HarnessBug

M = 5 * 11 * 23 * 53 * 101 * 197 * 389 * 683 * 1259      # same residue modulo every table size up to 1259
PRIMES = [0, 1, 5, 11, 23, 53, 101, 197, 389, 683, 1259, 2417, 4733, 9371]
_STRKEYS = json.load(open(os.path.join(os.path.dirname(__file__), "..", "data", "strkeys.json")))


_TSIZE = {"Int": 8, "String": 8, "Probe": 24, "Blob": 16, "Tri": 3, "Blob20": 20}


def _tsize(t):
    return _TSIZE[t]


def ideal_size(n):
    s = int((n + 1) / 0.9)
    for p in PRIMES:
        if p >= s:
            return p
    return PRIMES[-1]


# ---- key universes --------------------------------------------------------------------

@st.composite
def int_universe(draw, lo=6, hi=16):
    n = draw(st.integers(lo, hi))
    keys = []
    fams = draw(st.lists(st.sampled_from([0, 1, 2, M - 1, M - 2, 4, 10]), min_size=1, max_size=2, unique=True))
    while len(keys) < n:
        how = draw(st.integers(0, 9))
        if how <= 5:
            k = draw(st.sampled_from(fams)) + draw(st.integers(0, 19)) * M
        elif how <= 7:
            k = draw(st.integers(-30, 30))
        elif how == 8:
            k = draw(st.integers(0, 12)) * 5 * 11 * 23            # collide up to size 23 only
        else:
            k = draw(gen.ints())
        if k not in keys and -2**63 <= k < 2**63:
            keys.append(k)
    return ["i:%d" % k for k in keys]


@st.composite
def str_universe(draw, lo=6, hi=16):
    n = draw(st.integers(lo, hi))
    fam = draw(st.sampled_from(_STRKEYS["same_home_5_11_23"] + _STRKEYS["same_home_5_11_23_53"]))["keys"]
    keys = []
    while len(keys) < n:
        how = draw(st.integers(0, 9))
        if how <= 6:
            k = draw(st.sampled_from(fam))
        else:
            k = draw(gen.cbytes(5)).hex()
        if k not in keys:
            keys.append(k)
    return ["s:" + k for k in keys]


@st.composite
def probe_universe(draw, lo=6, hi=16):
    n = draw(st.integers(lo, hi))
    ks = draw(st.lists(st.integers(0, 60), min_size=n, max_size=n, unique=True))
    return ["p:%d" % k for k in ks]


@st.composite
def tri_universe(draw, lo=6, hi=16):
    """3-byte plain-struct keys (size not a multiple of 8; default byte-wise cmp / hash); first byte never 0xf0 (filler keys)"""
    n = draw(st.integers(lo, hi))
    keys = []
    while len(keys) < n:
        if draw(st.integers(0, 9)) <= 5:
            b = bytes([draw(st.sampled_from([0x00, 0x01, 0x61, 0x7f, 0x80, 0xef])), draw(st.sampled_from([0x00, 0x61, 0xff])),
                       draw(st.integers(0, 255))])
        else:
            b = draw(st.binary(min_size=3, max_size=3))
        if b[0] != 0xf0 and b.hex() not in keys:
            keys.append(b.hex())
    return ["c:" + k for k in keys]


def universe(kt, lo=6, hi=16):
    return {"Int": int_universe, "String": str_universe, "Probe": probe_universe, "Tri": tri_universe}[kt](lo, hi)


def values(vt, uni=None):
    if vt == "Int":
        base = st.integers(-5, 5).map(lambda v: "i:%d" % v)
        if uni:
            return st.one_of(base, st.sampled_from(uni))
        return base
    if vt == "String":
        base = st.sampled_from([b"", b"a", b"bb", b"\x80x", b"value"]).map(lambda b: "s:" + b.hex())
        if uni:
            return st.one_of(base, st.sampled_from(uni))
        return base
    if vt == "Probe":
        return st.integers(0, 9).map(lambda v: "p:%d" % v)
    if vt == "Blob":
        return st.integers(0, 9).map(lambda v: "b:" + ("%02x" % (v + 1)) * 16)
    if vt == "Tri":
        base = st.sampled_from(["000000", "0000ff", "610000", "ff00ff", "7f8081", "ffffff"]).map(lambda h: "c:" + h)
        if uni:
            return st.one_of(base, st.sampled_from(uni))
        return base
    if vt == "Blob20":
        return st.integers(0, 9).map(lambda v: "b20:" + ("%02x" % (v + 0x11)) * 19 + "%02x" % v)
    raise HarnessBug(vt)


def key_order(lit):
    """reference order of a key literal"""
    if lit.startswith("i:") or lit.startswith("p:"):
        return int(lit[2:])
    if lit.startswith("s:") or lit.startswith("c:"):
        return bytes.fromhex(lit[2:])
    raise HarnessBug(lit)


# ---- op sequences ---------------------------------------------------------------------

BASE_TYPES = [("Int", "Int"), ("Int", "Int"), ("String", "String"), ("Probe", "Probe"), ("String", "Int"), ("Int", "String"),
              ("Int", "Probe"), ("Probe", "Int"), ("Int", "Blob"), ("String", "Blob")]
# extras: plain structs whose size is not a multiple of 8 (Tri 3 bytes, Blob20 20 bytes) as keys and values
EXTRA_TYPES = [("Tri", "Tri"), ("Tri", "Int"), ("Int", "Tri"), ("Tri", "Blob20"), ("String", "Blob20"), ("Probe", "Tri")]
DETOUR_K = ["Int", "String", "Probe", "Tri"]
DETOUR_V = ["Int", "String", "Probe", "Blob", "Tri", "Blob20"]


@st.composite
def map_case(draw, kind, extras=False):
    """extras=False: the generator every user of this module relies on (C05 C10 C12 C18).  extras=True (C02 C03) adds:
    odd-sized key/value types, constructor-with-pairs (`renew`), set with a value that lives in the same container
    (`valfrom`), assign onto a holder that was retyped just before (`detour`), Table resize far above / below len
    (`strict`), bulk fill / drain in permuted orders, comparison counting (case["x"]), first phase biased to inserting."""
    # key and value types of equal and of different sizes (Int/String 8 bytes, Blob 16, Probe 24)
    kt, vt = draw(st.sampled_from(BASE_TYPES + (EXTRA_TYPES if extras else [])))
    if kind == "Tree":
        uni = draw(universe(kt, 6, 40))
    else:
        uni = draw(universe(kt, 6, 16))
    nk = len(uni)
    vals = values(vt, uni if kt == vt else None)
    ops = []
    present = set()        # universe indices currently bound (tracked so that removals mostly hit present keys)
    nphase = draw(st.integers(1, 5))
    phases = ["ins", "ins", "del", "mixed", "mixed", "drain", "special", "bulk"]
    if extras:
        phases = phases + ["renew", "special", "mixed"]
    for pi in range(nphase):
        if extras and pi == 0 and draw(st.integers(0, 3)) > 0:
            ph = draw(st.sampled_from(["ins", "ins", "bulk", "renew", "mixed"]))      # mostly start by filling
        else:
            ph = draw(st.sampled_from(phases))
        if extras and ph in ("del", "drain") and not present and draw(st.integers(0, 3)) > 0:
            ph = "ins"                                # removing from a container that holds no universe key: mostly fill instead
        if ph in ("ins", "del", "drain"):
            order = draw(st.sampled_from(["asc", "desc", "alt", "rand", "univ"]))
            idx = list(range(nk))
            if order in ("asc", "desc", "alt"):
                idx.sort(key=lambda i: key_order(uni[i]))
                if order == "desc":
                    idx.reverse()
                elif order == "alt":
                    a = []
                    lo_, hi_ = 0, len(idx) - 1
                    while lo_ <= hi_:
                        a.append(idx[lo_])
                        lo_ += 1
                        if lo_ <= hi_:
                            a.append(idx[hi_])
                            hi_ -= 1
                    idx = a
            elif order == "rand":
                idx = draw(st.permutations(idx))
            frac = 1.0 if ph == "drain" else draw(st.sampled_from([0.3, 0.6, 1.0]))
            if ph != "ins" and present and draw(st.integers(0, 4)) > 0:
                idx = [i for i in idx if i in present] or idx       # mostly remove what is there
            idx = idx[:max(1, int(len(idx) * frac))]
            for i in idx:
                if ph == "ins":
                    ops.append(["set", i, draw(vals), "stack"])
                    present.add(i)
                else:
                    ops.append(["rem", i])
                    present.discard(i)
        elif ph == "mixed":
            for _ in range(draw(st.integers(1, 14))):
                o = draw(st.sampled_from(["set", "set", "set", "rem", "rem", "get", "mem"]))
                i = draw(st.integers(0, nk - 1))
                if o == "rem" and present and draw(st.integers(0, 3)) > 0:
                    i = draw(st.sampled_from(sorted(present)))
                if o == "set":
                    v = draw(vals)
                    form = draw(st.sampled_from(["stack", "stack", "heap"] + (["valfrom"] if extras else [])))
                    if form == "valfrom":
                        # the value argument is the embedded value of another key of the same container: set(t, k, get(t, k2))
                        j = draw(st.sampled_from(sorted(present))) if present and draw(st.integers(0, 4)) > 0 else draw(st.integers(0, nk - 1))
                        ops.append(["set", i, v, "valfrom", j])
                    else:
                        ops.append(["set", i, v, form])
                    present.add(i)
                elif o == "rem":
                    ops.append(["rem", i])
                    present.discard(i)
                else:
                    ops.append([o, i, draw(st.sampled_from(["stack", "heap", "aliaskey", "aliasval"]))])
        elif ph == "special":
            o = draw(st.sampled_from(["clear", "copy", "assign", "reserve"] + (["assign", "reserve"] if extras else [])))
            if o == "assign":
                src_kind = draw(st.sampled_from(["Table", "Tree"]))
                # the source never sees an updating set (unique keys): its own correctness is not the subject
                pairs = draw(st.lists(st.tuples(st.integers(0, nk - 1), vals), max_size=10, unique_by=lambda p: p[0]))
                op = ["assign", src_kind, [[i, v] for (i, v) in pairs]]
                if extras and draw(st.booleans()):
                    # the holder is first assigned from a map of other key / value types (other slot and node sizes)
                    kt2, vt2 = draw(st.tuples(st.sampled_from(DETOUR_K), st.sampled_from(DETOUR_V)).filter(lambda p: p != (kt, vt)))
                    op.append([draw(st.sampled_from(["Table", "Tree"])), kt2, vt2, draw(st.sampled_from([0, 1, 3, 7, 12, 30]))])
                ops.append(op)
                present = set(i for (i, v) in pairs)
            elif o == "reserve":
                if kind == "Table":
                    if extras:
                        # "strict": a count below len is issued too (refused or ignored, bindings unchanged); far above len as well
                        # (a negative count -d stands for len-d, resolved when the program is built)
                        n_ = draw(st.one_of(st.integers(0, 60), st.integers(1, 12), st.integers(-6, -1), st.integers(61, 1300)))
                        ops.append(["reserve", n_, "strict"])
                    else:
                        n_ = draw(st.integers(0, 60))
                        ops.append(["reserve", n_])
                    if n_ == 0:
                        present = set()
                else:
                    ops.append(["clear"])
                    present = set()
            else:
                ops.append([o])
                if o == "clear":
                    present = set()
        elif ph == "renew":
            # the container is replaced by one built with the constructor's initial bindings: new(Table, K, V, k1, v1, ...)
            pairs = draw(st.lists(st.tuples(st.integers(0, nk - 1), vals), max_size=nk, unique_by=lambda p: p[0]))
            ops.append(["renew", [[i, v] for (i, v) in pairs], draw(st.sampled_from([0, 0, 5, 30, 90]))])
            present = set(i for (i, v) in pairs)
        elif ph == "bulk":
            # filler keys outside the universe push the container through several sizes while the
            # universe keys stay resident
            cnt = draw(st.sampled_from([8, 20, 45, 90, 180]))
            if extras:
                # fill / drain order: index (off + t*step) mod cnt (ascending, descending and strided permutations)
                ops.append(["bulk_set", cnt, draw(st.sampled_from([1, 1, -1, 7, 11, 13, 37])), draw(st.integers(0, 7))])
                if draw(st.booleans()):
                    ops.append(["bulk_rem", cnt, draw(st.sampled_from([1, -1, -1, 7, 11, 13, 37])), draw(st.integers(0, 7))])
            else:
                ops.append(["bulk_set", cnt])
                if draw(st.booleans()):
                    ops.append(["bulk_rem", cnt])
    pmode = draw(st.integers(0, 3)) if kt == "Probe" else 0
    case = {"kind": kind, "kt": kt, "vt": vt, "uni": uni, "pmode": pmode, "ops": ops[:70]}
    if extras:
        case["x"] = 1
    return case


def bulk_order(op):
    """index sequence of a bulk op: [name, cnt] -> 0..cnt-1; [name, cnt, step, off] -> (off + t*step) mod cnt"""
    cnt = op[1]
    if len(op) <= 2:
        return list(range(cnt))
    step, off = op[2] % cnt, op[3] % cnt
    if math.gcd(step, cnt) != 1:
        step = 1
    return [(off + t * step) % cnt for t in range(cnt)]


def filler_key(kt, j):
    if kt == "Int":
        return "i:%d" % (1000003 + j * 7)
    if kt == "String":
        return "s:" + ("f%dz" % j).encode().hex()
    if kt == "Tri":
        return "c:f0%04x" % j
    return "p:%d" % (1000 + j)


def filler_val(vt, j):
    if vt == "Blob":
        return "b:" + ("%02x" % (0xa0 + j % 5)) * 16
    if vt == "Int":
        return "i:%d" % (j % 5)
    if vt == "String":
        return "s:" + ("v%d" % (j % 5)).encode().hex()
    if vt == "Tri":
        return "c:" + ("%02x" % (0xb0 + j % 5)) * 3
    if vt == "Blob20":
        return "b20:" + ("%02x" % (0xc0 + j % 5)) * 20
    return "p:%d" % (j % 5)


# ---- program + model ------------------------------------------------------------------

def parse_pairs(body):
    if not body:
        return []
    out = []
    for kv in body.split(","):
        if kv == "OVERRUN":
            out.append(("OVERRUN", ""))
            continue
        k, v = kv.split(":")
        out.append((k, v))
    return out


class MapRun:
    """Builds the VM program for one case while running the dict model alongside."""

    def __init__(self, case, probe_all=True, slot=0, prog=None):
        self.case = case
        self.kind = case["kind"]
        self.kt, self.vt = case["kt"], case["vt"]
        self.uni = case["uni"]
        self.model = {}
        self.P = prog or Prog()
        self.cur = slot
        self.alt = slot + 1
        self.aux = slot + 2
        self.state = {"dir": 0, "stats": [], "fwd": None}
        self.events = set()
        self.flags = {"collision": False, "rem_or_update": False, "two_children_rem": False, "fix_rem": False,
                      "wrap": False, "rehash": 0, "last_nslots": None}
        self.nfill = 0
        self.probe_all = probe_all
        self.x = bool(case.get("x"))                                   # extras (see map_case)
        self.count = self.x and self.kind == "Tree" and self.kt == "Probe"      # count key comparisons per operation
        self.probe_used = False

    # -- C03 "lookups, insertions and removals stay logarithmic": Probe_Cmp calls of one operation on a tree of n nodes.
    # The height is at most 2*log2(n+1); twice that plus slack is allowed (an implementation may compare twice per level).
    def op_line(self, line, chk=None, n=0):
        P = self.P
        if not self.count:
            P.add(line, chk)
            return
        lim = int(4 * math.log2(n + 2)) + 6
        P.add("cmps")
        P.add(line, chk)

        def chk_c(o, n=n, lim=lim, line=line):
            if not o.startswith("ok "):
                return "cmps failed: " + o
            c = int(o[3:])
            if c > lim:
                return "`%s` on a Tree of %d nodes took %d key comparisons (limit %d = 4*log2(n+2)+6): not logarithmic" % (line, n, c, lim)
            return None
        P.add("cmps", chk_c)
        self.events.add("cmp-counted")
        if n >= 64:
            self.events.add("cmp-counted-n>=64")

    @property
    def c(self):
        return "%%%d" % self.cur

    def start(self):
        self.P.add("pmode %d" % self.case["pmode"])
        self.P.add("new %s heap t:%s t:%s t:%s" % (self.c, self.kind, self.kt, self.vt))
        self.check()

    # -- checks after each mutation
    def check(self):
        P, model, st_ = self.P, dict(self.model), self.state
        kind = self.kind
        P.add("len %s" % self.c, expect_ok(str(len(model))))
        want = sorted((lit_repr(k), lit_repr(v)) for k, v in model.items())
        keyorder = {lit_repr(k): key_order(k) for k in model}

        def chk_fwd(o, want=want, keyorder=keyorder):
            if not o.startswith("ok {"):
                return "iteration failed: " + o
            pairs = parse_pairs(o[4:-1])
            st_["fwd"] = [k for k, _ in pairs]
            if sorted(pairs) != want:
                return "iteration yields %s, model has %s" % (sorted(pairs)[:12], want[:12])
            if kind == "Tree" and len(pairs) >= 2:
                ks = [keyorder[k] for k, _ in pairs]
                asc = all(a < b for a, b in zip(ks, ks[1:]))
                desc = all(a > b for a, b in zip(ks, ks[1:]))
                if not (asc or desc):
                    return "Tree iteration not strictly monotone: %s" % [k for k, _ in pairs][:12]
                d = 1 if asc else -1
                if st_["dir"] and st_["dir"] != d:
                    return "Tree iteration direction changed between walks"
                st_["dir"] = d
            return None
        P.add("fwdkv %s" % self.c, chk_fwd)

        def chk_bwd(o):
            if not o.startswith("ok ["):
                return "backward iteration failed: " + o
            body = o[4:-1]
            ks = body.split(",") if body else []
            if st_["fwd"] is not None and ks != list(reversed(st_["fwd"])):
                return "backward iteration %s is not the reverse of forward %s" % (ks[:12], st_["fwd"][:12])
            return None
        P.add("bwd %s" % self.c, chk_bwd)
        if self.probe_all:
            bits = "".join("1" if k in model else "0" for k in self.uni)
            P.add("mems %s %s" % (self.c, " ".join(self.uni)), expect_ok(bits))
            vals = ",".join(lit_repr(model[k]) if k in model else "!" for k in self.uni)
            P.add("getsk %s %s" % (self.c, " ".join(self.uni)), expect_ok(vals))
        flags = self.flags
        n = len(model)

        if kind == "Table":
            def chk_t(o, n=n):
                if not o.startswith("ok nslots="):
                    return "table check failed: " + o
                f = dict(x.split("=") for x in o[3:].split())
                if f["bad"] != "-":
                    return "Table invariant broken: " + f["bad"]
                ns = int(f["nslots"])
                if n > 0 and ns < ideal_size(n):
                    return "nslots %d below the ideal size %d for %d items" % (ns, ideal_size(n), n)
                if int(f["disp"]) > 0:
                    flags["collision"] = True
                if int(f["wrap"]) > 0:
                    flags["wrap"] = True
                if flags["last_nslots"] is not None and flags["last_nslots"] != ns:
                    flags["rehash"] += 1
                flags["last_nslots"] = ns
                return None
            P.add("tchk %s" % self.c, chk_t)
        else:
            def chk_r(o, n=n):
                if not o.startswith("ok n="):
                    return "tree check failed: " + o
                f = dict(x.split("=") for x in o[3:].split())
                if f["bad"] != "-":
                    return "Tree invariant broken: " + f["bad"]
                return None
            P.add("rbchk %s" % self.c, chk_r)

    def key_arg(self, k, form, present):
        """returns (setup lines, argument, cleanup lines)"""
        if form == "heap":
            tn = self.kt
            a = self.aux + 1
            return ["new %%%d heap t:%s %s" % (a, tn, k)], "%%%d" % a, ["del %%%d" % a]
        if form == "aliaskey" and present:
            return ["findkey %s %s %%%d" % (self.c, k, self.aux + 2)], "%%%d" % (self.aux + 2), []
        return [], k, []

    def apply(self, op):
        P, model = self.P, self.model
        o = op[0]
        if o == "set":
            k, v, form = self.uni[op[1]], op[2], op[3]
            varg = v
            if form == "valfrom":
                # set(t, k, get(t, k2)) with k2 != k: the value argument lives inside the container that is being changed
                k2 = self.uni[op[4]]
                form = "stack"
                if k2 in model and k2 != k:
                    P.add("get %s %s %%%d" % (self.c, k2, self.aux + 3), expect_ok(lit_repr(model[k2])))
                    varg = "%%%d" % (self.aux + 3)
                    v = model[k2]
                    form = "valfrom-" + ("update" if k in model else "insert")
            pre, a, post = self.key_arg(k, form, k in model)
            for l in pre:
                P.add(l)
            if k in model:
                self.flags["rem_or_update"] = True
            self.op_line("set %s %s %s" % (self.c, a, varg), None, len(model))
            for l in post:
                P.add(l)
            model[k] = v
            self.events.add("set-" + form)
            self.check()
        elif o == "rem":
            k = self.uni[op[1]]
            if k in model:
                if self.kind == "Tree":
                    fl = self.flags

                    def chk_k(ob):
                        if ob == "ok 2":
                            fl["two_children_rem"] = True
                        return None if ob.startswith("ok") else "rbkids failed: " + ob
                    P.add("rbkids %s %s" % (self.c, k), chk_k)
                self.op_line("rem %s %s" % (self.c, k), None, len(model))
                del model[k]
                self.flags["rem_or_update"] = True
            else:
                self.op_line("rem %s %s" % (self.c, k), expect_exc("KeyError"), len(model))
                self.events.add("rem-absent")
            self.check()
        elif o in ("get", "mem"):
            k, form = self.uni[op[1]], op[2]
            if form == "aliasval":
                src = [k0 for k0 in model if model[k0] == k] if self.kt == self.vt else []
                if not src and self.x and self.kt == self.vt:
                    # no binding has this key as its value: look up some bound value that is a key of the universe instead
                    alt = [k0 for k0 in model if model[k0] in self.uni]
                    if alt:
                        k = model[alt[0]]
                        src = [alt[0]]
                if not src:
                    form = "stack"
                else:
                    P.add("get %s %s %%%d" % (self.c, src[0], self.aux + 3), expect_ok(lit_repr(k)))
                    a = "%%%d" % (self.aux + 3)
                    self.events.add(o + "-aliasval")
            if form != "aliasval":
                pre, a, post = self.key_arg(k, form, k in model)
                for l in pre:
                    P.add(l)
            else:
                post = []
            if o == "get":
                if k in model:
                    self.op_line("get %s %s" % (self.c, a), expect_ok(lit_repr(model[k])), len(model))
                else:
                    self.op_line("get %s %s" % (self.c, a), expect_exc("KeyError"), len(model))
                    self.events.add("get-absent")
            else:
                self.op_line("mem %s %s" % (self.c, a), expect_ok("1" if k in model else "0"), len(model))
            for l in post:
                P.add(l)
            self.events.add(o + "-" + form)
        elif o == "clear":
            P.add("resize %s 0" % self.c)
            model.clear()
            self.events.add("clear")
            self.check()
        elif o == "reserve":
            n = op[1]
            if n < 0:
                n = len(model) + n                     # just below len
                if n <= 0:
                    return
            if n == 0:
                model.clear()
            if n == 0 or n >= len(model):
                P.add("resize %s %d" % (self.c, n))
                self.events.add("reserve")
                if n > 200:
                    self.events.add("reserve-large")
                self.check()
            elif len(op) > 2 and self.kind == "Table":
                # fewer slots than bindings requested: whether this is refused (FormatError in the checked build) or ignored,
                # the bindings stay exactly as they were
                P.add("resize %s %d" % (self.c, n), lambda ob: None if (ob.strip() == "ok" or ob.startswith("exc ")) else "resize below len: " + ob)
                self.events.add("reserve-below-len")
                self.check()
        elif o == "copy":
            other = self.alt
            P.add("copy %%%d %s" % (other, self.c), lambda ob: None if ob.startswith("ok") else "copy failed: " + ob)
            # mutate the original, then delete it: the copy must be unaffected (deep copy)
            fk, fv = filler_key(self.kt, 9999), filler_val(self.vt, 1)
            P.add("set %s %s %s" % (self.c, fk, fv))
            P.add("del %s" % self.c)
            self.cur, self.alt = self.alt, self.cur
            self.events.add("copy")
            self.flags["last_nslots"] = None
            self.check()
        elif o == "assign":
            sk, pairs = op[1], op[2]
            if len(op) > 3 and op[3]:
                self.detour(*op[3])
            P.add("new %%%d heap t:%s t:%s t:%s" % (self.aux, sk, self.kt, self.vt))
            src = {}
            for i, v in pairs:
                P.add("set %%%d %s %s" % (self.aux, self.uni[i], v))
                src[self.uni[i]] = v
            P.add("assign %s %%%d" % (self.c, self.aux), lambda ob: None if ob.startswith("ok") else "assign failed: " + ob)
            P.add("set %%%d %s %s" % (self.aux, filler_key(self.kt, 9998), filler_val(self.vt, 2)))
            P.add("del %%%d" % self.aux)
            model.clear()
            model.update(src)
            self.events.add("assign-from-" + sk)
            self.flags["last_nslots"] = None
            if self.x:
                P.add("ktype %s" % self.c, expect_ok(self.kt))
                P.add("vtype %s" % self.c, expect_ok(self.vt))
            self.check()
        elif o == "renew":
            # replace the container by one built through the constructor's initial bindings (unique keys)
            pairs, nfill = op[1], op[2]
            P.add("del %s" % self.c)
            items = [(self.uni[i], v) for i, v in pairs]
            fill = [(filler_key(self.kt, j), filler_val(self.vt, j)) for j in range(nfill)]
            words, src = [], {}
            while items or fill:                       # interleaved
                for lst in (items, fill, fill):
                    if lst:
                        k, v = lst.pop(0)
                        words += [k, v]
                        src[k] = v
            P.add(("new %s heap t:%s t:%s t:%s " % (self.c, self.kind, self.kt, self.vt) + " ".join(words)).rstrip())
            model.clear()
            model.update(src)
            self.nfill = max(self.nfill, nfill)
            self.events.add("new-with-pairs" if src else "new-with-pairs-empty")
            self.flags["last_nslots"] = None
            self.check()
        elif o == "bulk_set":
            for j in bulk_order(op):
                fk, fv = filler_key(self.kt, j), filler_val(self.vt, j)
                self.op_line("set %s %s %s" % (self.c, fk, fv), None, len(model))
                model[fk] = fv
            self.nfill = max(self.nfill, op[1])
            self.events.add("bulk")
            if len(op) > 2 and op[2] % op[1] != 1:
                self.events.add("bulk-permuted")
            if self.count:
                # counted lookups on the tree while it is large: both ends of the key range, the middle, an absent key
                n = len(model)
                for j in (0, op[1] - 1, op[1] // 2):
                    fk = filler_key(self.kt, j)
                    self.op_line("mem %s %s" % (self.c, fk), expect_ok("1"), n)
                    self.op_line("get %s %s" % (self.c, fk), expect_ok(lit_repr(model[fk])), n)
                ak = filler_key(self.kt, 5000)
                self.op_line("mem %s %s" % (self.c, ak), expect_ok("0"), n)
                self.op_line("get %s %s" % (self.c, ak), expect_exc("KeyError"), n)
            self.check()
        elif o == "bulk_rem":
            for t, j in enumerate(bulk_order(op)):
                fk = filler_key(self.kt, j)
                if fk in model:
                    if self.x and self.kind == "Tree":
                        fl = self.flags

                        def chk_k(ob, fl=fl):
                            if ob == "ok 2":
                                fl["two_children_rem"] = True
                            return None if ob.startswith("ok") else "rbkids failed: " + ob
                        P.add("rbkids %s %s" % (self.c, fk), chk_k)
                    self.op_line("rem %s %s" % (self.c, fk), None, len(model))
                    del model[fk]
                    if t % 16 == 5:
                        self.check()
            self.flags["rem_or_update"] = True
            self.check()
        else:
            raise HarnessBug("op " + o)

    def detour(self, sk2, kt2, vt2, n2):
        """the holder is assigned from a map of other key / value types first (slot / node layout changes twice)"""
        P = self.P
        a = "%%%d" % self.aux
        P.add("new %s heap t:%s t:%s t:%s" % (a, sk2, kt2, vt2))
        want = []
        for j in range(n2):
            fk, fv = filler_key(kt2, j), filler_val(vt2, j)
            P.add("set %s %s %s" % (a, fk, fv))
            want.append((lit_repr(fk), lit_repr(fv)))
        want.sort()
        P.add("assign %s %s" % (self.c, a), lambda ob: None if ob.startswith("ok") else "assign failed: " + ob)
        P.add("del %s" % a)
        P.add("ktype %s" % self.c, expect_ok(kt2))
        P.add("vtype %s" % self.c, expect_ok(vt2))
        P.add("len %s" % self.c, expect_ok(str(n2)))

        def chk_it(o, want=want):
            if not o.startswith("ok {"):
                return "iteration failed: " + o
            got = sorted(parse_pairs(o[4:-1]))
            return None if got == want else "after a retyping assign iteration yields %s, source had %s" % (got[:12], want[:12])
        P.add("fwdkv %s" % self.c, chk_it)
        hook = "tchk" if self.kind == "Table" else "rbchk"

        def chk_h(o):
            if not o.startswith("ok ") or "bad=" not in o:
                return hook + " failed: " + o
            bad = o.split("bad=")[1].split()[0]
            return None if bad == "-" else "invariant broken after a retyping assign: " + bad
        P.add("%s %s" % (hook, self.c), chk_h)
        if "Probe" in (kt2, vt2):
            self.probe_used = True
        self.events.add("assign-retyped")
        if (kt2, vt2) != (self.kt, self.vt) and _tsize(kt2) + _tsize(vt2) != _tsize(self.kt) + _tsize(self.vt):
            self.events.add("assign-retyped-other-size")

    def finish(self, ledger=True):
        P = self.P
        P.add("del %s" % self.c)
        if ledger and (self.kt == "Probe" or self.vt == "Probe" or self.probe_used):
            P.add("live", expect_ok("live=0 ledger=-"))


def run_map_case(ctx, case):
    r = MapRun(case)
    r.start()
    for op in case["ops"]:
        r.apply(op)
    r.finish()
    fail, obs = r.P.run(ctx.executor("ex_vm"))
    ev = sorted(r.events) + ["types=%s,%s" % (case["kt"], case["vt"])]
    fl = r.flags
    if fl["collision"]:
        ev.append("displaced-entries")
    if fl["wrap"]:
        ev.append("probe-wraparound")
    if fl["rehash"]:
        ev.append("rehash")
    if fl["two_children_rem"]:
        ev.append("rem-two-children")
    return r, fail, obs, ev
