"""C15 - show/look and print/scan round-trip values."""
import re, math
from hypothesis import strategies as st
from .. import build, gen
from ..core import Result, HarnessBug
from ..vm import Prog, expect_ok

ID = "C15"
LEVEL = "exploration"
BUDGET = {"quick": 3000, "thorough": 900000}
RULE = ("case = 1-6 values (Int full range, finite Float incl. huge/tiny/denormal, String over bytes 1..255 incl. quotes, "
        "backslashes, control characters, '%') written with show (single value) or print_to (sequence with generated "
        "separators, specs %$ / %li / %lf / %s) at a generated start position after a prefix, then read back with look_from / "
        "scan_from using the mirrored format, from a String and from a File, optionally with trailing text after the value. "
        "Oracle: value read == value written (Int exact, String byte-exact, Float |x-x'| <= 0.5e-6 + 1ulp(x)); reader's "
        "returned position == writer's returned position (String) / == number of characters written (File, also ftell). "
        "non-trivial = a String containing a character show escapes, or a Float with |x| >= 2^24 or a fractional part, or >= 2 "
        "values, or pos > 0. distinct = distinct case JSON.")
ASSUMPTIONS = ["Float tolerance: the text carries 6 decimals (%f), so 0.5e-6 absolute + 1 ulp", "scan target Strings are pre-sized (as C's %s requires)"]

ESC = set(b"\a\b\f\n\r\t\v\\'\"?")


def prepare(tier):
    return {"ex_vm": build.executor("asan", "ex_vm"), "fz_fmt": build.executor("fuzz", "fz_fmt", extra_ldflags=["-fsanitize=fuzzer"])}


# coverage-guided companion (libFuzzer, ASan): the same target as C14's; its second half round-trips every generated
# Int / Float / String argument through show_to + look_from at a generated position with trailing text
FUZZ = [{"target": "fz_fmt", "runs": {"quick": 40000, "thorough": 20000000}, "max_len": 256}]


def _val():
    return st.one_of(
        gen.ints().map(lambda v: ["Int", "i:%d" % v]),
        gen.finite_floats().map(lambda x: ["Float", "f:%016x" % gen.f2b(x)]),
        # text lengths at and around powers of two (typical buffer sizes): 10^(L-8) prints as L characters with %f
        st.builds(lambda L, neg: (-1.0 if neg else 1.0) * 10.0 ** (L - 8 - (1 if neg else 0)),
                  st.sampled_from([15, 16, 17, 31, 32, 33, 63, 64, 65, 127, 128, 129, 255, 256, 257]), st.booleans()).map(lambda x: ["Float", "f:%016x" % gen.f2b(x)]),
        # magnitudes 10^k: the %f text has k+8 characters, so every text length up to ~320 occurs
        st.builds(lambda k, m, neg: (-1.0 if neg else 1.0) * m * 10.0 ** k, st.integers(0, 300), st.sampled_from([1.0, 1.5, 9.999]), st.booleans()).map(lambda x: ["Float", "f:%016x" % gen.f2b(x)]),
        st.sampled_from([16777217.0, 0.1, 1e22, 123456789.123, -0.000001, 2.0**53 + 2, 1e-7, 4503599627370497.5]).map(lambda x: ["Float", "f:%016x" % gen.f2b(x)]),
        st.one_of(gen.cbytes(16), st.binary(max_size=12).map(lambda b: bytes(c or 1 for c in b)),
                  st.sampled_from([b'a"b', b"a\nb", b"\\", b"\\n", b"'?\"", b"\x07\x08\x0c\r\t\x0b", b"%d %s", b"", b" lead", b"q\\\"q"]),
                  st.sampled_from([30, 31, 62, 63, 126, 127, 128, 254, 255]).map(lambda n: b"k" * n)).map(lambda b: ["String", "s:" + b.hex()]),
    )


@st.composite
def _case(draw):
    mode = draw(st.sampled_from(["show", "show", "print", "print"]))
    n = 1 if mode == "show" else draw(st.integers(1, 6))
    vals = [draw(_val()) for _ in range(n)]
    specs = []
    for v in vals:
        if mode == "show":
            specs.append("%$")
        elif v[0] == "Int":
            specs.append(draw(st.sampled_from(["%$", "%li"])))
        elif v[0] == "Float":
            specs.append(draw(st.sampled_from(["%$", "%lf"])))
        else:
            b = bytes.fromhex(v[1][2:])
            ok_s = len(b) > 0 and not any(c in (9, 10, 11, 12, 13, 32) for c in b)
            specs.append(draw(st.sampled_from(["%$", "%$", "%s"])) if ok_s else "%$")
    seps = [draw(st.sampled_from([" ", ",", "; ", " | ", ""])) for _ in range(n - 1)]
    prefix = draw(st.one_of(st.just(b""), gen.cbytes(8)))
    return {"mode": mode, "vals": vals, "specs": specs, "seps": seps, "prefix": prefix.hex(),
            "pos": draw(st.sampled_from([0, 0, 1000, 400])), "sink": draw(st.sampled_from(["string", "string", "file"])),
            "trail": draw(st.booleans()),
            # what the String destinations hold before the read (a reused destination: empty, one character, longer),
            # and whether the same text is read a second time into the same destinations
            "dst": draw(st.sampled_from(["xx", "", "x", "x", "previous value, longer than most"])),
            "again": draw(st.booleans())}


def strategy(tier):
    return _case()


def _fix_seps(case):
    """separators must keep the text unambiguous for the mirrored scan"""
    seps = []
    for i, s in enumerate(case["seps"]):
        left, right = case["specs"][i], case["specs"][i + 1]
        lv = case["vals"][i]
        if left == "%s":
            s = " " + s.strip() if s.strip() else " "
            if not s.startswith(" "):
                s = " " + s
        elif s == "" and not (left == "%$" and lv[0] == "String"):
            s = " "
        seps.append(s)
    return seps


def _close(a, b):
    if a == b:
        return True
    ulp = abs(a) * 2.0**-52
    return abs(a - b) <= 0.5e-6 + ulp


def run_case(ctx, case):
    ex = ctx.executor("ex_vm")
    vals, specs = case["vals"], case["specs"]
    seps = _fix_seps(case)
    prefix = bytes.fromhex(case["prefix"])
    pos = case["pos"] * (len(prefix) + 1) // 1001
    fmt = b""
    for i, sp in enumerate(specs):
        fmt += sp.encode()
        if i < len(seps):
            fmt += seps[i].encode()
    ev = ["mode=" + case["mode"], "sink=" + case["sink"]] + ["spec=" + s for s in specs]
    nt = len(vals) >= 2 or pos > 0
    for v in vals:
        if v[0] == "String" and any(c in ESC for c in bytes.fromhex(v[1][2:])):
            nt = True
            ev.append("escaped-char")
        if v[0] == "Float":
            x = gen.b2f(int(v[1][2:], 16))
            if abs(x) >= 2.0**24 or x != math.floor(x):
                nt = True
    # ---- phase 1: write
    P = Prog()
    res = {}
    if case["mode"] == "show":
        P.add("show %s %d s:%s" % (vals[0][1], pos, prefix.hex()), lambda o: res.__setitem__("w", o))
    else:
        P.add("new %%0 heap t:String s:%s" % prefix.hex())
        P.add("print %%0 %d %s %s" % (pos, fmt.hex(), " ".join(v[1] for v in vals)), lambda o: res.__setitem__("w", o))
    fail, obs = P.run(ex)
    if fail:
        return Result(fail, nt, ev, None)
    m = re.match(r"ok ret=(-?\d+) s=([0-9a-f]*)$", res.get("w", ""))
    if not m:
        return Result("writer failed: %s" % res.get("w", "")[:200], nt, ev, None)
    wret, full = int(m.group(1)), bytes.fromhex(m.group(2))
    text = full[pos:]
    if full[:pos] != prefix[:pos] or wret != pos + len(text):
        return Result("writer: prefix/position inconsistent (ret=%d, pos=%d, text %r)" % (wret, pos, full[:200]), nt, ev, None)
    trail = b" #" if case["trail"] else b""
    # ---- phase 2: read back
    P = Prog()
    READ = []
    dsts = []
    for i, v in enumerate(vals):
        s = 10 + i
        if v[0] == "Int":
            P.add("new %%%d heap t:Int i:-77" % s)
        elif v[0] == "Float":
            P.add("new %%%d heap t:Float f:%016x" % (s, gen.f2b(-77.5)))
        else:
            P.add("new %%%d heap t:String s:%s" % (s, case.get("dst", "xx").encode().hex()))
            if specs[i] == "%s":
                P.add("resize %%%d %d" % (s, len(bytes.fromhex(v[1][2:])) + 2))
        dsts.append("%%%d" % s)
    if case["sink"] == "string":
        src = full + trail
        if case["mode"] == "show":
            READ.append("look %s s:%s %d" % (dsts[0], src.hex(), pos))
            P.add(READ[0], lambda o: res.__setitem__("r", o))
        else:
            READ.append("scan s:%s %d %s %s" % (src.hex(), pos, fmt.hex(), " ".join(dsts)))
            P.add(READ[0], lambda o: res.__setitem__("r", o))
        want_ret = wret
    else:
        src = text + trail
        if not src:
            return Result(None, nt, ev, None)
        if case["mode"] == "show":
            READ.append("flook %s %s" % (dsts[0], src.hex()))
            P.add(READ[0], lambda o: res.__setitem__("r", o))
        else:
            READ.append("fscan %s %s %s" % (src.hex(), fmt.hex(), " ".join(dsts)))
            P.add(READ[0], lambda o: res.__setitem__("r", o))
        want_ret = len(text)
    if case.get("again"):
        # the destinations now hold the values just read: reading the same text again must give the same answer
        P.add(READ[0], lambda o: None if o == res.get("r") else "second read into the same destinations answered %s, the first one %s" % (o[:200], res.get("r", "")[:200]))
    fail, obs = P.run(ex)
    if fail:
        return Result(fail + " [text %r]" % text[:120], nt, ev, None)
    r = res.get("r", "")
    m = re.match(r"ok ret=(-?\d+) (?:at=(-?\d+) )?v=(.*)$", r)
    if not m:
        return Result("reader failed on text %r (format %r): %s" % (text[:200], fmt, r[:200]), nt, ev, None)
    rret = int(m.group(1))
    got = m.group(3).split(",") if m.group(3) else []
    if len(got) != len(vals):
        return Result("reader returned %d values for %d written" % (len(got), len(vals)), nt, ev, None)
    for v, g in zip(vals, got):
        if v[0] == "Int":
            if g != "i%d" % int(v[1][2:]):
                return Result("Int %s read back as %s (text %r)" % (v[1], g, text[:120]), nt, ev, None)
        elif v[0] == "String":
            if g != "s" + v[1][2:]:
                return Result("String %r read back as %r (text %r)" % (bytes.fromhex(v[1][2:]), bytes.fromhex(g[1:]) if g.startswith("s") and g != "sNULLSTR" else g, text[:120]), nt, ev, None)
        else:
            x = gen.b2f(int(v[1][2:], 16))
            if not g.startswith("f"):
                return Result("Float read back as %s" % g, nt, ev, None)
            y = gen.b2f(int(g[1:], 16))
            if not _close(x, y):
                return Result("Float %r read back as %r (text %r)" % (x, y, text[:60]), nt, ev, None)
    if rret != want_ret:
        return Result("reader returned position %d, writer wrote up to %d (text %r, format %r)" % (rret, want_ret, text[:120], fmt), nt, ev, None)
    if m.group(2) is not None:
        at = int(m.group(2))
        # stdio may have looked one character ahead; it must not have consumed beyond that
        if at > len(text) + (1 if trail else 0) or at < len(text):
            return Result("File position after reading is %d, text length %d" % (at, len(text)), nt, ev, None)
    return Result(None, nt, ev, None)


KNOWN = []
