"""C15 - show/look and print/scan round-trip values."""
import re, math
from hypothesis import strategies as st
from .. import build, gen
from ..core import Result, HarnessBug
from ..vm import Prog, expect_ok

ID = "C15"
ALT_BUILD = True          # a quarter of the workers run the gcc -O0 build (core.py)
LEVEL = "exploration"
BUDGET = {"quick": 3000, "thorough": 900000}
RULE = ("case = 1-6 values (Int full range, Float incl. huge/tiny/denormal and +-inf, String over bytes 1..255 incl. quotes, "
        "backslashes, control characters, '%') written with show (single value) or print_to (sequence with generated "
        "separators incl. a literal '%' written as %%, none before a quoted String) at a generated start position after a "
        "prefix. Writer specifications: %$; for Int every conversion d i u o x X with every length modifier (none hh h l ll j z "
        "t), optional + / space / 0 / # flag, right-justifying width, precision; for Float f F e E g G a A with l (read as "
        "double) or without (read as float), flags, width, precision 0-17; %s for space-free Strings. The text is read back "
        "with look_from / scan_from (reader specification = the writer's conversion and length modifier without flags, width, "
        "precision), from a String at the writer's position and from a File (stream at offset 0 with position 0, or standing "
        "behind the prefix and / or with a non-zero position passed: a File ignores the position, it is only carried along), optionally with trailing text after the value, optionally crossing the "
        "pairs (show -> scan_from %$, print_to -> look_from). Oracle: value read == value written: Int = the value truncated "
        "to the C type the length modifier names and widened again (sign-extended for d i, zero-extended for u o x X; exact "
        "for 64-bit modifiers), String byte-exact, Float |x-x'| <= half a unit of the last printed digit + 1 ulp(x) (+ float "
        "rounding 2^-24 |x| when read without l; %a without precision exact); reader's returned position == writer's returned "
        "position (String) / == start + number of characters written (File, also ftell). non-trivial = a String containing "
        "a character show escapes, or a Float with |x| >= 2^24 or a fractional part, or >= 2 values, or pos > 0, or a "
        "specification other than %$. distinct = distinct case JSON.")
ASSUMPTIONS = ["Float tolerance: half a unit of the last digit the specification prints (%f: 0.5e-6 absolute) + 1 ulp",
               "scan target Strings are pre-sized (as C's %s requires)",
               "a Float written without 'l' is read into a C float first (C's meaning of %f in scanf): such values stay inside the float range and float rounding is allowed",
               "'-' flag (trailing padding is not part of a number), %i with leading zeros (read as octal) and precision 0 (0 prints as nothing) are not generated; a padded number directly after a white-space separator is not generated (a white-space directive of scanf eats the padding, the literal's length is what scan_from counts)"]

ESC = set(b"\a\b\f\n\r\t\v\\'\"?")
INT_LMS = ["", "hh", "h", "l", "ll", "j", "z", "t"]
BITS = {"": 32, "hh": 8, "h": 16}
SPEC_RE = re.compile(r"%([-+ #0]*)(\d*)(?:\.(\d+))?(hh|h|ll|l|j|z|t)?([a-zA-Z$])$")


def prepare(tier):
    return {"ex_vm": build.executor("asan", "ex_vm"), "fz_fmt": build.executor("fuzz", "fz_fmt", extra_ldflags=["-fsanitize=fuzzer"])}


# coverage-guided companion (libFuzzer, ASan): the same target as C14's; its second half round-trips every generated
# Int / Float / String argument through show_to + look_from at a generated position with trailing text, and through
# print_to + scan_from with a numeric specification
FUZZ = [{"target": "fz_fmt", "runs": {"quick": 40000, "thorough": 20000000}, "max_len": 256}]


def _val():
    return st.one_of(
        gen.ints().map(lambda v: ["Int", "i:%d" % v]),
        gen.finite_floats().map(lambda x: ["Float", "f:%016x" % gen.f2b(x)]),
        # text lengths at and around powers of two (typical buffer sizes): 10^(L-8) prints as L characters with %f
        st.builds(lambda L, neg: (-1.0 if neg else 1.0) * 10.0 ** (L - 8 - (1 if neg else 0)),
                  st.sampled_from([15, 16, 17, 31, 32, 33, 63, 64, 65, 127, 128, 129, 255, 256, 257]), st.booleans()).map(lambda x: ["Float", "f:%016x" % gen.f2b(x)]),
        # magnitudes 10^k: the %f text has k+8 characters, so every text length up to ~320 occurs
        st.builds(lambda k, m, neg: (-1.0 if neg else 1.0) * m * 10.0 ** k, st.integers(0, 300), st.sampled_from([1.0, 1.5, 9.999]), st.booleans()).map(lambda x: ["Float", "f:%016x" % gen.f2b(x)]),
        st.sampled_from([16777217.0, 0.1, 1e22, 123456789.123, -0.000001, 2.0**53 + 2, 1e-7, 4503599627370497.5, float("inf"), float("-inf"),
                         9.9999996, 0.99999995, 3.4028234e38, 1.5e-38]).map(lambda x: ["Float", "f:%016x" % gen.f2b(x)]),
        st.one_of(gen.cbytes(16), st.binary(max_size=12).map(lambda b: bytes(c or 1 for c in b)),
                  st.sampled_from([b'a"b', b"a\nb", b"\\", b"\\n", b"'?\"", b"\x07\x08\x0c\r\t\x0b", b"%d %s", b"", b" lead", b"q\\\"q"]),
                  st.sampled_from([30, 31, 62, 63, 126, 127, 128, 254, 255]).map(lambda n: b"k" * n)).map(lambda b: ["String", "s:" + b.hex()]),
    )


@st.composite
def _int_spec(draw):
    conv = draw(st.sampled_from("diuoxX"))
    lm = draw(st.sampled_from(INT_LMS))
    if conv in "di":
        flags = draw(st.sampled_from(["", "", "+", " ", "0", "+0"]))
    elif conv == "u":
        flags = draw(st.sampled_from(["", "", "0"]))
    else:
        flags = draw(st.sampled_from(["", "", "#", "0", "#0"]))
    width = draw(st.sampled_from([None, None, 1, 3, 8, 24]))
    prec = draw(st.sampled_from([None, None, None, 1, 5, 20]))
    if conv == "i":                 # leading zeros would make the reader's %i choose octal
        flags, prec = flags.replace("0", ""), None
    if width is None:
        flags = flags.replace("0", "")
    return "%" + flags + ("" if width is None else str(width)) + ("" if prec is None else ".%d" % prec) + lm + conv


@st.composite
def _flt_spec(draw):
    conv = draw(st.sampled_from("ffFeEgGaA"))
    lm = draw(st.sampled_from(["l", "l", "l", ""]))
    flags = draw(st.sampled_from(["", "", "", "+", " ", "0", "#", "+0", "#0"]))
    width = draw(st.sampled_from([None, None, 1, 9, 30]))
    prec = draw(st.sampled_from([None, None, 0, 1, 3, 6, 12, 17]))
    if conv in "aA" and prec is not None and prec > 13:
        prec = 13
    if width is None:
        flags = flags.replace("0", "")
    return "%" + flags + ("" if width is None else str(width)) + ("" if prec is None else ".%d" % prec) + lm + conv


@st.composite
def _case(draw):
    mode = draw(st.sampled_from(["show", "show", "print", "print", "print"]))
    n = 1 if mode == "show" else draw(st.integers(1, 6))
    vals = [draw(_val()) for _ in range(n)]
    specs = []
    for v in vals:
        if mode == "show":
            specs.append("%$")
        elif v[0] == "Int":
            specs.append(draw(st.one_of(st.sampled_from(["%$", "%li"]), _int_spec(), _int_spec())))
        elif v[0] == "Float":
            specs.append(draw(st.one_of(st.sampled_from(["%$", "%lf"]), _flt_spec(), _flt_spec())))
        else:
            b = bytes.fromhex(v[1][2:])
            ok_s = len(b) > 0 and not any(c in (9, 10, 11, 12, 13, 32) for c in b)
            specs.append(draw(st.sampled_from(["%$", "%$", "%s"])) if ok_s else "%$")
    seps = [draw(st.sampled_from([" ", ",", "; ", " | ", "", "", "%%", " %% ", "%%;"])) for _ in range(n - 1)]
    prefix = draw(st.one_of(st.just(b""), gen.cbytes(8)))
    return {"mode": mode, "vals": vals, "specs": specs, "seps": seps, "prefix": prefix.hex(),
            "pos": draw(st.sampled_from([0, 0, 1000, 400])), "sink": draw(st.sampled_from(["string", "string", "file", "file"])),
            "trail": draw(st.sampled_from([False, True, True, ",", "\n", ")", "\"q\""])),
            # what the String destinations hold before the read (a reused destination: empty, one character, longer),
            # and whether the same text is read a second time into the same destinations
            "dst": draw(st.sampled_from(["xx", "", "x", "x", "previous value, longer than most"])),
            "again": draw(st.booleans()),
            # File source: the stream stands at offset pos behind the prefix and / or a non-zero pos is passed on (a File
            # ignores pos, it is only carried along), instead of offset 0 / pos 0
            "fpos": draw(st.sampled_from([False, False, "both", "offset", "pos"])),
            # a single value: written by show, read by scan_from "%$"; written by print_to, read by look_from
            "cross": draw(st.sampled_from([False, False, True]))}


def strategy(tier):
    return _case()


def _parse(spec):
    m = SPEC_RE.match(spec)
    if not m:
        raise HarnessBug("specification " + spec)
    return m.group(1), (int(m.group(2)) if m.group(2) else None), (int(m.group(3)) if m.group(3) is not None else None), m.group(4) or "", m.group(5)


def _normalise(case):
    """-> (writer specs, reader specs, separators): keeps the text unambiguous for the reader
    (all adjustments are deterministic functions of the case)"""
    vals = case["vals"]
    specs = list(case["specs"])
    seps = []
    for i, s in enumerate(case["seps"]):
        left, right = specs[i], specs[i + 1]
        lv, rv = vals[i], vals[i + 1]
        if left == "%s":
            s = " " + s.strip() if s.strip() else " "
        elif s == "" and not (left == "%$" and lv[0] == "String") and not (right == "%$" and rv[0] == "String"):
            s = " "            # two numbers need something between them; a quoted String delimits itself
        seps.append(s)
    readers = []
    for i, sp in enumerate(specs):
        if sp in ("%$", "%s"):
            readers.append(sp)
            continue
        flags, width, prec, lm, conv = _parse(sp)
        v = vals[i]
        if v[0] == "Float" and lm == "":
            x = gen.b2f(int(v[1][2:], 16))
            if not (x == 0.0 or abs(x) == float("inf") or 1.2e-38 <= abs(x) <= 3.4e38):
                lm = "l"        # outside the float range: written and read as a double
        if i > 0 and seps[i - 1][-1:] in (" ", "\t", "\n") and (width is not None or " " in flags):
            # a white-space directive would eat the padding: no padding directly after white space
            width, flags = None, flags.replace(" ", "").replace("0", "")
        specs[i] = "%" + flags + ("" if width is None else str(width)) + ("" if prec is None else ".%d" % prec) + lm + conv
        readers.append("%" + lm + conv)
    return specs, readers, seps


def _expect_int(v, lm, conv):
    """what C's printf / scanf pair gives: truncated to the named type on write, widened on read"""
    bits = BITS.get(lm, 64)
    u = v % (1 << bits)
    if conv in "di":
        return u - (1 << bits) if u >= (1 << (bits - 1)) else u
    return u if bits < 64 else v


def _ulp(a):
    return abs(a) * 2.0**-52 if abs(a) != float("inf") else 0.0


def _float_tol(x, spec):
    """half a unit of the last digit `spec` prints for x (+ 1 ulp; + float rounding if read without 'l')"""
    if spec == "%$":
        flags, width, prec, lm, conv = "", None, 6, "l", "f"
    else:
        flags, width, prec, lm, conv = _parse(spec)
    if abs(x) == float("inf") or x == 0.0:
        return 0.0
    c = conv.lower()
    if c == "f":
        unit = 10.0 ** -(6 if prec is None else prec)
    elif c == "e":
        p = 6 if prec is None else prec
        e10 = int((("%%.%de" % p) % abs(x)).split("e")[1])          # the exponent the e style shows (after rounding)
        unit = 10.0 ** (e10 - p)
    elif c == "g":
        P = 6 if prec is None else (prec or 1)
        e10 = int(("%.17e" % abs(x)).split("e")[1])
        unit = 10.0 ** (e10 - P + 1)
    elif prec is None:
        unit = 0.0                                                   # %a shows every bit
    else:
        e2 = int(abs(x).hex().split("p")[1])
        unit = 2.0 ** e2 * 16.0 ** -prec
    tol = 0.5 * unit * (1 + 1e-9) + _ulp(x)
    if lm == "":
        tol += abs(x) * 2.0**-24 + 1.5e-45        # read into a C float first
    return tol


def run_case(ctx, case):
    ex = ctx.executor("ex_vm")
    vals = case["vals"]
    specs, readers, seps = _normalise(case)
    prefix = bytes.fromhex(case["prefix"])
    pos = case["pos"] * (len(prefix) + 1) // 1001
    fmt, rfmt = b"", b""
    for i, sp in enumerate(specs):
        fmt += sp.encode()
        rfmt += readers[i].encode()
        if i < len(seps):
            fmt += seps[i].encode()
            rfmt += seps[i].encode()
    mode = case["mode"]
    cross = bool(case.get("cross")) and len(vals) == 1 and (mode == "show" or specs[0] in ("%$", "%li", "%ld", "%lf", "%lli", "%ji"))
    ev = ["mode=" + mode, "sink=" + case["sink"]]
    nt = len(vals) >= 2 or pos > 0
    for i, sp in enumerate(specs):
        if sp in ("%$", "%s", "%li", "%lf"):
            ev.append("spec=" + sp)
        else:
            flags, width, prec, lm, conv = _parse(sp)
            ev.append("spec=%" + lm + conv)
            nt = True
            if flags or width is not None or prec is not None:
                ev.append("spec-flags/width/precision")
    if any("%%" in s for s in seps):
        ev.append("sep=%%")
    if any(s == "" for s in seps):
        ev.append("sep=none")
    if cross:
        ev.append("cross")
    for v in vals:
        if v[0] == "String" and any(c in ESC for c in bytes.fromhex(v[1][2:])):
            nt = True
            ev.append("escaped-char")
        if v[0] == "Float":
            x = gen.b2f(int(v[1][2:], 16))
            if abs(x) == float("inf"):
                ev.append("float=inf")
            elif abs(x) >= 2.0**24 or x != math.floor(x):
                nt = True
    # ---- phase 1: write
    P = Prog()
    res = {}
    if mode == "show":
        P.add("show %s %d s:%s" % (vals[0][1], pos, prefix.hex()), lambda o: res.__setitem__("w", o))
    else:
        P.add("new %%0 heap t:String s:%s" % prefix.hex())
        P.add("print %%0 %d %s %s" % (pos, fmt.hex(), " ".join(v[1] for v in vals)), lambda o: res.__setitem__("w", o))
    fail, obs = P.run(ex)
    if fail:
        return Result(fail, nt, ev, None)
    m = re.match(r"ok ret=(-?\d+) s=([0-9a-f]*)$", res.get("w", ""))
    if not m:
        return Result("writer failed: %s" % res.get("w", "")[:200], nt, ev, None)
    wret, full = int(m.group(1)), bytes.fromhex(m.group(2))
    text = full[pos:]
    if full[:pos] != prefix[:pos] or wret != pos + len(text):
        return Result("writer: prefix/position inconsistent (ret=%d, pos=%d, text %r)" % (wret, pos, full[:200]), nt, ev, None)
    tr = case["trail"]
    trail = b"" if tr is False else (b" #" if tr is True else tr.encode())
    if specs[-1] == "%s" and trail[:1] not in (b"", b" ", b"\n"):
        trail = b" " + trail          # C's %s reads up to white space
    # ---- phase 2: read back
    P = Prog()
    READ = []
    dsts = []
    for i, v in enumerate(vals):
        s = 10 + i
        if v[0] == "Int":
            P.add("new %%%d heap t:Int i:-77" % s)
        elif v[0] == "Float":
            P.add("new %%%d heap t:Float f:%016x" % (s, gen.f2b(-77.5)))
        else:
            P.add("new %%%d heap t:String s:%s" % (s, case.get("dst", "xx").encode().hex()))
            if specs[i] == "%s":
                P.add("resize %%%d %d" % (s, len(bytes.fromhex(v[1][2:])) + 2))
        dsts.append("%%%d" % s)
    use_look = (mode == "show") != cross          # look_from for show-written text, scan_from for print-written text, unless crossed
    if use_look and len(vals) != 1:
        raise HarnessBug("look needs one value")
    fpos = foff = 0
    if case["sink"] == "string":
        src = full + trail
        if use_look:
            READ.append("look %s s:%s %d" % (dsts[0], src.hex(), pos))
        else:
            READ.append("scan s:%s %d %s %s" % (src.hex(), pos, (rfmt if mode != "show" else b"%$").hex(), " ".join(dsts)))
        want_ret = wret
    else:
        how = case.get("fpos") or ""
        if how is True:
            how = "both"
        if how and pos > 0:
            fpos = pos if how in ("both", "pos") else 0          # the position passed to the reader
            foff = pos if how in ("both", "offset") else 0       # where the stream stands (behind the prefix)
            ev.append("file-reader=" + how)
        src = (full if foff else text) + trail
        if not src:
            return Result(None, nt, ev, None)
        if use_look:
            READ.append(("flookp %s %s %d %d" % (dsts[0], src.hex(), fpos, foff)) if how and pos > 0 else ("flook %s %s" % (dsts[0], src.hex())))
        else:
            f = (rfmt if mode != "show" else b"%$").hex()
            READ.append(("fscanp %d %d %s %s %s" % (fpos, foff, src.hex(), f, " ".join(dsts))) if how and pos > 0 else ("fscan %s %s %s" % (src.hex(), f, " ".join(dsts))))
        want_ret = fpos + len(text)
    P.add(READ[0], lambda o: res.__setitem__("r", o))
    if case.get("again"):
        # the destinations now hold the values just read: reading the same text again must give the same answer
        P.add(READ[0], lambda o: None if o == res.get("r") else "second read into the same destinations answered %s, the first one %s" % (o[:200], res.get("r", "")[:200]))
    fail, obs = P.run(ex)
    if fail:
        return Result(fail + " [text %r]" % text[:120], nt, ev, None)
    r = res.get("r", "")
    m = re.match(r"ok ret=(-?\d+) (?:at=(-?\d+) )?v=(.*)$", r)
    if not m:
        return Result("reader failed on text %r (writer format %r, reader format %r): %s" % (text[:200], fmt, rfmt, r[:200]), nt, ev, None)
    rret = int(m.group(1))
    got = m.group(3).split(",") if m.group(3) else []
    if len(got) != len(vals):
        return Result("reader returned %d values for %d written" % (len(got), len(vals)), nt, ev, None)
    for i, (v, g) in enumerate(zip(vals, got)):
        if v[0] == "Int":
            want = int(v[1][2:])
            if specs[i] != "%$":
                flags, width, prec, lm, conv = _parse(specs[i])
                want = _expect_int(want, lm, conv)
            if g != "i%d" % want:
                return Result("Int %s written with %s read back as %s, expected %d (text %r)" % (v[1], specs[i], g, want, text[:120]), nt, ev, None)
        elif v[0] == "String":
            if g != "s" + v[1][2:]:
                return Result("String %r read back as %r (text %r)" % (bytes.fromhex(v[1][2:]), bytes.fromhex(g[1:]) if g.startswith("s") and g != "sNULLSTR" else g, text[:120]), nt, ev, None)
        else:
            x = gen.b2f(int(v[1][2:], 16))
            if not g.startswith("f"):
                return Result("Float read back as %s" % g, nt, ev, None)
            y = gen.b2f(int(g[1:], 16))
            tol = _float_tol(x, specs[i])
            # a text rounded upwards beyond the largest double (DBL_MAX with few digits prints as 2e+308) reads as inf
            over = abs(y) == float("inf") and (y > 0) == (x > 0) and abs(x) + tol >= 1.7976931348623157e308
            # the same at the upper end of a C float when the specification has no 'l' (0x1.8p+127 printed with %.0a is
            # 0x2p+127 = 2^128, which a float cannot hold)
            lm_i = "l" if specs[i] == "%$" else _parse(specs[i])[3]
            over = over or (lm_i == "" and abs(y) == float("inf") and (y > 0) == (x > 0) and abs(x) + tol >= 3.4028234663852886e38)
            if not (x == y or abs(x - y) <= tol or over):
                return Result("Float %r written with %s read back as %r, tolerance %g (text %r)" % (x, specs[i], y, tol, text[:80]), nt, ev, None)
    if rret != want_ret:
        return Result("reader returned position %d, writer wrote up to %d (text %r, format %r)" % (rret, want_ret, text[:120], fmt), nt, ev, None)
    if m.group(2) is not None:
        at = int(m.group(2)) - foff
        # stdio may have looked one character ahead; it must not have consumed beyond that
        if at > len(text) + (1 if trail else 0) or at < len(text):
            return Result("File position after reading is %d characters behind the start, text length %d" % (at, len(text)), nt, ev, None)
    return Result(None, nt, ev, None)


KNOWN = []
