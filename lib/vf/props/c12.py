"""C12 - a failed operation is reported as an exception and changes nothing."""
from hypothesis import strategies as st
from .. import build, gen
from ..core import Result, HarnessBug
from ..vm import Prog, expect_ok, expect_exc, lit_repr
from . import seqs, maps

ID = "C12"
LEVEL = "fault_enumeration"
BUDGET = {"quick": 1500, "thorough": 360000}
RULE = ("case = a valid op prefix (generators of C02-C04/C16) bringing an Array/List/Tuple/Table/Tree/String/Range/Slice/"
        "Int to some state, then exactly ONE invalid operation from the fault matrix {get,set,push_at,pop_at,pop,rem,resize,"
        "concat,push,print_to,method call} x {index = len, -len-1, +-far, INT64_MAX, INT64_MIN; pop from empty; absent key / "
        "element; key or value of the wrong type; NULL object / NULL argument; class not implemented; member left empty; too "
        "few format arguments; unhonourable resize}, then a valid suffix. Oracle: the call raised, the exception is in the "
        "admissible set for that fault, the object's full dump (and for Probe elements the token ledger) and the exception "
        "depth are unchanged, the suffix agrees with the reference model, no sanitizer report. Every matrix cell is visited at "
        "container sizes 0, 1, 7 by the enumerated phase; the rest is sampled. non-trivial = fault applied to a non-empty "
        "object and followed by >= 3 valid ops. distinct = distinct case JSON.")
ASSUMPTIONS = ["admissible exception sets are taken from the property statement (index -> IndexOutOfBoundsError, absent key -> KeyError, absent element -> ValueError, "
               "NULL -> ValueError, wrong type -> TypeError/ValueError/ClassError, unimplemented -> ClassError, too few args -> FormatError, resize -> FormatError/ResourceError)",
               "known findings switch off exactly one assertion of one cell (see known_findings.txt)"]

IDX = "IndexOutOfBoundsError"
WRONG = ("TypeError", "ValueError", "ClassError")
I64MAX, I64MIN = 2**63 - 1, -2**63


def prepare(tier):
    return {"ex_vm": build.executor("asan", "ex_vm")}


# ---- fault descriptions -----------------------------------------------------------------

SEQ_FAULTS = ["get-idx", "set-idx", "pop_at-idx", "push_at-idx", "pop-empty", "rem-absent", "push-wrongtype", "push-null",
              "set-wrongtype", "push_at-wrongtype", "concat-wrongitem", "append-wrongtype", "resize-grow-tuple",
              "get-wrongkey", "null-object", "concat-null", "sort-list"]
MAP_FAULTS = ["get-absent", "rem-absent", "set-wrongkey", "set-wrongval", "get-wrongkey", "mem-wrongkey", "rem-wrongkey",
              "resize-shrink", "set-nullkey", "set-nullval", "get-nullkey", "null-object", "push-on-map"]
STR_FAULTS = ["rem-absent", "concat-null", "concat-int", "get-member-empty", "print-too-few", "push-unimplemented", "cint-unimplemented"]
VAL_FAULTS = ["range-get-idx", "slice-get-idx", "int-len", "int-push", "int-assign-string", "float-assign-string",
              "print-too-few-string", "type-call-new-null", "range-push", "int-cstr"]
IDXKINDS = ["len", "neglen1", "far", "negfar", "max", "min"]


@st.composite
def _case(draw):
    fam = draw(st.sampled_from(["seq", "seq", "map", "map", "str", "val"]))
    if fam == "seq":
        if draw(st.integers(0, 2)) == 0:
            base = draw(seqs.seq_case(kinds=("Tuple",), ets=("Int", "String"), max_ops=14))
        else:
            base = draw(seqs.seq_case(kinds=("Array", "List"), ets=("Int", "String", "Probe"), max_ops=14))
        return {"fam": fam, "base": base, "at": draw(st.integers(0, 1000)), "fault": draw(st.sampled_from(SEQ_FAULTS)),
                "idx": draw(st.sampled_from(IDXKINDS))}
    if fam == "map":
        base = draw(maps.map_case(draw(st.sampled_from(["Table", "Tree"]))))
        base["ops"] = base["ops"][:16]
        return {"fam": fam, "base": base, "at": draw(st.integers(0, 1000)), "fault": draw(st.sampled_from(MAP_FAULTS)),
                "k": draw(st.integers(0, 1000))}
    if fam == "str":
        return {"fam": fam, "init": draw(gen.cbytes(12)).hex(), "fault": draw(st.sampled_from(STR_FAULTS)),
                "suffix": draw(gen.cbytes(5)).hex()}
    return {"fam": "val", "fault": draw(st.sampled_from(VAL_FAULTS)), "idx": draw(st.sampled_from(IDXKINDS)),
            "n": draw(st.integers(0, 9)), "step": draw(st.sampled_from([1, 2, 3, -1, -2]))}


def strategy(tier):
    return _case()


def bad_index(kind, n, for_push_at=False):
    hi = n + 1 if for_push_at else n
    lo = -(n + 2) if for_push_at else -(n + 1)
    return {"len": hi, "neglen1": lo, "far": n + 1000, "negfar": -(n + 1000), "max": I64MAX, "min": I64MIN}[kind]


OTHER = {"Int": "s:7a", "String": "i:5", "Probe": "i:5", "Blob": "i:5"}      # a value of a different type than the element type
KNOWN_KEYS = {}


def known_off(key):
    """assertions switched off by a listed known finding (set by core through KNOWN reproduction status)"""
    return key in _load_known()


_known_cache = None


def _load_known():
    global _known_cache
    if _known_cache is None:
        from ..core import load_known
        _known_cache = load_known().get(ID, {})
    return _known_cache


def run_seq(ctx, case):
    base = case["base"]
    r = seqs.SeqRun(base)
    P = r.P
    if base["et"] == "Probe":
        P.add("pmode 0")
    r.start()
    ops = base["ops"]
    cut = case["at"] * (len(ops) + 1) // 1001
    for op in ops[:cut]:
        r.apply(op)
    n = len(r.model)
    f = case["fault"]
    c = r.c
    et = base["et"]
    kind = base["kind"]
    live_before = None
    if et == "Probe":
        P.add("live", expect_ok("live=%d ledger=-" % n))
    applicable = True
    strict_unchanged = True
    key = None
    if f in ("get-idx", "set-idx", "pop_at-idx"):
        i = bad_index(case["idx"], n)
        if f == "get-idx":
            P.add("get %s i:%d" % (c, i), expect_exc(IDX))
        elif f == "set-idx":
            v = r.elem_arg(seqs_default(et)) if r.room() else None
            if v is None:
                applicable = False
            else:
                P.add("set %s i:%d %s" % (c, i, v), expect_exc(IDX))
        else:
            P.add("pop_at %s i:%d" % (c, i), expect_exc(IDX))
    elif f == "push_at-idx":
        i = bad_index(case["idx"], n, True)
        v = r.elem_arg(seqs_default(et)) if r.room() else None
        if v is None:
            applicable = False
        else:
            P.add("push_at %s %s i:%d" % (c, v, i), expect_exc(IDX))
    elif f == "pop-empty":
        if n != 0:
            P.add("resize %s 0" % c)
            r.model[:] = []
            n = 0
            if et == "Probe":
                P.add("live", expect_ok("live=0 ledger=-"))
        # the empty container is reached in different ways: just cleared; empty but with reserved capacity;
        # empty after another rejected operation (which may have reserved space before failing)
        how = case["idx"]
        if how in ("neglen1", "min") and kind == "Array":
            P.add("resize %s %d" % (c, 3 + case["at"] % 9))
        elif how in ("far", "max") and kind != "Tuple":
            P.add("push %s %s" % (c, OTHER[et]), expect_exc(*WRONG))
            r.check()
        elif how == "negfar" and kind != "Tuple":
            P.add("push %s null" % c, expect_exc("ValueError"))
        P.add("pop %s" % c, expect_exc(IDX))
    elif f == "rem-absent":
        absent = {"Int": "i:424242", "String": "s:6e6f7065", "Probe": "p:424242"}[et]
        P.add("rem %s %s" % (c, absent), expect_exc("ValueError"))
    elif f in ("push-wrongtype", "append-wrongtype", "set-wrongtype", "push_at-wrongtype"):
        if kind == "Tuple":
            applicable = False        # tuples hold any object
        else:
            bad = OTHER[et]
            if f == "push-wrongtype":
                P.add("push %s %s" % (c, bad), expect_exc(*WRONG))
            elif f == "append-wrongtype":
                P.add("append %s %s" % (c, bad), expect_exc(*WRONG))
            elif f == "set-wrongtype":
                if n == 0:
                    applicable = False
                else:
                    P.add("set %s i:%d %s" % (c, case["at"] % n, bad), expect_exc(*WRONG))
                    if et == "String":
                        pass
            else:
                if n == 0:
                    applicable = False
                else:
                    key = "array-push_at-wrongtype-unchanged"
                    P.add("push_at %s %s i:%d" % (c, bad, case["at"] % n), expect_exc(*WRONG))
    elif f == "push-null":
        if kind == "Tuple":
            applicable = False
        else:
            P.add("push %s null" % c, expect_exc("ValueError"))
    elif f == "concat-wrongitem":
        if kind == "Tuple":
            applicable = False
        else:
            good = seqs_default(et)
            P.add("new %9 heap t:Tuple")
            P.add("tmp %%90 %s" % good)
            P.add("tmp %%91 %s" % OTHER[et])
            P.add("push %9 %90")
            P.add("push %9 %91")
            P.add("concat %s %%9" % c, expect_exc(*WRONG))
            key = "concat-partial-append"
            if known_off(key) and not case.get("strict"):
                # listed finding: the items before the bad one stay appended.  Only the 'unchanged' assertion of this
                # cell is replaced (by: exactly the good prefix was appended); raised / exception kind / depth /
                # ledger / suffix are still checked.
                r.model.append(good)
                key = None
    elif f == "concat-null":
        P.add("concat %s null" % c, expect_exc("ValueError"))
    elif f == "resize-grow-tuple":
        if kind != "Tuple":
            applicable = False
        else:
            P.add("resize %s %d" % (c, n + 1 + case["at"] % 5), expect_exc("FormatError", "ResourceError"))
    elif f == "get-wrongkey":
        P.add("get %s s:78" % c, expect_exc(*WRONG))
    elif f == "null-object":
        P.add("push null i:1", expect_exc("ValueError"))
        P.add("len null", expect_exc("ValueError"))
    elif f == "sort-list":
        if kind != "List":
            applicable = False
        else:
            P.add("sort %s" % c, expect_exc("ClassError"))
    else:
        raise HarnessBug(f)
    if not applicable:
        return None
    # unchanged: full dump against the model, ledger, then the valid suffix
    r.check()
    if et == "Probe":
        P.add("live", expect_ok("live=%d ledger=-" % len(r.model)))
    suffix = ops[cut:]
    for op in suffix:
        r.apply(op)
    r.finish()
    if et == "Probe":
        P.add("live", expect_ok("live=0 ledger=-"))
    fail, obs = P.run(ctx.executor("ex_vm"))
    return fail, (n > 0 and len(suffix) >= 3), ["seq:" + f, "kind=" + kind]


def seqs_default(et):
    return {"Int": "i:5", "String": "s:6868", "Probe": "p:5"}[et]


def run_map(ctx, case):
    base = case["base"]
    r = maps.MapRun(base)
    P = r.P
    r.start()
    ops = base["ops"]
    cut = case["at"] * (len(ops) + 1) // 1001
    for op in ops[:cut]:
        r.apply(op)
    n = len(r.model)
    f = case["fault"]
    c = r.c
    kt, vt, kind = base["kt"], base["vt"], base["kind"]
    absent = None
    for k in r.uni + [maps.filler_key(kt, 777)]:
        if k not in r.model:
            absent = k
            break
    goodk = r.uni[case["k"] % len(r.uni)]
    goodv = maps.filler_val(vt, 1)
    badk = OTHER[kt]
    badv = OTHER[vt]
    applicable = True
    if f == "get-absent":
        P.add("get %s %s" % (c, absent), expect_exc("KeyError"))
    elif f == "rem-absent":
        P.add("rem %s %s" % (c, absent), expect_exc("KeyError"))
    elif f == "set-wrongkey":
        P.add("set %s %s %s" % (c, badk, goodv), expect_exc(*WRONG))
    elif f == "set-wrongval":
        P.add("set %s %s %s" % (c, goodk, badv), expect_exc(*WRONG))
    elif f == "get-wrongkey":
        P.add("get %s %s" % (c, badk), expect_exc(*WRONG))
    elif f == "mem-wrongkey":
        P.add("mem %s %s" % (c, badk), expect_exc(*WRONG))
    elif f == "rem-wrongkey":
        P.add("rem %s %s" % (c, badk), expect_exc(*WRONG))
    elif f == "resize-shrink":
        if kind == "Table":
            if n < 2:
                applicable = False
            else:
                P.add("resize %s %d" % (c, 1 + case["k"] % (n - 1)), expect_exc("FormatError", "ResourceError"))
        else:
            P.add("resize %s %d" % (c, 1 + case["k"] % 50), expect_exc("FormatError", "ResourceError"))
    elif f == "set-nullkey":
        P.add("set %s null %s" % (c, goodv), expect_exc("ValueError"))
    elif f == "set-nullval":
        P.add("set %s %s null" % (c, goodk), expect_exc("ValueError"))
    elif f == "get-nullkey":
        P.add("get %s null" % c, expect_exc("ValueError"))
    elif f == "null-object":
        P.add("set null %s %s" % (goodk, goodv), expect_exc("ValueError"))
        P.add("get null %s" % goodk, expect_exc("ValueError"))
    elif f == "push-on-map":
        P.add("push %s %s" % (c, goodk), expect_exc("ClassError"))
    else:
        raise HarnessBug(f)
    if not applicable:
        return None
    r.check()
    if kt == "Probe" or vt == "Probe":
        P.add("live", expect_ok("live=%d ledger=-" % (((kt == "Probe") + (vt == "Probe")) * len(r.model))))
    suffix = ops[cut:]
    for op in suffix:
        r.apply(op)
    r.finish()
    fail, obs = P.run(ctx.executor("ex_vm"))
    return fail, (n > 0 and len(suffix) >= 3), ["map:" + f, "kind=" + kind]


def run_str(ctx, case):
    P = Prog()
    model = bytes.fromhex(case["init"])
    P.add("new %%0 heap t:String s:%s" % model.hex())
    f = case["fault"]
    key = None
    if f == "rem-absent":
        s = b"\x01zz"
        while s in model:
            s += b"\x02"
        P.add("rem %%0 s:%s" % s.hex(), expect_exc("ValueError"))
    elif f == "concat-null":
        P.add("concat %0 null", expect_exc("ValueError"))
    elif f == "concat-int":
        P.add("concat %0 i:5", expect_exc(*WRONG))
    elif f == "get-member-empty":
        P.add("get %0 i:0", expect_exc("ClassError"))
        P.add("set %0 i:0 i:1", expect_exc("ClassError"))
    elif f == "print-too-few":
        key = "print-too-few-partial-output"
        P.add("print %%0 %d %s i:1" % (len(model), b"%i %i".hex()), expect_exc("FormatError"))
        if known_off(key) and not case.get("strict"):
            # listed finding: the conversions before the missing argument were already written
            model = model + b"1 "
    elif f == "push-unimplemented":
        P.add("push %0 i:1", expect_exc("ClassError"))
        P.add("pop %0", expect_exc("ClassError"))
    elif f == "cint-unimplemented":
        P.add("cint %0", expect_exc("ClassError"))
        P.add("cfloat %0", expect_exc("ClassError"))
    else:
        raise HarnessBug(f)
    P.add("cstr %0", expect_ok(model.hex()))
    suf = bytes.fromhex(case["suffix"])
    P.add("concat %%0 s:%s" % suf.hex())
    P.add("cstr %0", expect_ok((model + suf).hex()))
    P.add("len %0", expect_ok(str(len(model + suf))))
    P.add("del %0")
    fail, obs = P.run(ctx.executor("ex_vm"))
    return fail, len(model) > 0, ["str:" + f]


def run_val(ctx, case):
    P = Prog()
    f = case["fault"]
    n = case["n"]
    if f == "range-get-idx":
        step = case["step"]
        P.add("new %%0 heap t:Range i:0 i:%d i:%d" % (n, step))
        from .c11 import range_items
        cnt = len(range_items(0, n, step))
        P.add("get %%0 i:%d" % bad_index(case["idx"], cnt), expect_exc(IDX))
        P.add("len %0", expect_ok(str(cnt)))
        P.add("fwd %%0 %d" % (2 * cnt + 4), expect_ok("[%s]" % ",".join("i%d" % v for v in range_items(0, n, step))))
        # the rejected get must not disturb a walk that is in progress (the cursor is part of the object)
        items = range_items(0, n, step)
        P.add("iter %0 init %5", expect_ok("i%d" % items[0] if items else "term"))
        for j in range(1, min(len(items), 4) + 1):
            P.add("get %%0 i:%d" % bad_index(IDXKINDS[(j + n) % len(IDXKINDS)], cnt), expect_exc(IDX))
            P.add("iter %0 next %5 %5", expect_ok("i%d" % items[j] if j < len(items) else "term"))
            if j >= len(items):
                break
    elif f == "slice-get-idx":
        P.add("new %%1 heap t:Array t:Int %s" % " ".join("i:%d" % i for i in range(n)))
        P.add("new %0 heap t:Slice %1")
        P.add("get %%0 i:%d" % bad_index(case["idx"], n), expect_exc(IDX))
        P.add("fwd %%0 %d" % (2 * n + 4), expect_ok("[%s]" % ",".join("i%d" % v for v in range(n))))
        P.add("iter %0 init %5", expect_ok("i0" if n else "term"))
        for j in range(1, min(n, 4) + 1):
            P.add("get %%0 i:%d" % bad_index(IDXKINDS[(j + n) % len(IDXKINDS)], n), expect_exc(IDX))
            P.add("iter %0 next %5 %5", expect_ok("i%d" % j if j < n else "term"))
            if j >= n:
                break
    elif f in ("int-len", "int-push", "int-cstr"):
        P.add("new %%0 heap t:Int i:%d" % n)
        P.add({"int-len": "len %0", "int-push": "push %0 i:1", "int-cstr": "cstr %0"}[f], expect_exc("ClassError"))
        P.add("repr %0", expect_ok("i%d" % n))
    elif f == "int-assign-string":
        P.add("new %%0 heap t:Int i:%d" % n)
        P.add("assign %0 s:6162", expect_exc(*WRONG))
        P.add("repr %0", expect_ok("i%d" % n))
    elif f == "float-assign-string":
        P.add("new %0 heap t:Float f:3ff8000000000000")
        P.add("assign %0 s:6162", expect_exc(*WRONG))
        P.add("repr %0", expect_ok("f3ff8000000000000"))
    elif f == "print-too-few-string":
        P.add("new %0 heap t:String s:6162")
        P.add("print %%0 2 %s" % b"%s".hex(), expect_exc("FormatError"))
        P.add("cstr %0", expect_ok("6162"))
    elif f == "type-call-new-null":
        P.add("new %0 heap null", expect_exc("ValueError"))
        P.add("copy %0 null", expect_exc("ValueError"))
    elif f == "range-push":
        P.add("new %%0 heap t:Range i:%d" % n)
        P.add("push %0 i:1", expect_exc("ClassError"))
        P.add("len %0", expect_ok(str(n)))
    else:
        raise HarnessBug(f)
    fail, obs = P.run(ctx.executor("ex_vm"))
    return fail, n > 0, ["val:" + f]


def run_case(ctx, case):
    fam = case["fam"]
    r = {"seq": run_seq, "map": run_map, "str": run_str, "val": run_val}[fam](ctx, case)
    if r is None:
        return Result(None, False, ["not-applicable-combination"], None)
    if isinstance(r, str):
        return Result(None, False, [r], None)
    fail, nt, ev = r
    return Result(fail, nt, ev, None)


# ---- enumerated matrix ------------------------------------------------------------------

def extra_phase(ctx, tier, stats, sample_fn):
    fails = []
    cells = 0
    sizes = [0, 1, 7]

    def run(case):
        nonlocal cells
        res = run_case(ctx, case)
        stats.add(case, res, sample_fn)
        cells += 1
        if res.fail:
            fails.append((case, res.fail))

    for kind in ("Array", "List", "Tuple"):
        for et in ("Int", "String", "Probe"):
            if kind == "Tuple" and et == "Probe":
                continue
            for n in sizes:
                ops = [["push", seqs_default(et)]] * n + [["push", seqs_default(et)], ["pop"], ["push", seqs_default(et)], ["pop"]]
                for f in SEQ_FAULTS:
                    idxs = IDXKINDS if (f.endswith("-idx") or f == "pop-empty") else ["len"]
                    for ik in idxs:
                        run({"fam": "seq", "base": {"kind": kind, "et": et, "ops": ops}, "at": (n * 1001) // (len(ops) + 1) + 1,
                             "fault": f, "idx": ik})
    for kind in ("Table", "Tree"):
        for (kt, vt) in (("Int", "Int"), ("String", "String"), ("Probe", "Probe")):
            for n in sizes:
                uni = [maps.filler_key(kt, 100 + j) for j in range(9)]
                ops = [["set", j, maps.filler_val(vt, j), "stack"] for j in range(n)] + [["set", 8, maps.filler_val(vt, 2), "stack"], ["rem", 8], ["mem", 0, "stack"]]
                for f in MAP_FAULTS:
                    run({"fam": "map", "base": {"kind": kind, "kt": kt, "vt": vt, "uni": uni, "pmode": 0, "ops": ops},
                         "at": (n * 1001) // (len(ops) + 1) + 1, "fault": f, "k": 3})
    for init in (b"", b"a", b"hello world"):
        for f in STR_FAULTS:
            run({"fam": "str", "init": init.hex(), "fault": f, "suffix": b"xy".hex()})
    for f in VAL_FAULTS:
        for n in (0, 1, 7):
            idxs = IDXKINDS if f.endswith("-idx") else ["len"]
            for ik in idxs:
                for step in ((1, 3, -2) if f == "range-get-idx" else (1,)):
                    run({"fam": "val", "fault": f, "idx": ik, "n": n, "step": step})
    return {"fails": fails[:12], "extra": {"matrix_cells_enumerated": cells, "matrix_failures": len(fails)}}


KNOWN = [
    {"key": "concat-partial-append",
     "what": "concat(array|list, items) with an item that cannot be assigned raises after the preceding items were appended",
     "case": {"fam": "seq", "strict": True, "base": {"kind": "Array", "et": "Int", "ops": [["push", "i:1"], ["push", "i:2"]]},
              "at": 1000, "fault": "concat-wrongitem", "idx": "len"}},
    {"key": "print-too-few-partial-output",
     "what": "print_to with too few arguments raises FormatError after the conversions before the missing argument were written to the sink",
     "case": {"fam": "str", "strict": True, "init": "6162", "fault": "print-too-few", "suffix": "78"}},
]
