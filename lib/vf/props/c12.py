"""C12 - a failed operation is reported as an exception and changes nothing."""
from hypothesis import strategies as st
from .. import build, gen
from ..core import Result, HarnessBug
from ..vm import Prog, expect_ok, expect_exc, lit_repr
from . import seqs, maps

ID = "C12"
ALT_BUILD = True          # a quarter of the workers run the gcc -O0 build (core.py)
LEVEL = "fault_enumeration"
BUDGET = {"quick": 1500, "thorough": 360000}
RULE = ("case = a valid op prefix (generators of C02-C04/C16) bringing an Array/List/Tuple/Table/Tree/String/Range/Slice/"
        "Int to some state, then exactly ONE invalid operation from the fault matrix {get,set,push_at,pop_at,pop,rem,resize,"
        "concat,push,print_to,method call} x {index = len, -len-1, +-far, INT64_MAX, INT64_MIN; pop from empty; absent key / "
        "element; key or value of the wrong type; NULL object / NULL argument; class not implemented; member left empty; too "
        "few format arguments; unhonourable resize (Tuple growth, map below its bindings, any resize of a String that owns no heap buffer)}, then a valid suffix. Oracle: the call raised, the exception is in the "
        "admissible set for that fault, the object's full dump (and for Probe elements the token ledger) and the exception "
        "depth are unchanged, the suffix agrees with the reference model, no sanitizer report. Every matrix cell is visited at "
        "container sizes 0, 1, 7 by the enumerated phase; the rest is sampled. Further cells: NULL / wrong-typed arguments in every "
        "position (set, push_at, rem, mem, get, pop_at with NULL; mem / rem of an element of another type; a non-numeric index "
        "for set / pop_at / push_at; a NULL item inside concat's source; mem / rem of a NULL key on maps; more operations on a NULL "
        "container); the same failing call repeated 2-3 times; Zip / Map get out of range and Filter get / len / set (heap and "
        "stack forms: raised, the view still walks the same items, the inputs are unchanged); a table of 71 (type, operation) "
        "pairs where the class or the member is not implemented (ClassError, receiver unchanged); generated formats of 1-4 "
        "conversions with fewer arguments than conversions for print_to (String / File sink) and scan_from (String / File "
        "source: FormatError, source unchanged, destinations still valid objects); constructors given one item that cannot "
        "be stored (Array / List element, Table / Tree key or value; wrong type or NULL; first / middle / last): raised, the "
        "next collection is clean, the ledger consistent, the next container works. Held back because they fail on the pinned "
        "tree (reported, cases in notes/C12-*.case, runnable with --replay): assign / concat from a source that is not "
        "iterable or NULL, Array constructor with a bad item that is not the last. non-trivial = fault applied to a non-empty "
        "object and followed by >= 3 valid ops. distinct = distinct case JSON.")
ASSUMPTIONS = ["admissible exception sets are taken from the property statement (index -> IndexOutOfBoundsError, absent key -> KeyError, absent element -> ValueError, "
               "NULL -> ValueError, wrong type -> TypeError/ValueError/ClassError, unimplemented -> ClassError, too few args -> FormatError, resize -> FormatError/ResourceError)",
               "known findings switch off exactly one assertion of one cell (see known_findings.txt)",
               "NULL arguments may be reported as ValueError or, where the call first dispatches on the element type, as TypeError / ClassError; mem of a NULL / wrong-typed element is only a fault when the container has an element to compare with; Tuples are heterogeneous (no wrong-typed element, NULL is storable)",
               "scan_from stores %s into the destination's own buffer (C semantics): destinations are generated with room; the values of destinations in front of a missing one are not asserted (scan twin of print-too-few-partial-output)"]

IDX = "IndexOutOfBoundsError"
WRONG = ("TypeError", "ValueError", "ClassError")
I64MAX, I64MIN = 2**63 - 1, -2**63


def prepare(tier):
    return {"ex_vm": build.executor("asan", "ex_vm")}


# ---- fault descriptions -----------------------------------------------------------------

SEQ_FAULTS = ["get-idx", "set-idx", "pop_at-idx", "push_at-idx", "pop-empty", "rem-absent", "push-wrongtype", "push-null",
              "set-wrongtype", "push_at-wrongtype", "concat-wrongitem", "append-wrongtype", "resize-grow-tuple",
              "get-wrongkey", "null-object", "concat-null", "sort-list",
              # NULL / wrong-typed arguments in the remaining positions
              "set-null", "push_at-null", "rem-null", "mem-null", "get-null", "pop_at-null", "mem-wrongtype", "rem-wrongtype",
              "set-wrongidx", "pop_at-wrongidx", "push_at-wrongidx", "concat-nullitem"]
MAP_FAULTS = ["get-absent", "rem-absent", "set-wrongkey", "set-wrongval", "get-wrongkey", "mem-wrongkey", "rem-wrongkey",
              "resize-shrink", "set-nullkey", "set-nullval", "get-nullkey", "null-object", "push-on-map",
              "mem-nullkey", "rem-nullkey"]
STR_FAULTS = ["rem-absent", "concat-null", "concat-int", "get-member-empty", "print-too-few", "push-unimplemented", "cint-unimplemented",
              "print-too-few-gen", "scan-too-few",
              # a String that does not own a heap buffer cannot honour any resize - growing, shrinking or to its own length
              "resize-nonheap"]
VAL_FAULTS = ["range-get-idx", "slice-get-idx", "int-len", "int-push", "int-assign-string", "float-assign-string",
              "print-too-few-string", "type-call-new-null", "range-push", "int-cstr",
              "zip-get-idx", "map-get-idx", "filter-get", "unimpl", "ctor-baditem"]
IDXKINDS = ["len", "neglen1", "far", "negfar", "max", "min"]
# Cells that failed on the pinned tree and were repaired (regress/C12/*.case, known_findings.txt `fixed:` lines): a source
# that is not iterable / NULL for assign and concat
HELD_SEQ = ["assign-nonseq", "assign-null", "concat-nonseq", "assign-strsrc"]
HELD_MAP = ["assign-nonmap", "assign-null", "assign-filter", "assign-filter-none", "assign-strsrc"]
SEQ_FAULTS = SEQ_FAULTS + HELD_SEQ
MAP_FAULTS = MAP_FAULTS + HELD_MAP
# (receiver constructor, dump before/after, [operations the type does not implement]) for the "unimpl" cell: a class that is
# not implemented, or an instance whose member is left empty, raises ClassError and leaves the receiver as it was
UNIMPL = [
    ("t:Int i:7", "i7", ["iter %0 init %9", "iter %0 last %9", "deref %0", "ref %0 %0", "resize %0 3", "concat %0 i:1", "append %0 i:1",
                         "sort %0", "pop %0", "pop_at %0 i:0", "get %0 i:0", "set %0 i:0 i:1", "mem %0 i:1", "rem %0 i:1",
                         "ktype %0", "vtype %0", "itype %0", "empty %0", "mapcall %0"]),
    ("t:Float f:3ff8000000000000", "f3ff8000000000000", ["len %0", "cstr %0", "push %0 i:1", "iter %0 init %9", "get %0 i:0", "resize %0 1"]),
    ("t:Array t:Int i:1 i:2", "A[i1,i2]", ["ktype %0", "vtype %0", "cint %0", "cstr %0", "cfloat %0", "deref %0", "mapcall %0"]),
    ("t:List t:Int i:1 i:2", "L[i1,i2]", ["ktype %0", "vtype %0", "cint %0", "cstr %0", "deref %0", "sort %0", "mapcall %0"]),
    ("t:Table t:Int t:Int i:1 i:2", "H{i1:i2}", ["sort %0", "pop %0", "push %0 i:1", "pop_at %0 i:0", "concat %0 %0", "append %0 i:1", "cint %0", "deref %0"]),
    ("t:Tree t:Int t:Int i:1 i:2", "T{i1:i2}", ["sort %0", "pop %0", "push %0 i:1", "push_at %0 i:1 i:0", "concat %0 %0", "cint %0", "cstr %0"]),
    ("t:Range i:5", "R(0,5,1)", ["set %0 i:0 i:1", "rem %0 i:1", "resize %0 2", "sort %0", "ktype %0", "push %0 i:1", "pop %0", "concat %0 %0", "cint %0"]),
    ("t:String s:6162", "s6162", ["iter %0 init %9", "sort %0", "pop %0", "deref %0", "ktype %0", "itype %0", "mapcall %0", "get %0 i:0", "set %0 i:0 i:1"]),
]
UNIMPL_CELLS = [(ti, oi) for ti, (_, _, ops) in enumerate(UNIMPL) for oi in range(len(ops))]


@st.composite
def _case(draw):
    fam = draw(st.sampled_from(["seq", "seq", "map", "map", "str", "val"]))
    if fam == "seq":
        if draw(st.integers(0, 2)) == 0:
            base = draw(seqs.seq_case(kinds=("Tuple",), ets=("Int", "String"), max_ops=14))
        else:
            base = draw(seqs.seq_case(kinds=("Array", "List"), ets=("Int", "String", "Probe"), max_ops=14))
        return {"fam": fam, "base": base, "at": draw(st.integers(0, 1000)), "fault": draw(st.sampled_from(SEQ_FAULTS)),
                "idx": draw(st.sampled_from(IDXKINDS)), "rep": draw(st.sampled_from([1, 1, 2, 3]))}
    if fam == "map":
        base = draw(maps.map_case(draw(st.sampled_from(["Table", "Tree"]))))
        base["ops"] = base["ops"][:16]
        return {"fam": fam, "base": base, "at": draw(st.integers(0, 1000)), "fault": draw(st.sampled_from(MAP_FAULTS)),
                "k": draw(st.integers(0, 1000)), "rep": draw(st.sampled_from([1, 1, 2, 3]))}
    if fam == "str":
        case = {"fam": fam, "init": draw(gen.cbytes(12)).hex(), "fault": draw(st.sampled_from(STR_FAULTS)),
                "suffix": draw(gen.cbytes(5)).hex()}
        if case["fault"] in ("print-too-few-gen", "scan-too-few"):
            # a format of 1-4 conversions and fewer arguments than conversions; sink / source a String or a File
            convs = draw(st.lists(st.sampled_from(["i", "s", "f", "$", "c", "li", "5i", "-6s", ".2f"]), min_size=1, max_size=4))
            case.update(convs=convs, nargs=draw(st.integers(0, len(convs) - 1)), sink=draw(st.sampled_from(["String", "String", "File"])),
                        pos=draw(st.sampled_from(["start", "end"])), lits=draw(st.lists(st.sampled_from(["", " ", "x", ", ", "%%", "ab "]), min_size=5, max_size=5)))
        return case
    case = {"fam": "val", "fault": draw(st.sampled_from(VAL_FAULTS)), "idx": draw(st.sampled_from(IDXKINDS)),
            "n": draw(st.integers(0, 9)), "step": draw(st.sampled_from([1, 2, 3, -1, -2]))}
    if case["fault"] == "unimpl":
        case["u"] = draw(st.integers(0, len(UNIMPL_CELLS) - 1))
        case["rep"] = draw(st.sampled_from([1, 2]))
    elif case["fault"] == "ctor-baditem":
        kind = draw(st.sampled_from(["Array", "List", "Table", "Tree"]))
        n = draw(st.integers(1, 6))
        bad = draw(st.integers(0, n - 1))
        case.update(kind=kind, et=draw(st.sampled_from(["Int", "String", "Probe"])), n=n, bad=bad,
                    how=draw(st.sampled_from(["wrongtype", "null"])), side=draw(st.sampled_from(["key", "val"])))
    elif case["fault"] in ("zip-get-idx", "map-get-idx", "filter-get"):
        case["form"] = draw(st.sampled_from(["heap", "stack"]))
        case["m"] = draw(st.integers(0, 9))
    return case


def strategy(tier):
    return _case()


def bad_index(kind, n, for_push_at=False):
    hi = n + 1 if for_push_at else n
    lo = -(n + 2) if for_push_at else -(n + 1)
    return {"len": hi, "neglen1": lo, "far": n + 1000, "negfar": -(n + 1000), "max": I64MAX, "min": I64MIN}[kind]


OTHER = {"Int": "s:7a", "String": "i:5", "Probe": "i:5", "Blob": "i:5"}      # a value of a different type than the element type
KNOWN_KEYS = {}


def known_off(key):
    """assertions switched off by a listed known finding (set by core through KNOWN reproduction status)"""
    return key in _load_known()


_known_cache = None


def _load_known():
    global _known_cache
    if _known_cache is None:
        from ..core import load_known
        _known_cache = load_known().get(ID, {})
    return _known_cache


def run_seq(ctx, case):
    base = case["base"]
    r = seqs.SeqRun(base)
    P = r.P
    if base["et"] == "Probe":
        P.add("pmode 0")
    r.start()
    ops = base["ops"]
    cut = case["at"] * (len(ops) + 1) // 1001
    for op in ops[:cut]:
        r.apply(op)
    n = len(r.model)
    f = case["fault"]
    c = r.c
    et = base["et"]
    kind = base["kind"]
    live_before = None
    if et == "Probe":
        P.add("live", expect_ok("live=%d ledger=-" % n))
    applicable = True
    strict_unchanged = True
    key = None
    fault_start = len(P.lines)
    NULLISH = ("ValueError",) + WRONG
    if f in ("set-null", "push_at-null"):
        # Tuples hold any pointer: not a fault there
        if kind == "Tuple" or n == 0:
            applicable = False
        elif f == "set-null":
            P.add("set %s i:%d null" % (c, case["at"] % n), expect_exc(*NULLISH))
        else:
            P.add("push_at %s null i:%d" % (c, case["at"] % n), expect_exc(*NULLISH))
    elif f in ("rem-null", "get-null", "pop_at-null"):
        P.add("%s %s null" % (f[:-5], c), expect_exc(*NULLISH))
    elif f == "mem-null":
        if n == 0:
            applicable = False          # nothing to compare with: mem is simply false
        else:
            P.add("mem %s null" % c, expect_exc(*NULLISH))
    elif f in ("mem-wrongtype", "rem-wrongtype"):
        # an element of another type than the container's element type (Tuples are heterogeneous: not a fault there)
        if kind == "Tuple" or (f == "mem-wrongtype" and n == 0):
            applicable = False
        else:
            P.add("%s %s %s" % (f[:3], c, OTHER[et]), expect_exc(*NULLISH))
    elif f in ("set-wrongidx", "pop_at-wrongidx", "push_at-wrongidx"):
        # an index object that is not a number
        v = r.elem_arg(seqs_default(et)) if r.room() else None
        if v is None:
            applicable = False
        elif f == "set-wrongidx":
            P.add("set %s s:78 %s" % (c, v), expect_exc(*WRONG))
        elif f == "pop_at-wrongidx":
            P.add("pop_at %s s:78" % c, expect_exc(*WRONG))
        else:
            P.add("push_at %s %s s:78" % (c, v), expect_exc(*WRONG))
    elif f == "concat-nullitem":
        if kind == "Tuple":
            applicable = False
        else:
            good = seqs_default(et)
            P.add("stup %%9 %s null" % good)
            P.add("concat %s %%9" % c, expect_exc(*NULLISH))
            if known_off("concat-partial-append") and not case.get("strict"):
                # same mechanism as concat-wrongitem (listed finding): the good prefix may stay appended; cut back to the
                # old length so that both the listed behaviour and an unchanged container pass
                P.add("resize %s %d" % (c, len(r.model)))
    elif f in ("assign-nonseq", "assign-null", "concat-nonseq"):
        # a source that is not iterable / NULL
        src = "null" if f == "assign-null" else "i:5"
        P.add("%s %s %s" % (f.split("-")[0], c, src), expect_exc(*NULLISH))
    elif f == "assign-strsrc":
        # a source with Len but neither Iter nor Get (a String)
        P.add("assign %s s:616263" % c, expect_exc(*NULLISH))
    elif f in ("get-idx", "set-idx", "pop_at-idx"):
        i = bad_index(case["idx"], n)
        if f == "get-idx":
            P.add("get %s i:%d" % (c, i), expect_exc(IDX))
        elif f == "set-idx":
            v = r.elem_arg(seqs_default(et)) if r.room() else None
            if v is None:
                applicable = False
            else:
                P.add("set %s i:%d %s" % (c, i, v), expect_exc(IDX))
        else:
            P.add("pop_at %s i:%d" % (c, i), expect_exc(IDX))
    elif f == "push_at-idx":
        i = bad_index(case["idx"], n, True)
        v = r.elem_arg(seqs_default(et)) if r.room() else None
        if v is None:
            applicable = False
        else:
            P.add("push_at %s %s i:%d" % (c, v, i), expect_exc(IDX))
    elif f == "pop-empty":
        if n != 0:
            P.add("resize %s 0" % c)
            r.model[:] = []
            n = 0
            if et == "Probe":
                P.add("live", expect_ok("live=0 ledger=-"))
        # the empty container is reached in different ways: just cleared; empty but with reserved capacity;
        # empty after another rejected operation (which may have reserved space before failing)
        how = case["idx"]
        if how in ("neglen1", "min") and kind == "Array":
            P.add("resize %s %d" % (c, 3 + case["at"] % 9))
        elif how in ("far", "max") and kind != "Tuple":
            P.add("push %s %s" % (c, OTHER[et]), expect_exc(*WRONG))
            r.check()
        elif how == "negfar" and kind != "Tuple":
            P.add("push %s null" % c, expect_exc("ValueError"))
        P.add("pop %s" % c, expect_exc(IDX))
    elif f == "rem-absent":
        absent = {"Int": "i:424242", "String": "s:6e6f7065", "Probe": "p:424242"}[et]
        P.add("rem %s %s" % (c, absent), expect_exc("ValueError"))
    elif f in ("push-wrongtype", "append-wrongtype", "set-wrongtype", "push_at-wrongtype"):
        if kind == "Tuple":
            applicable = False        # tuples hold any object
        else:
            bad = OTHER[et]
            if f == "push-wrongtype":
                P.add("push %s %s" % (c, bad), expect_exc(*WRONG))
            elif f == "append-wrongtype":
                P.add("append %s %s" % (c, bad), expect_exc(*WRONG))
            elif f == "set-wrongtype":
                if n == 0:
                    applicable = False
                else:
                    P.add("set %s i:%d %s" % (c, case["at"] % n, bad), expect_exc(*WRONG))
                    if et == "String":
                        pass
            else:
                if n == 0:
                    applicable = False
                else:
                    key = "array-push_at-wrongtype-unchanged"
                    P.add("push_at %s %s i:%d" % (c, bad, case["at"] % n), expect_exc(*WRONG))
    elif f == "push-null":
        if kind == "Tuple":
            applicable = False
        else:
            P.add("push %s null" % c, expect_exc("ValueError"))
    elif f == "concat-wrongitem":
        if kind == "Tuple":
            applicable = False
        else:
            good = seqs_default(et)
            P.add("new %9 heap t:Tuple")
            P.add("tmp %%90 %s" % good)
            P.add("tmp %%91 %s" % OTHER[et])
            P.add("push %9 %90")
            P.add("push %9 %91")
            P.add("concat %s %%9" % c, expect_exc(*WRONG))
            key = "concat-partial-append"
            if known_off(key) and not case.get("strict"):
                # listed finding: the items before the bad one may stay appended.  Only the 'unchanged' assertion of this
                # cell is given up: the container is cut back to its old length (a no-op when nothing was appended), so the
                # listed behaviour and a repaired library both pass; raised / exception kind / depth / ledger / suffix are
                # still checked.
                P.add("resize %s %d" % (c, len(r.model)))
                key = None
    elif f == "concat-null":
        P.add("concat %s null" % c, expect_exc("ValueError"))
    elif f == "resize-grow-tuple":
        if kind != "Tuple":
            applicable = False
        else:
            P.add("resize %s %d" % (c, n + 1 + case["at"] % 5), expect_exc("FormatError", "ResourceError"))
    elif f == "get-wrongkey":
        P.add("get %s s:78" % c, expect_exc(*WRONG))
    elif f == "null-object":
        P.add("push null i:1", expect_exc("ValueError"))
        P.add("len null", expect_exc("ValueError"))
        for line in ("pop null", "get null i:0", "set null i:0 i:1", "rem null i:1", "mem null i:1", "pop_at null i:0", "push_at null i:1 i:0",
                     "resize null 1", "concat null %s" % c, "sort null", "iter null init %9", "itype null", "copy %9 null", "assign null i:1")[case["at"] % 7::7]:
            P.add(line, expect_exc("ValueError"))
    elif f == "sort-list":
        if kind != "List":
            applicable = False
        else:
            P.add("sort %s" % c, expect_exc("ClassError"))
    else:
        raise HarnessBug(f)
    if not applicable:
        return None
    # the same failing call again (2-3 times in a row): every repetition must behave like the first
    if len(P.lines) - fault_start == 1:
        for _ in range(case.get("rep", 1) - 1):
            P.add(P.lines[fault_start], P.checks[fault_start])
    # unchanged: full dump against the model, ledger, then the valid suffix
    r.check()
    if et == "Probe":
        P.add("live", expect_ok("live=%d ledger=-" % len(r.model)))
    suffix = ops[cut:]
    for op in suffix:
        r.apply(op)
    r.finish()
    if et == "Probe":
        P.add("live", expect_ok("live=0 ledger=-"))
    fail, obs = P.run(ctx.executor("ex_vm"))
    return fail, (n > 0 and len(suffix) >= 3), ["seq:" + f, "kind=" + kind]


def seqs_default(et):
    return {"Int": "i:5", "String": "s:6868", "Probe": "p:5"}[et]


def run_map(ctx, case):
    base = case["base"]
    r = maps.MapRun(base)
    P = r.P
    r.start()
    ops = base["ops"]
    cut = case["at"] * (len(ops) + 1) // 1001
    for op in ops[:cut]:
        r.apply(op)
    n = len(r.model)
    f = case["fault"]
    c = r.c
    kt, vt, kind = base["kt"], base["vt"], base["kind"]
    absent = None
    for k in r.uni + [maps.filler_key(kt, 777)]:
        if k not in r.model:
            absent = k
            break
    goodk = r.uni[case["k"] % len(r.uni)]
    goodv = maps.filler_val(vt, 1)
    badk = OTHER[kt]
    badv = OTHER[vt]
    applicable = True
    fault_start = len(P.lines)
    if f in ("mem-nullkey", "rem-nullkey"):
        P.add("%s %s null" % (f[:3], c), expect_exc("ValueError"))
    elif f in ("assign-nonmap", "assign-null"):
        P.add("assign %s %s" % (c, "null" if f == "assign-null" else "i:5"), expect_exc("ValueError", *WRONG))
    elif f in ("assign-filter", "assign-filter-none"):
        # a source that can be iterated but has no `get` (a Filter; one that yields items and one that yields none):
        # it is not a mapping - ClassError, and the target keeps its bindings
        P.add("new %8 heap t:Array t:Int i:1 i:2 i:3")
        P.add("new %%9 heap t:Filter %%8 fn:%s" % ("all" if f == "assign-filter" else "none"))
        P.add("assign %s %%9" % c, expect_exc("ClassError"))
        P.add("del %9")
        P.add("del %8")
    elif f == "assign-strsrc":
        # a source with Len but neither Iter nor Get (a String)
        P.add("assign %s s:616263" % c, expect_exc("ClassError", *WRONG))
    elif f == "get-absent":
        P.add("get %s %s" % (c, absent), expect_exc("KeyError"))
    elif f == "rem-absent":
        P.add("rem %s %s" % (c, absent), expect_exc("KeyError"))
    elif f == "set-wrongkey":
        P.add("set %s %s %s" % (c, badk, goodv), expect_exc(*WRONG))
    elif f == "set-wrongval":
        P.add("set %s %s %s" % (c, goodk, badv), expect_exc(*WRONG))
    elif f == "get-wrongkey":
        P.add("get %s %s" % (c, badk), expect_exc(*WRONG))
    elif f == "mem-wrongkey":
        P.add("mem %s %s" % (c, badk), expect_exc(*WRONG))
    elif f == "rem-wrongkey":
        P.add("rem %s %s" % (c, badk), expect_exc(*WRONG))
    elif f == "resize-shrink":
        if kind == "Table":
            if n < 2:
                applicable = False
            else:
                P.add("resize %s %d" % (c, 1 + case["k"] % (n - 1)), expect_exc("FormatError", "ResourceError"))
        else:
            P.add("resize %s %d" % (c, 1 + case["k"] % 50), expect_exc("FormatError", "ResourceError"))
    elif f == "set-nullkey":
        P.add("set %s null %s" % (c, goodv), expect_exc("ValueError"))
    elif f == "set-nullval":
        P.add("set %s %s null" % (c, goodk), expect_exc("ValueError"))
    elif f == "get-nullkey":
        P.add("get %s null" % c, expect_exc("ValueError"))
    elif f == "null-object":
        P.add("set null %s %s" % (goodk, goodv), expect_exc("ValueError"))
        P.add("get null %s" % goodk, expect_exc("ValueError"))
    elif f == "push-on-map":
        P.add("push %s %s" % (c, goodk), expect_exc("ClassError"))
    else:
        raise HarnessBug(f)
    if not applicable:
        return None
    if len(P.lines) - fault_start == 1:
        for _ in range(case.get("rep", 1) - 1):
            P.add(P.lines[fault_start], P.checks[fault_start])
    r.check()
    if kt == "Probe" or vt == "Probe":
        P.add("live", expect_ok("live=%d ledger=-" % (((kt == "Probe") + (vt == "Probe")) * len(r.model))))
    suffix = ops[cut:]
    for op in suffix:
        r.apply(op)
    r.finish()
    fail, obs = P.run(ctx.executor("ex_vm"))
    return fail, (n > 0 and len(suffix) >= 3), ["map:" + f, "kind=" + kind]


def run_str(ctx, case):
    P = Prog()
    model = bytes.fromhex(case["init"])
    P.add("new %%0 heap t:String s:%s" % model.hex())
    f = case["fault"]
    key = None
    if f == "rem-absent":
        s = b"\x01zz"
        while s in model:
            s += b"\x02"
        P.add("rem %%0 s:%s" % s.hex(), expect_exc("ValueError"))
    elif f == "concat-null":
        P.add("concat %0 null", expect_exc("ValueError"))
    elif f == "concat-int":
        P.add("concat %0 i:5", expect_exc(*WRONG))
    elif f == "get-member-empty":
        P.add("get %0 i:0", expect_exc("ClassError"))
        P.add("set %0 i:0 i:1", expect_exc("ClassError"))
    elif f == "print-too-few":
        key = "print-too-few-partial-output"
        P.add("print %%0 %d %s i:1" % (len(model), b"%i %i".hex()), expect_exc("FormatError"))
        if known_off(key) and not case.get("strict"):
            # listed finding: the conversions before the missing argument were already written
            model = model + b"1 "
    elif f in ("print-too-few-gen", "scan-too-few"):
        return run_fmt(ctx, case, P, model)
    elif f == "resize-nonheap":
        n = len(model)
        P.add("tmp %%1 s:%s" % model.hex())
        for to in sorted({0, n // 2, max(0, n - 1), n, n + 1, n + 40}):
            P.add("resize %%1 %d" % to, expect_exc("ValueError"))
            P.add("cstr %1", expect_ok(model.hex()))
            P.add("len %1", expect_ok(str(n)))
    elif f == "push-unimplemented":
        P.add("push %0 i:1", expect_exc("ClassError"))
        P.add("pop %0", expect_exc("ClassError"))
    elif f == "cint-unimplemented":
        P.add("cint %0", expect_exc("ClassError"))
        P.add("cfloat %0", expect_exc("ClassError"))
    else:
        raise HarnessBug(f)
    P.add("cstr %0", expect_ok(model.hex()))
    suf = bytes.fromhex(case["suffix"])
    P.add("concat %%0 s:%s" % suf.hex())
    P.add("cstr %0", expect_ok((model + suf).hex()))
    P.add("len %0", expect_ok(str(len(model + suf))))
    P.add("del %0")
    fail, obs = P.run(ctx.executor("ex_vm"))
    return fail, len(model) > 0, ["str:" + f]


FMT_ARG = {"i": "i:42", "li": "i:-7", "5i": "i:3", "s": "s:7478", "-6s": "s:71", "f": "f:3ff8000000000000", ".2f": "f:4004000000000000",
           "$": "i:9", "c": "i:65"}
# what scanning the text produced by FMT_TEXT into the destination gives
FMT_TEXT = {"i": b"42", "li": b"-7", "5i": b"3", "s": b"tx", "-6s": b"q", "f": b"1.5", ".2f": b"2.5", "c": b"A", "$": b"9"}
FMT_DST = {"i": "Int", "li": "Int", "5i": "Int", "s": "String", "-6s": "String", "f": "Float", ".2f": "Float", "c": "Int", "$": "Int"}


def run_fmt(ctx, case, P, model):
    """too few arguments for a generated format: print_to (String / File sink) and scan_from (String / File source).
    %0 is a heap String holding `model`."""
    f, convs, nargs, lits = case["fault"], case["convs"], case["nargs"], case["lits"]
    seen = {}
    if f == "print-too-few-gen":
        fmt = "".join(lits[i] + "%" + cv for i, cv in enumerate(convs)) + lits[4]
        args = " ".join(FMT_ARG[cv] for cv in convs[:nargs])
        if case["sink"] == "File":
            P.add(("fprint 0 %s %s" % (fmt.encode().hex(), args)).rstrip(), expect_exc("FormatError"))
            P.add("cstr %0", expect_ok(model.hex()))
        else:
            pos = 0 if case["pos"] == "start" else len(model)
            op = "print"
            if len(convs) >= 2 and nargs >= 1 and (len(fmt) + nargs) % 2 == 0:
                # the format is built in a buffer the caller reuses: a complete print of the format's first conversions
                # comes first (into a scratch String), then the same buffer holds the longer format
                op = "printb"
                short = "".join(lits[i] + "%" + cv for i, cv in enumerate(convs[:nargs]))
                P.add("new %9 heap t:String s:")
                P.add(("printb %%9 0 %s %s" % (short.encode().hex(), args)).rstrip(), lambda o: None if o.startswith("ok") else "complete print failed: " + o)
                P.add("del %9")
            P.add(("%s %%0 %d %s %s" % (op, pos, fmt.encode().hex(), args)).rstrip(), expect_exc("FormatError"))
            listed = known_off("print-too-few-partial-output") and not case.get("strict")

            def chk(o, listed=listed, keep=model[:pos], whole=model):
                if not o.startswith("ok"):
                    return "sink unusable after the rejected print: " + o
                got = bytes.fromhex(o[3:].strip())
                seen["s"] = got
                if not listed:
                    return None if got == whole else "sink changed by the rejected print: %r -> %r" % (whole, got)
                # listed finding: the conversions before the missing argument were already written; everything in
                # front of the write position is still demanded unchanged
                return None if got[:len(keep)] == keep else "text in front of the write position changed: %r -> %r" % (whole, got)
            P.add("cstr %0", chk)
            suf = bytes.fromhex(case["suffix"])
            P.add("concat %%0 s:%s" % suf.hex())
            P.add("cstr %0", lambda o: None if o.startswith("ok") and o[3:].strip() == (seen.get("s", b"") + suf).hex()
                  else "sink not usable after the rejected print: %s" % o)
            P.add("del %0")
            fail, obs = P.run(ctx.executor("ex_vm"))
            return fail, len(model) > 0, ["str:" + f, "sink=String", "nconv=%d" % len(convs)]
    else:
        fmt = " ".join("%" + (cv if cv not in ("5i", "-6s", ".2f", "$") else {"5i": "i", "-6s": "s", ".2f": "f", "$": "i"}[cv]) for cv in convs)
        text = b" ".join(FMT_TEXT[cv] for cv in convs)
        for j, cv in enumerate(convs[:nargs]):
            P.add("new %%%d heap t:%s %s" % (10 + j, FMT_DST[cv], {"Int": "i:0", "String": "s:" + "7a" * 24, "Float": "f:0000000000000000"}[FMT_DST[cv]]))      # %s stores into the destination's own buffer (C semantics): it has room
        dsts = " ".join("%%%d" % (10 + j) for j in range(nargs))
        if case["sink"] == "File":
            P.add(("fscan %s %s %s" % (text.hex(), fmt.encode().hex(), dsts)).rstrip(), expect_exc("FormatError"))
        else:
            P.add("new %%5 heap t:String s:%s" % text.hex())
            P.add(("scan %%5 0 %s %s" % (fmt.encode().hex(), dsts)).rstrip(), expect_exc("FormatError"))
            P.add("cstr %5", expect_ok(text.hex()))           # the source is unchanged
        # the destinations stay valid objects of their type (their values are not asserted: the conversions in front of the
        # missing destination may already have been stored - the scan twin of print-too-few-partial-output)
        for j, cv in enumerate(convs[:nargs]):
            P.add("typeof %%%d" % (10 + j), lambda o, t=FMT_DST[cv]: None if o.startswith("ok %s " % t) else "destination damaged: " + o)
            P.add("repr %%%d" % (10 + j), lambda o: None if o.startswith("ok") else "destination unusable: " + o)
        P.add("cstr %0", expect_ok(model.hex()))
    suf = bytes.fromhex(case["suffix"])
    P.add("concat %%0 s:%s" % suf.hex())
    P.add("cstr %0", expect_ok((model + suf).hex()))
    P.add("del %0")
    fail, obs = P.run(ctx.executor("ex_vm"))
    return fail, len(model) > 0, ["str:" + f, "sink=" + case["sink"], "nconv=%d" % len(convs)]


def run_val(ctx, case):
    P = Prog()
    f = case["fault"]
    n = case["n"]
    if f in ("zip-get-idx", "map-get-idx", "filter-get"):
        # views: a rejected get leaves the view walkable from the start with the same items
        m = case.get("m", 3)
        a = list(range(1, n + 1))
        b = list(range(30, 30 + m))
        P.add("new %%1 heap t:Array t:Int %s" % " ".join("i:%d" % v for v in a))
        P.add("new %%2 heap t:List t:Int %s" % " ".join("i:%d" % v for v in b))
        heap = case.get("form", "heap") == "heap"
        if f == "zip-get-idx":
            P.add("new %0 heap t:Zip %1 %2" if heap else "stk %0 zip %1 %2")
            cnt = min(n, m)
            want = "[%s]" % ",".join("U[i%d,i%d]" % p for p in zip(a, b))
            i = bad_index(case["idx"], cnt)
            P.add("get %%0 i:%d" % i, expect_exc(IDX))
            P.add("get %0 s:78", expect_exc(*WRONG))
        elif f == "map-get-idx":
            P.add("new %0 heap t:Map %1 fn:id" if heap else "stk %0 map %1 fn:id")
            cnt = n
            want = "[%s]" % ",".join("i%d" % v for v in a)
            P.add("get %%0 i:%d" % bad_index(case["idx"], cnt), expect_exc(IDX))
        else:
            P.add("new %0 heap t:Filter %1 fn:all" if heap else "stk %0 filter %1 fn:all")
            cnt = n
            want = "[%s]" % ",".join("i%d" % v for v in a)
            P.add("get %0 i:0", expect_exc("ClassError"))          # Get instance present, member get left empty
            P.add("len %0", expect_exc("ClassError"))              # class Len not implemented
            P.add("set %0 i:0 i:1", expect_exc("ClassError"))
        P.add("fwd %%0 %d" % (2 * cnt + 4), expect_ok(want))
        P.add("repr %1", expect_ok("A[%s]" % ",".join("i%d" % v for v in a)))
        P.add("repr %2", expect_ok("L[%s]" % ",".join("i%d" % v for v in b)))
        fail, obs = P.run(ctx.executor("ex_vm"))
        return fail, cnt > 0, ["val:" + f, "form=" + case.get("form", "heap")]
    if f == "unimpl":
        ti, oi = UNIMPL_CELLS[case.get("u", 0) % len(UNIMPL_CELLS)]
        ctor, dump, ops = UNIMPL[ti]
        P.add("new %%0 heap %s" % ctor)
        for _ in range(case.get("rep", 1)):
            P.add(ops[oi], expect_exc("ClassError"))
        P.add("repr %0", expect_ok(dump))
        P.add("del %0")
        fail, obs = P.run(ctx.executor("ex_vm"))
        return fail, True, ["val:unimpl", "unimpl:%s:%s" % (ctor.split()[0][2:], ops[oi].split()[0])]
    if f == "ctor-baditem":
        # a constructor given one item that cannot be stored: the exception is raised, a following collection is clean
        # (the half-built object is not handed out, but it is the collector's to sweep), every element that was built is
        # finalised exactly once, and the next container of the same kind works
        kind, et, cn, bad, how = case["kind"], case["et"], case["n"], case["bad"], case["how"]
        good = seqs_default(et)
        badlit = "null" if how == "null" else OTHER[et]
        if et == "Probe":
            P.add("pmode 0")
        if kind in ("Array", "List"):
            items = [good] * cn
            items[bad] = badlit
            P.add("new %%0 heap t:%s t:%s %s" % (kind, et, " ".join(items)), expect_exc("ValueError", *WRONG))
        else:
            pairs = []
            for j in range(cn):
                k, v = maps.filler_key(et, j), maps.filler_val(et, j)
                if j == bad:
                    if case.get("side", "val") == "key":
                        k = badlit
                    else:
                        v = badlit
                pairs += [k, v]
            P.add("new %%0 heap t:%s t:%s t:%s %s" % (kind, et, et, " ".join(pairs)), expect_exc("ValueError", *WRONG))
        P.add("collect")
        if et == "Probe":
            # the half-built object is garbage, but a conservative collection need not find that out at once: only the
            # ledger's invariants (no double finalise, no use of a finalised element) are demanded here
            P.add("live", lambda o: None if o.startswith("ok live=") and o.endswith("ledger=-") else "ledger after the rejected constructor: " + o)
        if kind in ("Array", "List"):
            P.add("new %%1 heap t:%s t:%s %s %s" % (kind, et, good, good))
            P.add("repr %1", expect_ok("%s[%s,%s]" % (kind[0], lit_repr(good), lit_repr(good))))
        else:
            P.add("new %%1 heap t:%s t:%s t:%s %s %s" % (kind, et, et, maps.filler_key(et, 0), maps.filler_val(et, 0)))
            P.add("len %1", expect_ok("1"))
        P.add("del %1")
        P.add("collect")
        if et == "Probe":
            P.add("live", lambda o: None if o.startswith("ok live=") and o.endswith("ledger=-") else "ledger after the rejected constructor: " + o)
        fail, obs = P.run(ctx.executor("ex_vm"))
        return fail, cn > 1, ["val:ctor-baditem", "ctor=" + kind, "bad=" + how]
    if f == "range-get-idx":
        step = case["step"]
        P.add("new %%0 heap t:Range i:0 i:%d i:%d" % (n, step))
        from .c11 import range_items
        cnt = len(range_items(0, n, step))
        P.add("get %%0 i:%d" % bad_index(case["idx"], cnt), expect_exc(IDX))
        P.add("len %0", expect_ok(str(cnt)))
        P.add("fwd %%0 %d" % (2 * cnt + 4), expect_ok("[%s]" % ",".join("i%d" % v for v in range_items(0, n, step))))
        # the rejected get must not disturb a walk that is in progress (the cursor is part of the object)
        items = range_items(0, n, step)
        P.add("iter %0 init %5", expect_ok("i%d" % items[0] if items else "term"))
        for j in range(1, min(len(items), 4) + 1):
            P.add("get %%0 i:%d" % bad_index(IDXKINDS[(j + n) % len(IDXKINDS)], cnt), expect_exc(IDX))
            P.add("iter %0 next %5 %5", expect_ok("i%d" % items[j] if j < len(items) else "term"))
            if j >= len(items):
                break
    elif f == "slice-get-idx":
        P.add("new %%1 heap t:Array t:Int %s" % " ".join("i:%d" % i for i in range(n)))
        P.add("new %0 heap t:Slice %1")
        P.add("get %%0 i:%d" % bad_index(case["idx"], n), expect_exc(IDX))
        P.add("fwd %%0 %d" % (2 * n + 4), expect_ok("[%s]" % ",".join("i%d" % v for v in range(n))))
        P.add("iter %0 init %5", expect_ok("i0" if n else "term"))
        for j in range(1, min(n, 4) + 1):
            P.add("get %%0 i:%d" % bad_index(IDXKINDS[(j + n) % len(IDXKINDS)], n), expect_exc(IDX))
            P.add("iter %0 next %5 %5", expect_ok("i%d" % j if j < n else "term"))
            if j >= n:
                break
    elif f in ("int-len", "int-push", "int-cstr"):
        P.add("new %%0 heap t:Int i:%d" % n)
        P.add({"int-len": "len %0", "int-push": "push %0 i:1", "int-cstr": "cstr %0"}[f], expect_exc("ClassError"))
        P.add("repr %0", expect_ok("i%d" % n))
    elif f == "int-assign-string":
        P.add("new %%0 heap t:Int i:%d" % n)
        P.add("assign %0 s:6162", expect_exc(*WRONG))
        P.add("repr %0", expect_ok("i%d" % n))
    elif f == "float-assign-string":
        P.add("new %0 heap t:Float f:3ff8000000000000")
        P.add("assign %0 s:6162", expect_exc(*WRONG))
        P.add("repr %0", expect_ok("f3ff8000000000000"))
    elif f == "print-too-few-string":
        P.add("new %0 heap t:String s:6162")
        P.add("print %%0 2 %s" % b"%s".hex(), expect_exc("FormatError"))
        P.add("cstr %0", expect_ok("6162"))
    elif f == "type-call-new-null":
        P.add("new %0 heap null", expect_exc("ValueError"))
        P.add("copy %0 null", expect_exc("ValueError"))
    elif f == "range-push":
        P.add("new %%0 heap t:Range i:%d" % n)
        P.add("push %0 i:1", expect_exc("ClassError"))
        P.add("len %0", expect_ok(str(n)))
    else:
        raise HarnessBug(f)
    fail, obs = P.run(ctx.executor("ex_vm"))
    return fail, n > 0, ["val:" + f]


def run_case(ctx, case):
    fam = case["fam"]
    r = {"seq": run_seq, "map": run_map, "str": run_str, "val": run_val}[fam](ctx, case)
    if r is None:
        return Result(None, False, ["not-applicable-combination"], None)
    if isinstance(r, str):
        return Result(None, False, [r], None)
    fail, nt, ev = r
    return Result(fail, nt, ev, None)


# ---- enumerated matrix ------------------------------------------------------------------

def extra_phase(ctx, tier, stats, sample_fn):
    fails = []
    cells = 0
    sizes = [0, 1, 7]

    def run(case):
        nonlocal cells
        res = run_case(ctx, case)
        stats.add(case, res, sample_fn)
        cells += 1
        if res.fail:
            fails.append((case, res.fail))

    for kind in ("Array", "List", "Tuple"):
        for et in ("Int", "String", "Probe"):
            if kind == "Tuple" and et == "Probe":
                continue
            for n in sizes:
                ops = [["push", seqs_default(et)]] * n + [["push", seqs_default(et)], ["pop"], ["push", seqs_default(et)], ["pop"]]
                for f in SEQ_FAULTS:
                    idxs = IDXKINDS if (f.endswith("-idx") or f == "pop-empty") else ["len"]
                    for ik in idxs:
                        run({"fam": "seq", "base": {"kind": kind, "et": et, "ops": ops}, "at": (n * 1001) // (len(ops) + 1) + 1,
                             "fault": f, "idx": ik})
    for kind in ("Table", "Tree"):
        for (kt, vt) in (("Int", "Int"), ("String", "String"), ("Probe", "Probe")):
            for n in sizes:
                uni = [maps.filler_key(kt, 100 + j) for j in range(9)]
                ops = [["set", j, maps.filler_val(vt, j), "stack"] for j in range(n)] + [["set", 8, maps.filler_val(vt, 2), "stack"], ["rem", 8], ["mem", 0, "stack"]]
                for f in MAP_FAULTS:
                    run({"fam": "map", "base": {"kind": kind, "kt": kt, "vt": vt, "uni": uni, "pmode": 0, "ops": ops},
                         "at": (n * 1001) // (len(ops) + 1) + 1, "fault": f, "k": 3})
    for init in (b"", b"a", b"hello world"):
        for f in STR_FAULTS:
            if f in ("print-too-few-gen", "scan-too-few"):
                continue          # enumerated below with their formats
            run({"fam": "str", "init": init.hex(), "fault": f, "suffix": b"xy".hex()})
    for f in VAL_FAULTS:
        if f == "unimpl":
            for u in range(len(UNIMPL_CELLS)):
                run({"fam": "val", "fault": f, "idx": "len", "n": 1, "step": 1, "u": u, "rep": 1 + u % 2})
            continue
        if f == "ctor-baditem":
            for kind in ("Array", "List", "Table", "Tree"):
                for et in ("Int", "String", "Probe"):
                    for n in (1, 2, 5):
                        for bad in sorted(set([0, n // 2, n - 1])):
                            for how in ("wrongtype", "null"):
                                for side in (("key", "val") if kind in ("Table", "Tree") else ("val",)):
                                    run({"fam": "val", "fault": f, "idx": "len", "n": n, "step": 1, "kind": kind, "et": et, "bad": bad,
                                         "how": how, "side": side})
            continue
        for n in (0, 1, 7):
            idxs = IDXKINDS if f.endswith("-idx") else ["len"]
            for ik in idxs:
                for step in ((1, 3, -2) if f == "range-get-idx" else (1,)):
                    if f in ("zip-get-idx", "map-get-idx", "filter-get"):
                        for form in ("heap", "stack"):
                            for m in ((0, 1, 7, 9) if f == "zip-get-idx" else (3,)):
                                run({"fam": "val", "fault": f, "idx": ik, "n": n, "step": step, "form": form, "m": m})
                        continue
                    run({"fam": "val", "fault": f, "idx": ik, "n": n, "step": step})
    # generated formats with too few arguments: every conversion in every position, both sinks
    CV = ["i", "s", "f", "$", "c", "li", "5i", "-6s", ".2f"]
    for f in ("print-too-few-gen", "scan-too-few"):
        for ci, cv in enumerate(CV):
            for nconv in (1, 2, 4):
                convs = [CV[(ci + j) % len(CV)] for j in range(nconv)]
                for nargs in sorted(set([0, nconv - 1])):
                    for sink in ("String", "File"):
                        run({"fam": "str", "init": b"hello".hex(), "fault": f, "suffix": b"xy".hex(), "convs": convs, "nargs": nargs,
                             "sink": sink, "pos": "end" if ci % 2 else "start", "lits": ["", " ", "x", ", ", "ab "]})
    return {"fails": fails[:12], "extra": {"matrix_cells_enumerated": cells, "matrix_failures": len(fails)}}


KNOWN = [
    {"key": "concat-partial-append",
     "what": "concat(array|list, items) with an item that cannot be assigned raises after the preceding items were appended",
     "case": {"fam": "seq", "strict": True, "base": {"kind": "Array", "et": "Int", "ops": [["push", "i:1"], ["push", "i:2"]]},
              "at": 1000, "fault": "concat-wrongitem", "idx": "len"}},
]
