"""C07 - try / catch / throw follow block structure.

Case = {"trees": [tree, ...], "build": "plain" (optional), "thread": [h, ...] (optional)}: program trees executed
one after another by harness/ex_exc.c (real try/catch/throw macros); tree i runs in the executor's main thread
when h_i is -1 or missing, otherwise in a fresh Cello Thread while the main thread keeps h_i (0..3) catch-all try
blocks of its own open - the expected trace is the same: the blocks of another thread enclose nothing.  Trees carry no ids; ids are assigned in
pre-order when the case is encoded, so shrinking never has to keep ids consistent.

  ["M"]                         mark
  ["X", k]                      throw kind k (0 TypeError 1 KeyError 2 ValueError 3 IOError 4 UserExc 5 UserExcEOF 6 User
                                7 IndexOutOfBoundsError 8 ClassError 9 FormatError)
  ["X", k, how]                 how 1: K[k] is raised by a library function called at this point (kinds in LIBK only),
                                how 2 / 3: throw with a 300 / 6000 character message; how 4: a message format with literal %% signs; how 0 == ["X", k]
  ["C", t]                      real function call around t
  ["S", [t...]]                 sequence
  ["T", filt, body, handler]    try/catch; filt = "A" (catch-all) or a list of 1, 2, 3, 5 or 8 distinct kinds
  ["N", cnt, filt, body, handler]  cnt try blocks nested directly inside one another, all with this filter and this
                                handler (the handler subtree may therefore run several times); ids id0..id0+cnt-1
                                from the outermost inwards.  Never expanded: the reference walks the levels in a loop.
  ["L", n, [filt...], [slot...]]  hand-written C function n (1..4) with 2-3 lexically nested try blocks;
                                filter arities and slot counts are fixed per template (TMPL below); it is
                                *defined* as the plain tree returned by _expand().
"""
import os
from hypothesis import strategies as st
from .. import build
from ..core import Result, HarnessBug

ID = "C07"
LEVEL = "exploration"
BUDGET = {"quick": 3000, "thorough": 900000}
ENUM_BOUND = {"quick": 2500, "thorough": 120000}
# A case takes well under a millisecond; an executor silent for RUN_TIMEOUT seconds is stuck (e.g. a longjmp
# to a stale buffer looping forever).  Once a process has seen two such hangs it waits less for further ones,
# so that shrinking a hanging program does not take hours; every reported case is re-run three times by the
# core in the parent process before it counts.
RUN_TIMEOUT = 10.0
RUN_TIMEOUT_AFTER_HANGS = 3.0
_hangs = [0]
MAX_DEPTH = 6
MAX_NODES = 40
RULE = ("case = 1..4 program trees (Seq | Try(filter set of 1,2,3,5 or 8 kinds or catch-all) | Throw(kind) | Call | Mark | "
        "lexical template 1..4 | Nest(cnt directly nested try blocks with one filter and handler, cnt 2..40 or around "
        "255/256/257, 1000, 2000; open blocks per tree <= the library's 2048; nests of exactly 2047 and 2048 blocks are enumerated)), first tree height <= 6 and <= 40 "
        "nodes (templates counted expanded, a Nest counted as one level), further trees "
        "<= 12 nodes, 20 exception kinds (every built-in exception object, three user objects and a second object with the type name of one of them whose names are prefixes of one another); a throw is "
        "the throw macro with a short, 300 or 6000 character message, or an exception raised by a library function "
        "called at that point (assign/get/cast/stell/len/print_to); run by the real macros in the executor's main thread "
        "or (a quarter of the cases, per tree) in a fresh Cello Thread while the main thread holds 0..3 try blocks open, in the "
        "clang-ASan build or (a quarter of the cases) the gcc -O0 build, trees whose "
        "exception escapes run in a forked child; generation is biased to handled-inside-normal-outside, throw/rethrow "
        "from a handler and non-matching inner filters. Trace (marks, handlers with bound object, pre/post of every "
        "construct) is compared exactly with a reference interpreter; depth before == after every construct and 0 "
        "around every tree. non-trivial = try nesting >= 2 and (an inner handler handled while an enclosing try body "
        "completed normally, or a handler threw, or an inner filter did not match). distinct = distinct case JSON. "
        "extra phase: all trees over {M, X0, X1, Seq2, Try(A|[0]|[1])} in size order up to a count bound, one per case. "
        "libFuzzer phase (coverage.fuzz): harness/fz_exc.c decodes bytes into one tree over 16 kinds (no escaping exception, one thread), "
        "runs it twice with the real macros and compares events, bound objects and depth with a reference interpreter inside the target.")
ASSUMPTIONS = ["filters are sets: `catch (e in X, X)` (the same object twice) is outside the statement's domain; in the "
               "pinned tree it never terminates for a non-matching exception (foreach over a Tuple holding one pointer "
               "twice, see C11) and is therefore never generated",
               "only well-nested programs: no return/break/goto out of a try body (documented restriction)",
               "exception objects are distinct static type objects; filters compare with eq (by type name)",
               "depth is compared only between the two sides of one construct and around a whole tree, never inside "
               "a body or handler (where the pop happens is the implementation's choice)",
               "one thread at a time: a tree runs either in the executor's main thread or in one fresh Cello Thread that "
               "is joined before anything else happens (concurrent threads are C13's subject); an uncaught exception "
               "- in either kind of thread - is observed as exit status and stderr of a forked child"]

KN = ["TypeError", "KeyError", "ValueError", "IOError", "UserExc", "UserExcEOF", "User",
      "IndexOutOfBoundsError", "ClassError", "FormatError",
      # the remaining built-in exception objects (every built-in one is a kind of its own: a filter naming one of them
      # must not match another)
      "BusyError", "ResourceError", "OutOfMemoryError", "SegmentationError", "ProgramAbortedError", "DivisionByZeroError",
      "IllegalInstructionError", "ProgramInterruptedError", "ProgramTerminationError",
      # a second object with the type name of UserExc: matched by a filter naming either (filters compare by name), bound
      # in the handler as itself
      "UserExcTwin"]
TN = list(KN)                       # the type name of each kind (what filters compare and the diagnostic prints)
TN[19] = "UserExc"
NK = len(KN)
LIBK = (0, 1, 2, 3, 7, 8, 9)        # kinds some library function raises on request (harness/ex_exc.c lib_raise)
ARITIES = (1, 2, 3, 5, 8)           # one real catch site per filter arity
MAX_OPEN = 2048                     # try blocks open at the same time (EXCEPTION_MAX_DEPTH is 2048)
# per template: (filter arity per lexical level (0 = catch-all), number of slots)
TMPL = {1: ([2, 1], 5), 2: ([0, 3], 5), 3: ([1, 0, 2], 8), 4: ([3, 0, 1], 7)}


def prepare(tier):
    return {"ex_exc": build.executor("asan", "ex_exc"), "ex_exc_plain": build.executor("plain", "ex_exc"),
            "fz_exc": build.executor("fuzz", "fz_exc", extra_ldflags=["-fsanitize=fuzzer"])}


# coverage-guided companion: byte-decoded program trees run twice by the real macros inside one catch-all block, compared
# with a reference interpreter inside the target (harness/fz_exc.c)
FUZZ = [{"target": "fz_exc", "runs": {"quick": 40000, "thorough": 12000000}, "max_len": 160,
         "asan": ":malloc_context_size=2:quarantine_size_mb=16"}]


# ---- tree helpers --------------------------------------------------------------------------

def _filt(arity, kinds):
    return "A" if arity == 0 else list(kinds)


def _expand(t):
    """Replace lexical templates by the plain tree they are defined as (shapes: harness/ex_exc.c)."""
    k = t[0]
    if k in ("M", "X"):
        return t
    if k == "C":
        return ["C", _expand(t[1])]
    if k == "S":
        return ["S", [_expand(x) for x in t[1]]]
    if k == "T":
        return ["T", t[1], _expand(t[2]), _expand(t[3])]
    if k == "N":
        return ["N", t[1], t[2], _expand(t[3]), _expand(t[4])]
    if k == "L":
        n, fl, sl = t[1], t[2], [_expand(x) for x in t[3]]
        ar, ns = TMPL[n]
        if len(sl) != ns or len(fl) != len(ar) or any(a and len(f) != a for a, f in zip(ar, fl)):
            raise HarnessBug("malformed template node %r" % (t,))
        f = [_filt(a, x) for a, x in zip(ar, fl)]
        if n == 1:
            return ["T", f[0], ["S", [sl[0], ["T", f[1], sl[1], sl[2]], sl[3]]], sl[4]]
        if n == 2:
            return ["T", f[0], sl[0], ["S", [sl[1], ["T", f[1], sl[2], sl[3]], sl[4]]]]
        if n == 3:
            return ["T", f[0], ["S", [sl[0], ["T", f[1], ["S", [sl[1], ["T", f[2], sl[2], sl[3]], sl[4]]], sl[5]],
                                      sl[6]]], sl[7]]
        return ["T", f[0], ["S", [["T", f[1], sl[0], sl[1]], sl[2]]],
                ["S", [sl[3], ["T", f[2], sl[4], sl[5]], sl[6]]]]
    raise HarnessBug("bad node %r" % (t,))


def _kids(t):
    k = t[0]
    if k == "C":
        return [t[1]]
    if k == "S":
        return t[1]
    if k in ("T", "N"):
        return [t[-2], t[-1]]           # plain ["T", filt, body, handler] or numbered ["T", id, filt, body, handler]
    return []


def _cnt(t):
    """number of try blocks a T / N node opens (plain or numbered form)"""
    return 1 if t[0] == "T" else t[-4]


def size(t):        # on expanded trees
    return 1 + sum(size(x) for x in _kids(t))


def height(t):
    ks = _kids(t)
    return 1 + max(height(x) for x in ks) if ks else 0


def try_nesting(t):
    n = max([try_nesting(x) for x in _kids(t)] or [0])
    return n + _cnt(t) if t[0] in ("T", "N") else n


def open_blocks(t):
    """largest number of try blocks open at the same time while t runs (expanded or numbered tree); a handler
    runs after its own block was popped"""
    k = t[0]
    if k in ("T", "N"):
        c = _cnt(t)
        return max(c + open_blocks(t[-2]), c - 1 + open_blocks(t[-1]))
    return max([open_blocks(x) for x in _kids(t)] or [0])


def _number(t, ctr):
    """Expanded tree -> same tree with ids: ["M", id], ["T", id, filt, body, handler].  Template levels get
    their ids in the order outer..inner of _expand's output, which is pre-order of the expanded tree."""
    k = t[0]
    if k == "M":
        ctr[0] += 1
        return ["M", ctr[0]]
    if k == "X":
        return t
    if k == "C":
        return ["C", _number(t[1], ctr)]
    if k == "S":
        return ["S", [_number(x, ctr) for x in t[1]]]
    if k == "N":
        i = ctr[0] + 1
        ctr[0] += t[1]
        return ["N", i, t[1], t[2], _number(t[3], ctr), _number(t[4], ctr)]
    ctr[0] += 1
    i = ctr[0]
    return ["T", i, t[1], _number(t[2], ctr), _number(t[3], ctr)]


def _serialise(t, ctr):
    """Original tree (with templates) -> (token list, numbered expanded tree).  Both are numbered by walking
    the *expanded* pre-order, so ids agree by construction."""
    k = t[0]
    if k == "M":
        ctr[0] += 1
        return ["M", str(ctr[0])], ["M", ctr[0]]
    if k == "X":
        if len(t) > 2 and t[2]:
            return ["Y", str(t[1]), str(t[2])], t
        return ["X", str(t[1])], t
    if k == "C":
        a, b = _serialise(t[1], ctr)
        return ["C"] + a, ["C", b]
    if k == "N":
        i = ctr[0] + 1
        ctr[0] += t[1]
        f = t[2]
        toks = ["N", str(i), str(t[1])] + (["0"] if f == "A" else [str(len(f))] + [str(x) for x in f])
        a, ab = _serialise(t[3], ctr)
        c, cb = _serialise(t[4], ctr)
        return toks + a + c, ["N", i, t[1], f, ab, cb]
    if k == "S":
        toks, sub = ["S", str(len(t[1]))], []
        for x in t[1]:
            a, b = _serialise(x, ctr)
            toks += a
            sub.append(b)
        return toks, ["S", sub]
    if k == "T":
        ctr[0] += 1
        i = ctr[0]
        f = t[1]
        toks = ["T", str(i)] + (["0"] if f == "A" else [str(len(f))] + [str(x) for x in f])
        a, ab = _serialise(t[2], ctr)
        c, cb = _serialise(t[3], ctr)
        return toks + a + c, ["T", i, f, ab, cb]
    if k == "L":
        # number the expansion, then read ids / slot encodings back in template order
        n, fl, sl = t[1], t[2], t[3]
        ar, ns = TMPL[n]
        if len(sl) != ns or len(fl) != len(ar):
            raise HarnessBug("malformed template node %r" % (t,))
        ids = [None] * len(ar)
        stoks = [None] * ns
        snum = [None] * ns

        def slot(j):
            stoks[j], snum[j] = _serialise(sl[j], ctr)
            return snum[j]

        def lvl(j):
            ctr[0] += 1
            ids[j] = ctr[0]
            return ctr[0]

        f = [_filt(a, x) for a, x in zip(ar, fl)]
        # each branch mirrors _expand in pre-order: T id, body..., handler...
        if n == 1:
            o = lvl(0); s0 = slot(0); i = lvl(1); s1 = slot(1); s2 = slot(2); s3 = slot(3); s4 = slot(4)
            num = ["T", o, f[0], ["S", [s0, ["T", i, f[1], s1, s2], s3]], s4]
        elif n == 2:
            o = lvl(0); s0 = slot(0); s1 = slot(1); i = lvl(1); s2 = slot(2); s3 = slot(3); s4 = slot(4)
            num = ["T", o, f[0], s0, ["S", [s1, ["T", i, f[1], s2, s3], s4]]]
        elif n == 3:
            o = lvl(0); s0 = slot(0); m = lvl(1); s1 = slot(1); i = lvl(2); s2 = slot(2); s3 = slot(3)
            s4 = slot(4); s5 = slot(5); s6 = slot(6); s7 = slot(7)
            num = ["T", o, f[0], ["S", [s0, ["T", m, f[1], ["S", [s1, ["T", i, f[2], s2, s3], s4]], s5], s6]], s7]
        else:
            o = lvl(0); i1 = lvl(1); s0 = slot(0); s1 = slot(1); s2 = slot(2); s3 = slot(3); i2 = lvl(2)
            s4 = slot(4); s5 = slot(5); s6 = slot(6)
            num = ["T", o, f[0], ["S", [["T", i1, f[1], s0, s1], s2]], ["S", [s3, ["T", i2, f[2], s4, s5], s6]]]
        toks = ["L", str(n)] + [str(x) for x in ids]
        for a, x in zip(ar, fl):
            if a:
                if len(x) != a:
                    raise HarnessBug("template filter arity %r" % (t,))
                toks += [str(v) for v in x]
        for j in range(ns):
            toks += stoks[j]
        return toks, num
    raise HarnessBug("bad node %r" % (t,))


# ---- reference interpreter (DESIGN.md D.1) ---------------------------------------------------

OK = "ok"


def ref_run(t, trace, st_, enc=0):
    """t: numbered plain tree.  Returns OK or ("raise", kind); appends the expected events to trace.
    st_ only collects coverage facts (it never influences the result)."""
    k = t[0]
    if k == "S":
        for x in t[1]:
            r = ref_run(x, trace, st_, enc)
            if r != OK:
                return r
        return OK
    if k == "M":
        trace.append("mark %d" % t[1])
        return OK
    if k == "X":
        how = t[2] if len(t) > 2 else 0
        if how == 1:
            st_["ev"].add("raised-by-library")
        elif how >= 2:
            st_["ev"].add("long-message")
        if t[1] >= 7:
            st_["ev"].add("builtin-kind-7-9")
        return ("raise", t[1])
    if k == "C":
        st_["ev"].add("call")
        return ref_run(t[1], trace, st_, enc)
    if k == "T":
        _, i, filt, body, handler = t
        cnt = 1
    else:
        _, i, cnt, filt, body, handler = t
        st_["ev"].add("nest-%s" % ("2..40" if cnt <= 40 else "41..300" if cnt <= 300 else "301..2040"))
    if filt != "A" and len(filt) > 3:
        st_["ev"].add("filter-arity-%d" % len(filt))
    for j in range(cnt):                                # outermost first
        trace.append("pre %d" % (i + j))
    h0 = st_["handled"]
    r = ref_run(body, trace, st_, enc + cnt)
    for j in range(cnt - 1, -1, -1):                    # the blocks end innermost first
        if r == OK:                                     # handler must NOT run
            if st_["handled"] > h0:
                st_["ev"].add("inner-handled-outer-normal")
            trace.append("post %d" % (i + j))
            continue
        kind = r[1]
        if filt == "A" or any(TN[f] == TN[kind] for f in filt):
            trace.append("handler %d %s 1" % (i + j, KN[kind]))   # bound object is the thrown one
            r2 = ref_run(handler, trace, st_, enc + j + 1)
            if r2 == OK:
                st_["handled"] += 1
                trace.append("post %d" % (i + j))
            else:
                st_["ev"].add("handler-rethrow" if r2[1] == kind else "handler-throw")
            r = r2                                       # a throw here propagates outwards
        else:
            st_["ev"].add("nonmatch-inner" if enc + j > 0 else "nonmatch-top")
            if cnt > 40 and j == 0:
                st_["ev"].add("passes-through-deep-nest")
    return r                                             # still raising: propagates outwards


def reference(tree_numbered):
    trace = ["begin"]
    st_ = {"handled": 0, "ev": set()}
    r = ref_run(tree_numbered, trace, st_)
    if r == OK:
        trace.append("end")
    else:
        trace.append("child exit=1 sig=0 uncaught=%s" % TN[r[1]])
        st_["ev"].add("escape")
    return r, trace, st_["ev"]


# ---- observation parsing ---------------------------------------------------------------------

def _split_depths(lines):
    """Observed lines -> (lines without depth numbers, depth records)."""
    plain, recs = [], []
    for ln in lines:
        w = ln.split(" ")
        if w[0] in ("begin", "end") and len(w) == 2 and w[1].lstrip("-").isdigit():
            plain.append(w[0])
            recs.append((w[0], None, int(w[1])))
        elif w[0] in ("pre", "post") and len(w) == 3 and w[2].lstrip("-").isdigit():
            plain.append("%s %s" % (w[0], w[1]))
            recs.append((w[0], w[1], int(w[2])))
        else:
            plain.append(ln)
    return plain, recs


def _check_depths(recs):
    stack = []
    begin = None
    for (what, i, d) in recs:
        if what == "begin":
            begin = d
            stack = []
            if d != 0:
                return "len(current(Exception)) is %d before a top-level construct (expected 0)" % d
        elif what == "end":
            if d != begin:
                return "len(current(Exception)) is %d after the tree, was %d before it" % (d, begin)
        elif what == "pre":
            stack.append((i, d))
        else:
            while stack and stack[-1][0] != i:
                stack.pop()                          # constructs left by an exception
            if not stack:
                return "post %s without pre" % i
            _, d0 = stack.pop()
            if d != d0:
                return "len(current(Exception)) is %d after try/catch #%s, was %d before it" % (d, i, d0)
    return None


# ---- running a case --------------------------------------------------------------------------

def _show(t):
    k = t[0]
    if k == "M":
        return "M%d" % t[1]
    if k == "X":
        how = t[2] if len(t) > 2 else 0
        return ("throw(%s)", "library-raises(%s)", "throw(%s, 300 chars)", "throw(%s, 6000 chars)", "throw(%s, format with %%%%)")[how] % KN[t[1]]
    if k == "C":
        return "call{%s}" % _show(t[1])
    if k == "S":
        return "{" + "; ".join(_show(x) for x in t[1]) + "}"
    if k == "N":
        f = "" if t[3] == "A" else " in " + ",".join(KN[x] for x in t[3])
        return "nest#%d..%d x%d{%s} each catch(e%s) {%s}" % (t[1], t[1] + t[2] - 1, t[2], _show(t[4]), f, _show(t[5]))
    f = "" if t[2] == "A" else " in " + ",".join(KN[x] for x in t[2])
    return "try#%d {%s} catch(e%s) {%s}" % (t[1], _show(t[3]), f, _show(t[4]))


def _validate(case):
    if not isinstance(case, dict) or not isinstance(case.get("trees"), list) or not case["trees"]:
        raise HarnessBug("malformed case")
    for t in case["trees"]:
        for n in _walk(t):
            fs = [n[1]] if n[0] == "T" else [n[2]] if n[0] == "N" else n[2] if n[0] == "L" else []
            for f in fs:
                if f != "A" and (len(set(f)) != len(f) or not all(isinstance(x, int) and 0 <= x < NK for x in f)):
                    raise HarnessBug("filter is not a set of kinds: %r" % (f,))
                if n[0] != "L" and f != "A" and len(f) not in ARITIES:
                    raise HarnessBug("no catch site of arity %d" % len(f))
            if n[0] == "N" and not (isinstance(n[1], int) and 1 <= n[1] <= MAX_OPEN):
                raise HarnessBug("bad nest count %r" % (n[1],))
            if n[0] == "X" and len(n) > 2 and (n[2] not in (0, 1, 2, 3, 4) or (n[2] == 1 and n[1] not in LIBK)):
                raise HarnessBug("bad throw node %r" % (n,))
    thr = case.get("thread") or []
    if not (isinstance(thr, list) and all(isinstance(h, int) and -1 <= h <= 3 for h in thr)):
        raise HarnessBug("malformed thread list")
    for t in case["trees"]:
        if open_blocks(_expand(t)) > MAX_OPEN:
            raise HarnessBug("more than %d try blocks open at once (the library's buffer has 2048)" % MAX_OPEN)


def encode(case):
    """-> list of (command line, numbered plain tree, reference result, expected trace, events)."""
    _validate(case)
    out = []
    thr = case.get("thread") or []
    for idx, t in enumerate(case["trees"]):
        toks, num = _serialise(t, [0])
        check = _number(_expand(t), [0])
        if check != num:
            raise HarnessBug("template numbering disagrees with its expansion")
        r, trace, ev = reference(num)
        if any(n[0] == "L" for n in _walk(t)):
            ev.add("lexical-template")
        h = thr[idx] if idx < len(thr) else -1
        if h >= 0:
            ev.add("in-thread" if r == OK else "escape-in-thread")
            cmd = ("trun %d " % h if r == OK else "tfork %d " % h) + " ".join(toks)
        else:
            cmd = ("run " if r == OK else "fork ") + " ".join(toks)
        out.append((cmd, num, r, trace, ev))
    return out


def _walk(t):
    yield t
    k = t[0]
    if k == "C":
        yield from _walk(t[1])
    elif k == "S":
        for x in t[1]:
            yield from _walk(x)
    elif k == "T":
        yield from _walk(t[2])
        yield from _walk(t[3])
    elif k == "N":
        yield from _walk(t[3])
        yield from _walk(t[4])
    elif k == "L":
        for x in t[3]:
            yield from _walk(x)


def run_case(ctx, case):
    enc = encode(case)
    ex = ctx.executor("ex_exc_plain" if case.get("build") == "plain" else "ex_exc")
    obs = ex.run("\n".join(e[0] for e in enc), timeout=RUN_TIMEOUT if _hangs[0] < 2 else RUN_TIMEOUT_AFTER_HANGS)
    if obs and obs[-1] == "HANG":
        _hangs[0] += 1
    events = set()
    nontrivial = False
    for (_, num, r, trace, ev) in enc:
        events |= ev
        if try_nesting(num) >= 2 and ev & {"inner-handled-outer-normal", "handler-throw", "handler-rethrow",
                                           "nonmatch-inner"}:
            nontrivial = True
    if len(case["trees"]) > 1:
        events.add("sequence-of-trees")
    events.add("build:" + ("gcc-O0" if case.get("build") == "plain" else "clang-asan"))
    events = sorted(events)
    plain, recs = _split_depths(obs)
    want = [ln for e in enc for ln in e[3]]
    fail = None
    if plain != want:
        # locate the tree and the first differing event
        pos = 0
        for idx, (cmd, num, r, trace, ev) in enumerate(enc):
            got = plain[pos:pos + len(trace)]
            if got != trace:
                j = 0
                while j < len(got) and j < len(trace) and got[j] == trace[j]:
                    j += 1
                g = got[j] if j < len(got) else "<nothing>"
                w = trace[j] if j < len(trace) else "<nothing>"
                fail = ("tree %d: %s | event %d: observed '%s', reference '%s' | observed trace: %s" %
                        (idx, _show(num), j, g, w, ", ".join(plain[pos:pos + len(trace) + 2])))
                break
            pos += len(trace)
        if fail is None:
            fail = "extra output after the last tree: %s" % ", ".join(plain[len(want):][:6])
    else:
        fail = _check_depths(recs)
        if fail:
            fail = "%s | trees: %s" % (fail, " ;; ".join(_show(e[1]) for e in enc))
    if fail:
        ex.close()      # never let a broken exception state leak into the next case
    return Result(fail, nontrivial, events, obs)


def SAMPLE(case):
    try:
        thr = case.get("thread") or []
        tag = lambda i: " [in a Thread, main holds %d try blocks]" % thr[i] if i < len(thr) and thr[i] >= 0 else ""
        txt = " ;; ".join(_show(_number(_expand(t), [0])) + tag(i) for i, t in enumerate(case["trees"]))
        return txt + (" [gcc -O0 build]" if case.get("build") == "plain" else "")
    except Exception:
        return case


# ---- generator -------------------------------------------------------------------------------

_kind = st.integers(0, NK - 1)


class _Gen:
    """Budgeted recursive generator.  `d` = remaining height, `res` = nodes reserved for siblings still to
    come; bud[0] - res is what this subtree may use (always >= 1)."""

    def __init__(self, draw, budget):
        self.draw = draw
        self.bud = [budget]
        self.deep = 2000          # try blocks this tree may still spend on Nest nodes (sum over the tree)

    def arity(self):
        return self.draw(st.sampled_from([1, 1, 1, 2, 2, 3, 3, 5, 8]))

    def others(self, k, n):
        """n distinct kinds other than k"""
        f = self.draw(st.lists(st.integers(0, NK - 2), min_size=n, max_size=n, unique=True))
        return [j if j < k else j + 1 for j in f]

    def nest_count(self, big_ok=True):
        """0 when the tree has used up its allowance"""
        if self.deep < 2:
            return 0
        if big_ok and self.draw(st.integers(0, 3)) == 0:
            c = self.draw(st.sampled_from([255, 256, 257, 1000, 2000]))
        else:
            c = self.draw(st.integers(2, 40))
        c = min(c, self.deep)
        self.deep -= c
        return c

    def avail(self, res):
        return self.bud[0] - res

    def other(self, k):
        j = self.draw(st.integers(0, NK - 2))
        return j if j < k else j + 1

    # filters are SETS of kinds (statement: "all filter sets"): entries are pairwise distinct
    def f_any(self):
        if self.draw(st.integers(0, 3)) == 0:
            return "A"
        n = self.arity()
        return self.draw(st.lists(_kind, min_size=n, max_size=n, unique=True))

    def f_match(self, k):
        if self.draw(st.integers(0, 2)) == 0:
            return "A"
        f = self.others(k, self.arity() - 1)
        p = self.draw(st.integers(0, len(f)))
        m = k
        if k in (4, 19) and (4 + 19 - k) not in f and self.draw(st.integers(0, 1)) == 0:
            m = 4 + 19 - k                       # the filter names the other object of the same type name
        return f[:p] + [m] + f[p:]

    def f_non(self, k):
        return self.others(k, self.arity())

    def f_fixed(self, k, arity):
        """exactly `arity` distinct kinds, containing k half of the time"""
        f = self.draw(st.lists(st.integers(0, NK - 2), min_size=arity, max_size=arity, unique=True))
        f = [j if j < k else j + 1 for j in f]
        if arity and self.draw(st.integers(0, 1)) == 0:
            f[self.draw(st.integers(0, arity - 1))] = k
        return f

    def leaf(self):
        self.bud[0] -= 1
        c = self.draw(st.integers(0, 2))
        return ["M"] if c < 2 else self.how(["X", self.draw(_kind)])

    def mark(self):
        self.bud[0] -= 1
        return ["M"]

    def how(self, x):
        """the way the exception is raised: the throw macro (short or long message) or a library function"""
        c = self.draw(st.integers(0, 10))
        if c <= 5:
            return x
        if c <= 7:
            return x + [1] if x[1] in LIBK else x
        if c == 10:
            return x + [4]                       # message format with literal % signs
        return x + [2 if c == 8 else 3]

    def throw(self, k, lexical=False):
        self.bud[0] -= 1
        return ["X", k] if lexical else self.how(["X", k])

    # a subtree that raises k (when nothing inside interferes)
    def thrower(self, k, d, res):
        a = self.avail(res)
        c = self.draw(st.integers(0, 8)) if d >= 1 else 0
        if c >= 7 and a >= 3:
            # through a deep nest: no level matches (c == 7), or every level's handler rethrows (c == 8)
            n = self.nest_count()
            if n:
                self.bud[0] -= 1
                b = self.thrower(k, d - 1, res + 1)
                if c == 7:
                    return ["N", n, self.f_non(k), b, self.mark()]
                return ["N", n, self.f_match(k), b, self.throw(k)]
        if c == 1 and a >= 2:
            self.bud[0] -= 1
            return ["C", self.thrower(k, d - 1, res)]
        if c == 2 and a >= 3:
            self.bud[0] -= 1
            return ["S", [self.mark(), self.thrower(k, d - 1, res)]]
        if c == 3 and a >= 5 and d >= 2:             # something handled first, then the throw
            self.bud[0] -= 1
            return ["S", [self.handled(d - 1, res + 1), self.thrower(k, d - 1, res)]]
        if c == 4 and a >= 3:                        # passes through a non-matching filter
            self.bud[0] -= 1
            b = self.thrower(k, d - 1, res + 1)
            return ["T", self.f_non(k), b, self.quiet(d - 1, res)]
        if c == 5 and a >= 3:                        # thrown from a handler
            self.bud[0] -= 1
            j = self.draw(_kind)
            b = self.thrower(j, d - 1, res + 1)
            return ["T", self.f_match(j), b, self.thrower(k, d - 1, res)]
        if c == 6 and a >= 4 and d >= 2:
            self.bud[0] -= 1
            return ["S", [self.mark(), self.thrower(k, d - 1, res + 1), self.mark()]]
        return self.throw(k)

    # a try/catch that handles its exception and completes normally
    def handled(self, d, res):
        if self.avail(res) < 3 or d < 1:
            return self.mark()
        self.bud[0] -= 1
        k = self.draw(_kind)
        n = self.nest_count() if self.draw(st.integers(0, 5)) == 0 else 0
        b = self.thrower(k, d - 1, res + 1)
        if n:                                          # the innermost of n blocks handles, n - 1 complete normally
            return ["N", n, self.f_match(k), b, self.quiet(d - 1, res)]
        return ["T", self.f_match(k), b, self.quiet(d - 1, res)]

    # a subtree that completes normally
    def quiet(self, d, res):
        a = self.avail(res)
        c = self.draw(st.integers(0, 5)) if d >= 1 else 0
        if c == 2 and a >= 3:
            self.bud[0] -= 1
            return ["S", [self.mark(), self.quiet(d - 1, res)]]
        if c == 3 and a >= 3:
            return self.handled(d, res)
        if c == 4 and a >= 3:
            self.bud[0] -= 1
            b = self.quiet(d - 1, res + 1)
            return ["T", self.f_any(), b, self.leaf()]
        if c == 5 and a >= 2:
            self.bud[0] -= 1
            return ["C", self.quiet(d - 1, res)]
        return self.mark()

    def after(self, d, res):
        """What follows an inner construct inside an enclosing body."""
        c = self.draw(st.integers(0, 3))
        if c == 0 or self.avail(res) < 1:
            return None
        if c == 3:
            return self.node(d, res)
        return self.mark()

    def template(self, d, res):
        a = self.avail(res)
        opts = []
        if d >= 3 and a >= 8:
            opts += [1, 2]
        if d >= 5 and a >= 13:
            opts += [3]
        if d >= 3 and a >= 13:
            opts += [4]
        if not opts:
            return None
        n = opts[self.draw(st.integers(0, len(opts) - 1))]
        ar, ns = TMPL[n]
        over = {1: 3, 2: 3, 3: 5, 4: 6}[n]
        top = {1: 3, 2: 3, 3: 5, 4: 3}[n]      # deepest slot sits this far below the template root
        self.bud[0] -= over
        k = self.draw(_kind)
        fl = [self.f_fixed(k, x) for x in ar]
        slots = []
        for j in range(ns):
            r2 = res + (ns - 1 - j)
            c = self.draw(st.integers(0, 7))
            if c <= 2:
                slots.append(self.mark())
            elif c <= 4:
                slots.append(self.throw(k, lexical=True))
            elif c == 5:
                slots.append(self.throw(self.draw(_kind)))      # lexical too when it is a plain throw
            elif c == 6:
                slots.append(self.thrower(k, d - top, r2))
            else:
                slots.append(self.node(d - top, r2))
        return ["L", n, fl, slots]

    def node(self, d, res):
        a = self.avail(res)
        if d <= 0 or a <= 1:
            return self.leaf()
        c = self.draw(st.integers(0, 14))
        if c <= 1:
            return self.leaf()
        if c == 14 and a >= 3:                           # free-form nest
            n = self.nest_count()
            if n:
                self.bud[0] -= 1
                b = self.node(d - 1, res + 1)
                return ["N", n, self.f_any(), b, self.leaf()]
        if c == 2 and a >= 2:
            self.bud[0] -= 1
            return ["C", self.node(d - 1, res)]
        if c in (3, 4) and a >= 3:
            n = self.draw(st.integers(2, min(4, a - 1)))
            self.bud[0] -= 1
            return ["S", [self.node(d - 1, res + (n - 1 - j)) for j in range(n)]]
        if c == 5:
            t = self.template(d, res)
            if t is not None:
                return t
        if a < 3:
            return self.leaf()
        # a try/catch of one of the interesting shapes
        self.bud[0] -= 1
        shape = self.draw(st.integers(0, 5))
        if shape == 0:                               # free form
            b = self.node(d - 1, res + 1)
            return ["T", self.f_any(), b, self.node(d - 1, res)]
        k = self.draw(_kind)
        if shape == 1:                               # inner block handles, this body completes normally
            if a >= 6 and d >= 3:
                pre = self.draw(st.integers(0, 1))
                self.bud[0] -= 1
                items = [self.mark()] if pre and self.avail(res + 4) >= 1 else []
                items.append(self.handled(d - 2, res + 2))
                aft = self.after(d - 2, res + 1)
                if aft is not None:
                    items.append(aft)
                body = ["S", items]
            else:
                body = self.handled(d - 1, res + 1)
            filt = self.f_any()
            return ["T", filt, body, self.leaf()]
        if shape == 2:                               # non-matching filter here
            b = self.thrower(k, d - 1, res + 1)
            return ["T", self.f_non(k), b, self.leaf()]
        if shape == 3:                               # handler throws something else
            b = self.thrower(k, d - 1, res + 1)
            return ["T", self.f_match(k), b, self.thrower(self.draw(_kind), d - 1, res)]
        if shape == 4:                               # handler rethrows the same kind
            b = self.thrower(k, d - 1, res + 1)
            return ["T", self.f_match(k), b, self.thrower(k, d - 1, res)]
        b = self.thrower(k, d - 1, res + 1)          # handled here, quiet handler
        return ["T", self.f_match(k), b, self.quiet(d - 1, res)]


def _top(draw, depth, budget):
    """One top-level tree.  7 times out of 8 a tree whose exception would escape is wrapped into a matching
    try/catch, so that most of the budget goes to programs that keep running in the executor."""
    if draw(st.integers(0, 7)) == 0:
        return _Gen(draw, budget).node(depth, 0)
    g = _Gen(draw, budget - 2)
    t = g.node(depth - 1, 0)
    r, _, _ = reference(_number(_expand(t), [0]))
    if r == OK:
        return t
    return ["T", g.f_match(r[1]), t, ["M"]]


@st.composite
def _cases(draw):
    trees = [_top(draw, MAX_DEPTH, MAX_NODES)]
    more = draw(st.integers(0, 3))
    for _ in range(more):
        trees.append(_top(draw, 4, 12))
    case = {"trees": trees}
    if draw(st.integers(0, 3)) == 0:
        # some trees run in a thread of their own, under try blocks that the main thread holds open
        case["thread"] = [draw(st.sampled_from([-1, 0, 1, 3])) for _ in trees]
    if draw(st.integers(0, 3)) == 0:
        case["build"] = "plain"       # the Makefile's gcc -O0 flags: another setjmp / frame layout
    return case


def strategy(tier):
    return _cases()


def within_bounds(case):
    t0 = _expand(case["trees"][0])
    if size(t0) > MAX_NODES or height(t0) > MAX_DEPTH:
        return False
    return all(size(_expand(t)) <= 12 and height(_expand(t)) <= 4 for t in case["trees"][1:])


# ---- enumeration of small trees ----------------------------------------------------------------

_ENUM_LEAVES = [["M"], ["X", 0], ["X", 1]]
_ENUM_FILTS = ["A", [0], [1]]


def _enum_size(n, by):
    """All trees of exactly n nodes over {M, X0, X1, Seq2 (left child not a Seq), Try(A|[0]|[1])};
    `by` maps smaller sizes to their full lists.  (Call is semantically the identity and is left to the
    random phase.)  Complex bodies come first."""
    if n == 1:
        for t in _ENUM_LEAVES:
            yield t
        return
    for a in range(n - 2, 0, -1):
        b = n - 1 - a
        if not by.get(a) or not by.get(b):
            continue
        for x in by[a]:
            for y in by[b]:
                for f in _ENUM_FILTS:
                    yield ["T", f, x, y]
        for x in by[a]:
            if x[0] == "S":
                continue
            for y in by[b]:
                yield ["S", [x, y]]


def enum_trees(bound, max_size=9):
    """Size order; every size that fits into `bound` completely, then an evenly strided sample of the
    next size filling the rest of the bound."""
    by = {}
    left = bound
    for n in range(1, max_size + 1):
        if left <= 0:
            return
        total = sum(1 for _ in _enum_size(n, by))
        if total == 0:
            continue
        if total <= left:
            cur = []
            for t in _enum_size(n, by):
                cur.append(t)
                yield t
            by[n] = cur
            left -= total
        else:
            stride = -(-total // left)
            for i, t in enumerate(_enum_size(n, by)):
                if i % stride == 0:
                    yield t
            return


_PROBE = ["T", "A", ["S", [["T", [0], ["X", 0], ["M"]], ["M"]]], ["M"]]


def extra_phase(ctx, tier, stats, sample_fn):
    bound = int(os.environ.get("VERIF_C07_ENUM", ENUM_BOUND[tier]))
    fails = []
    n = 0
    biggest = 0
    for t in enum_trees(bound):
        case = {"trees": [t]}
        res = run_case(ctx, case)
        stats.add(case, res, sample_fn)
        n += 1
        biggest = max(biggest, size(t))
        if res.fail:
            fails.append((case, res.fail))
            break                                   # size order: the first failure is a smallest one
    # a few hundred of the same programs, each followed by a fixed second construct, under the Makefile's
    # gcc flags (no sanitizer, -O0): a different setjmp code generation must give the same traces
    m = 0
    if not fails:
        for t in enum_trees(min(bound, 400)):
            case = {"trees": [t, _PROBE], "build": "plain"}
            res = run_case(ctx, case)
            stats.add(case, res, sample_fn)
            m += 1
            if res.fail:
                fails.append((case, "[gcc -O0 build] " + res.fail))
                break
    # the library's buffer holds 2048 open try blocks: nests that fill it exactly, and one short of it, with the throw
    # handled by the innermost block, passed through every block by a non-matching filter, and with a quiet body
    nb = 0
    if not fails:
        for cnt in (2047, 2048):
            for t in (["N", cnt, [0], ["X", 0], ["M"]],                       # innermost handles, all others unwind quietly
                      ["T", "A", ["N", cnt - 1, [1], ["X", 0], ["M"]], ["M"]],  # passes through cnt-1 non-matching blocks
                      ["N", cnt, "A", ["M"], ["M"]],                          # nothing thrown
                      ["N", cnt, [0, 2], ["X", 2], ["X", 2]]):                # every handler rethrows: escapes at the top
                for bld in ("asan", "plain"):
                    case = {"trees": [t, _PROBE]}
                    if bld == "plain":
                        case["build"] = "plain"
                    res = run_case(ctx, case)
                    stats.add(case, res, sample_fn)
                    nb += 1
                    if res.fail:
                        fails.append((case, res.fail))
    return {"fails": fails, "extra": {"enumerated_trees": n, "enumerated_max_size": biggest,
                                      "enumerated_plain_build": m, "buffer_boundary_nests": nb}}


KNOWN = []
