"""Shared pieces for the collector properties (C01, C06, C17): build + executor access."""
from .. import build

WRAP = ["-Wl,--wrap=malloc", "-Wl,--wrap=calloc", "-Wl,--wrap=realloc", "-Wl,--wrap=free"]


def prepare(tier):
    return {"ex_gc_asan": build.executor("asan", "ex_gc", extra_ldflags=WRAP),
            "ex_gc_plain": build.executor("plain", "ex_gc", extra_ldflags=WRAP)}


def executor(ctx, cfg):
    return ctx.executor("ex_gc_" + cfg)


def parse_kv(line):
    d = {}
    for tok in line.split():
        if "=" in tok:
            k, v = tok.split("=", 1)
            d[k] = v
    return d


def parse_teardown(line):
    if not line.startswith("teardown "):
        return None
    return parse_kv(line)


def check_harness(obs):
    from ..core import HarnessBug
    for o in obs:
        if o.startswith("HARNESS-BUG"):
            raise HarnessBug(o)
