"""C06 - every managed object is finalised exactly once, all memory returned by teardown."""
from hypothesis import strategies as st
from ..core import Result, HarnessBug, load_known
from . import gcx

ID = "C06"
LEVEL = "exploration"
BUDGET = {"quick": 1200, "thorough": 300000}
RULE = ("case = history executed (i) in a fresh Cello Thread (teardown = collector deletion at thread exit) or (ii) in a "
        "fresh process' main thread (teardown = Cello_Exit through atexit, ledger read from an ELF destructor): new / "
        "new_root / new_raw and alloc / alloc_root / alloc_raw (no constructor call) of instrumented objects (malloc'd and "
        "arena-allocated; 48 bytes, 52 bytes, 1 MiB and size 0; one with a malloc'd side block of its own; one whose "
        "DESTRUCTOR ALLOCATES 0..4 managed, ledger-tracked objects - the first of them again such an object for up to 3 "
        "generations - finalised by explicit del / del_root / del_raw, through its owning Box, by forced and threshold sweeps "
        "(bursts of 4..24 of them, so that the births inside one sweep cross the collection threshold) and by teardown; in a "
        "quarter of the cases the end of the history makes root objects owned by managed Boxes, allocating destructors "
        "and an ordinary root meet in the same teardown), copy (also inside stop windows), explicit del / del_root / "
        "del_raw, Box ownership with the owner allocated before or after the owned object, chains and cycles of Boxes, a "
        "garbage Box whose pointee is still registered when the sweep finalises the Box, Array<Box> / List<Box> / "
        "Table<Int,Box> / Tree<Int,Box> owners with pop / pop_at / rem / resize 0 / del / drop, managed, root and raw library "
        "objects with buffers of their own (Array, List, Table, Tree incl. Ref keys, heap Tuple, Thread object with "
        "thread-local entries; built directly or retyped from containers of scalars by assign / copy), objects kept only in "
        "thread-local storage until teardown, dropped references, forced collections, churn (threshold collections), "
        "stop/start windows with allocations and deletions inside. Oracle: destructor ledger - never a second finalisation, no finalisation of an object that is still held in a stack slot, no "
        "destructor on a corrupted/finalised object, an object whose del returned is finalised (except a registered object deleted while the collector is stopped, which may "
        "be left to a later collection), after teardown every managed object finalised exactly once and root/raw objects "
        "exactly by their own del; arena blocks released exactly once and only after finalisation; malloc/calloc/realloc/free "
        "accounting (linker --wrap): no block allocated by the case's thread outstanding after teardown. non-trivial = a sweep "
        "(forced, threshold or teardown) finalised an owner together with its owned object, or a del inside a stop window, or "
        ">= 1 object survived to teardown. distinct = distinct case JSON.")
ASSUMPTIONS = ["out-of-contract histories (double del, del of an object owned by a Box) are not generated",
               "destructors that allocate: chains are finite (a destructor of generation g allocates generation g+1 objects only, at most 3 generations); such objects are never finalised while the collector is stopped (what their destructors allocated would be unregistered and nobody's to delete), so a case that holds one has no further stop window",
               "removing a Box element from its container (pop, pop_at, rem, resize 0, overwriting a key) is not asserted to finalise the pointee at once: left to the collector it would still be finalised exactly once",
               "objects allocated inside a stop window are deleted explicitly inside the window (in-tree documentation makes them the user's duty); deleting them after start is the known finding stop-window-del-after-start",
               "block accounting counts only blocks allocated by the case's own thread"]

prepare = gcx.prepare
# Late-join cases depend on where the creating thread's join lands relative to the thread's teardown: a failing case
# is re-run 10 times in fresh processes and reported if it fails again at least twice (on a tree where the property
# holds the per-run failure probability is zero, not small).
CONFIRM = (2, 10)


@st.composite
def _case(draw):
    ops = []
    nobj = 0
    kept = {}
    rootraw = []
    nodes = set()          # handles of plain instrumented objects (copyable)
    rootcls = {}
    stopped = False
    window_objs = []
    owned = set()
    churn_next = 10000
    nbig = 0
    tls_used = 0
    born_next = 50000      # ledger ids of the objects that allocating destructors will create
    allow_d = draw(st.booleans())      # half of the cases use objects with allocating destructors at all (they exclude stop windows)
    has_d = False          # once a case holds an object with an allocating destructor the collector is not stopped any
                           # more: an object born while it is stopped would be unregistered and nobody's to delete
    flags = {"owner_pair": False, "stop_del": False}
    n = draw(st.integers(2, 50))
    for _ in range(n):
        o = draw(st.sampled_from(["new", "new", "newa", "newa", "newa", "newx", "copy", "del", "drop", "collect", "churn", "box", "boxchain", "boxcycle", "arrb",
                                  "stop", "start", "windel", "bigchain", "cont", "cont", "ownc", "ownc", "tlskeep", "boxlive", "wrapcluster", "wrapcluster",
                                  "dnode", "dnode", "dnode", "dburst", "dburst"]))
        if o in ("new", "newa", "newx"):
            cls = draw(st.sampled_from(["m", "m", "m", "root", "raw"]))
            nobj += 1
            h = nobj
            kind = "nodea" if o == "newa" else "node"
            if o == "newx":
                # objects of size 0, of a size that is not a multiple of the word size, of 1 MiB (at most two per case)
                kind = draw(st.sampled_from(["nodez", "nodez", "nodeo", "nodeb", "nodem"]))
                if kind == "nodeb":
                    if nbig >= 2:
                        kind = "nodeo"
                    else:
                        nbig += 1
            # new / new_root / new_raw, or alloc / alloc_root / alloc_raw without a constructor call
            if kind == "nodea":
                # arena object at an address aimed at a residue class of the registry (-2 = its last slot: clusters that
                # wrap around the table end, -1 = anywhere), as in C01 / C17
                ops.append(["new", h, kind, cls, draw(st.sampled_from([-1, -2, -2, 0, 1]))])
            else:
                ops.append(["alloc" if (kind != "nodem" and draw(st.integers(0, 4)) == 0) else "new", h, kind, cls])
            if kind not in ("nodez", "nodem"):
                nodes.add(h)            # copyable (copy of a size-0 object raises TypeError: nothing to assign)
            rootcls[h] = (cls, stopped)
            if stopped and cls != "raw":
                window_objs.append(h)       # unregistered: must be deleted by hand inside the window
            elif cls == "m":
                if draw(st.booleans()) and len(kept) < 16:
                    slot = min(set(range(16)) - set(kept))
                    kept[slot] = h
                    ops.append(["stk", slot, h])
            else:
                rootraw.append(h)
        elif o == "copy":
            srcs = [h for h in kept.values() if h in nodes]
            if srcs:
                src = draw(st.sampled_from(sorted(srcs)))
                nobj += 1
                ops.append(["copy", nobj, src])
                if stopped:
                    window_objs.append(nobj)    # the copy is not registered either: deleted by hand inside the window
        elif o == "del":
            cands = list(kept.items())
            if rootraw and (not cands or draw(st.booleans())):
                h = rootraw.pop(draw(st.integers(0, len(rootraw) - 1)))
                # a registered root deleted while the collector is stopped may be left to a later collection
                ops.append(["del", h, "now"])
            elif cands:
                slot, h = cands[draw(st.integers(0, len(cands) - 1))]
                del kept[slot]
                ops.append(["dt0", h])          # still referenced from the stack: no collection may have finalised it
                ops.append(["unstk", slot])
                ops.append(["del", h, "now"])
                if stopped:
                    flags["stop_del"] = True
        elif o == "windel":
            if window_objs:
                h = window_objs.pop(draw(st.integers(0, len(window_objs) - 1)))
                ops.append(["del", h, "now"])
                flags["stop_del"] = True
        elif o == "drop":
            if kept:
                slot = draw(st.sampled_from(sorted(kept)))
                ops.append(["dt0", kept[slot]])
                del kept[slot]
                ops.append(["unstk", slot])
        elif o == "collect":
            ops.append(["collect"])
        elif o == "churn":
            cnt = draw(st.sampled_from([5, 20, 60, 150]))
            if churn_next + cnt < 39000 and not stopped:
                ops.append(["churn", churn_next, cnt])
                churn_next += cnt
        elif o == "box" and not stopped:
            nobj += 3
            t, b, tmp = nobj - 2, nobj - 1, nobj
            kind = draw(st.sampled_from(["node", "nodea"]))
            free = sorted(set(range(16)) - set(kept))
            how = draw(st.sampled_from(["drop", "keepdel", "keep"]))
            if draw(st.booleans()) or not free:
                ops.append(["new", t, kind, "m"])
                ops.append(["new", b, "box", "m", t])          # owned older than owner
                if free:
                    ops.append(["stk", free[0], b])
            else:
                # owner older than owned; the owner is protected on the stack while the owned object is allocated
                ops.append(["new", tmp, "node", "m"])
                ops.append(["new", b, "box", "m", tmp])
                ops.append(["stk", free[0], b])
                ops.append(["new", t, kind, "m"])
                ops.append(["store", b, 0, t])
            owned.add(t)
            flags["owner_pair"] = True
            if free:
                if how == "drop":
                    ops.append(["unstk", free[0]])
                elif how == "keepdel":
                    ops.append(["unstk", free[0]])
                    ops.append(["delowner", b, t])
                else:
                    kept[free[0]] = b
        elif o == "boxchain" and not stopped:
            # a real chain box -> box -> ... -> node.  new(Box, otherBox) would copy the other box's pointer (two owners
            # of one object, out of contract), so each further owner is created on a temporary target and re-pointed
            # with ref(); the chain head is protected on the stack while it is being built.
            free = sorted(set(range(16)) - set(kept))
            if not free:
                continue
            depth = draw(st.integers(2, 5))
            nobj += 1
            leaf = nobj
            ops.append(["new", leaf, "node", "m"])
            nobj += 1
            head = nobj
            ops.append(["new", head, "box", "m", leaf])
            ops.append(["stk", free[0], head])
            for _ in range(depth - 1):
                nobj += 2
                tmp, b = nobj - 1, nobj
                ops.append(["new", tmp, "node", "m"])
                ops.append(["new", b, "box", "m", tmp])
                ops.append(["store", b, 0, head])
                ops.append(["stk", free[0], b])
                head = b
            how = draw(st.sampled_from(["drop", "del", "keep"]))
            if how == "drop":
                ops.append(["unstk", free[0]])
            elif how == "del":
                ops.append(["unstk", free[0]])
                ops.append(["delowner", head, leaf])
            else:
                kept[free[0]] = head
            flags["owner_pair"] = True
        elif o == "bigchain" and not stopped and not flags.get("big"):
            # thousands of objects that stay reachable until the end: the teardown sweep has real work to do
            free = sorted(set(range(16)) - set(kept))
            if not free:
                continue
            nobj += 1
            h = nobj
            L = draw(st.sampled_from([800, 3000, 6000]))
            ops.append(["new", h, "node", "m"])
            ops.append(["stk", free[0], h])
            ops.append(["chain", h, 100000, L, 0])
            kept[free[0]] = h
            nodes.discard(h)
            flags["big"] = True
        elif o == "boxcycle" and not stopped:
            # owners that form a cycle (B -> C -> B) entered from an outside owner T: everything is garbage at once and
            # the sweep (or an explicit del of T) meets the same object through two owners; it must still be finalised once
            free = sorted(set(range(16)) - set(kept))
            if len(free) < 2:
                continue
            nobj += 6
            n1, B, n2, C, n3, T = nobj - 5, nobj - 4, nobj - 3, nobj - 2, nobj - 1, nobj
            ops.append(["new", n1, "node", "m"])
            ops.append(["new", B, "box", "m", n1])
            ops.append(["stk", free[0], B])
            ops.append(["new", n2, "node", "m"])
            ops.append(["new", C, "box", "m", n2])
            ops.append(["stk", free[1], C])
            ops.append(["store", C, 0, B])          # C -> B
            ops.append(["store", B, 0, C])          # B -> C   (n1, n2 become plain garbage)
            ops.append(["new", n3, "node", "m"])
            ops.append(["new", T, "box", "m", n3])
            ops.append(["store", T, 0, B])          # T -> B
            ops.append(["unstk", free[1]])
            how = draw(st.sampled_from(["drop", "drop", "del"]))
            if how == "drop":
                ops.append(["unstk", free[0]])
            else:
                ops.append(["stk", free[0], T])
                ops.append(["unstk", free[0]])
                ops.append(["delowner", T, -1])
            if draw(st.booleans()):
                ops.append(["collect"])
            flags["owner_pair"] = True
        elif o == "arrb" and not stopped:
            if len(kept) >= 16:
                continue
            nobj += 1
            a = nobj
            ops.append(["new", a, "arrb", "m"])
            slot = min(set(range(16)) - set(kept))
            ops.append(["stk", slot, a])
            for _ in range(draw(st.integers(1, 6))):
                nobj += 1
                ops.append(["new", nobj, "node", "m"])
                ops.append(["store", a, 0, nobj])
            flags["owner_pair"] = True
            if slot is not None:
                how = draw(st.sampled_from(["drop", "del", "pop"]))
                if how == "pop":
                    ops.append(["unstore", a, 0])
                    kept[slot] = a
                elif how == "del":
                    ops.append(["unstk", slot])
                    ops.append(["delowner", a, -1])
                else:
                    ops.append(["unstk", slot])
        elif o == "cont" and not stopped:
            # a library container (or a Thread object with thread-local entries) holding references to instrumented
            # objects: it owns buffers / nodes / a table of its own, which must be released when it is finalised by a
            # sweep, by teardown or by its own del; built directly or retyped from a container of scalars
            kind = draw(st.sampled_from(["arr", "lst", "tab", "tre", "tup", "tabr", "trer", "thr"]))
            cls = draw(st.sampled_from(["m", "m", "m", "root", "raw"]))
            rt = draw(st.sampled_from([0, 0, 1, 2, 3])) if kind not in ("tup", "thr") else 0
            free = sorted(set(range(16)) - set(kept))
            if cls == "m" and not free:
                continue                    # no stack slot to protect a managed container while its elements are allocated
            nobj += 1
            c = nobj
            ops.append(["new", c, kind, cls] + (["retype%d" % rt] if rt else []))
            keep = cls == "m" and free and draw(st.booleans())
            if cls == "m" and free:
                ops.append(["stk", free[0], c])       # protected while its elements are allocated
            tg = []
            for j in range(draw(st.integers(0, 5))):
                nobj += 1
                ops.append(["new", nobj, "node", "m"])
                if kind in ("tabr", "trer"):
                    ops.append(["store", c, tg[-1] if tg else nobj, nobj])
                else:
                    ops.append(["store", c, j, nobj])
                tg.append(nobj)
            if tg and draw(st.booleans()):
                ops.append(["unstore", c, (tg[0] if len(tg) == 1 else tg[-2]) if kind in ("tabr", "trer") else len(tg) - 1])
            if cls != "m":
                how = draw(st.sampled_from(["del", "late"]))
                if how == "del":
                    ops.append(["delowner", c, -1])
                else:
                    rootraw.append(c)
            elif keep:
                kept[free[0]] = c
            elif free:
                ops.append(["unstk", free[0]])
                if draw(st.booleans()):
                    ops.append(["delowner", c, -1])
            flags["cont"] = True
        elif o == "ownc" and not stopped:
            # a container whose elements are Boxes: List<Box>, Table<Int,Box>, Tree<Int,Box> (Array<Box> is `arrb`).
            # Removing an element (pop, pop_at, rem, resize 0), deleting or dropping the container finalises the owned objects.
            free = sorted(set(range(16)) - set(kept))
            if not free:
                continue
            kind = draw(st.sampled_from(["lstb", "tabb", "treb", "arrb"]))
            rt = draw(st.sampled_from([0, 0, 1]))
            nobj += 1
            c = nobj
            ops.append(["new", c, kind, "m"] + (["retype%d" % rt] if rt else []))
            ops.append(["stk", free[0], c])
            held = []
            for j in range(draw(st.integers(1, 6))):
                nobj += 1
                ops.append(["new", nobj, draw(st.sampled_from(["node", "node", "nodea", "nodez", "nodeo"])), "m"])
                ops.append(["store", c, j, nobj])
                held.append((j, nobj))
            for _ in range(draw(st.integers(0, 3))):
                if not held:
                    break
                if kind in ("lstb", "arrb"):
                    if draw(st.booleans()):
                        j, t = held.pop()
                        ops.append(["unstore", c, 0])
                    else:
                        i = draw(st.integers(0, len(held) - 1))
                        j, t = held.pop(i)
                        ops.append(["popat", c, i])
                else:
                    j, t = held.pop(draw(st.integers(0, len(held) - 1)))
                    ops.append(["unstore", c, j])
                ops.append(["dt", t])              # (observation only) the removal finalises the owned object
            how = draw(st.sampled_from(["drop", "del", "clear", "keep"]))
            if how == "clear":
                ops.append(["clear", c])
                for j, t in held:
                    ops.append(["dt", t])
                held = []
                how = draw(st.sampled_from(["drop", "del", "keep"]))
            if how == "keep":
                kept[free[0]] = c
            else:
                ops.append(["unstk", free[0]])
                if how == "del":
                    ops.append(["delowner", c, -1])
                    for j, t in held:
                        ops.append(["dt", t])
            flags["owner_pair"] = True
        elif o == "dnode" and not stopped and allow_d:
            # an instrumented object whose destructor allocates k managed, ledger-tracked objects - whichever route
            # finalises it: explicit del / del_root / del_raw, a sweep (forced, threshold), its owning Box, teardown
            k = draw(st.integers(0, 4))
            cls = draw(st.sampled_from(["m", "m", "m", "m", "root", "raw"]))
            how = draw(st.sampled_from(["keep", "garbage", "box", "boxdel", "del"]))
            nobj += 1
            h = nobj
            # depth = allocating generations: the first child is again such an object (one child, depth - 1); at most 3
            ops.append(["new", h, "noded", cls, k, born_next, draw(st.sampled_from([1, 1, 2, 3]))])
            born_next += 8
            has_d = True
            free = sorted(set(range(16)) - set(kept))
            if cls != "m":
                if how == "del":
                    ops.append(["del", h, "now"])
                else:
                    rootraw.append(h)
            elif how in ("box", "boxdel"):
                nobj += 1
                b = nobj
                ops.append(["new", b, "box", "m", h])
                if how == "boxdel":
                    ops.append(["delowner", b, h])
                    ops.append(["dt1", h])
                elif free and draw(st.booleans()):
                    kept[free[0]] = b
                    ops.append(["stk", free[0], b])
                flags["owner_pair"] = True
            elif how == "del":
                ops.append(["del", h, "now"])
            elif how == "keep" and free:
                kept[free[0]] = h
                ops.append(["stk", free[0], h])
        elif o == "dburst" and not stopped and allow_d:
            # many unreferenced objects with allocating destructors, then a collection: the objects born while the sweep
            # finalises its pending list push the registry over its threshold INSIDE the sweep
            for _ in range(draw(st.integers(4, 24))):
                nobj += 1
                ops.append(["new", nobj, "noded", "m", draw(st.sampled_from([1, 2, 3, 3, 4, 4])), born_next, draw(st.sampled_from([1, 1, 1, 2, 3]))])
                born_next += 8
            has_d = True
            trig = draw(st.sampled_from(["collect", "churn", "none"]))
            if trig == "collect":
                ops.append(["collect"])
            elif trig == "churn" and churn_next + 150 < 39000:
                ops.append(["churn", churn_next, 150])
                churn_next += 150
        elif o == "wrapcluster" and not stopped:
            # arena objects aimed at the registry's last slot: a probe cluster that wraps around the table end, made of
            # garbage and of objects kept on the stack, swept right away (the kept ones must survive it unfinalised)
            for j in range(draw(st.integers(3, 8))):
                nobj += 1
                ops.append(["new", nobj, "nodea", "m", -2])
                nodes.add(nobj)
                free = sorted(set(range(16)) - set(kept))
                if j >= 1 and free and draw(st.booleans()):
                    kept[free[0]] = nobj
                    ops.append(["stk", free[0], nobj])
            ops.append(["collect"])
            for slot in sorted(kept):
                ops.append(["dt0", kept[slot]])
        elif o == "tlskeep" and not stopped and tls_used < 6:
            # an object referenced only from the thread's thread-local storage, never removed: finalised by teardown
            nobj += 1
            ops.append(["new", nobj, draw(st.sampled_from(["node", "nodea", "nodez"])), "m"])
            ops.append(["tls", tls_used, nobj])
            tls_used += 1
        elif o == "boxlive" and not stopped:
            # the Box is garbage while its pointee is still seen by the conservative scan (a stale stack slot): the sweep
            # finalises the Box, whose destructor deletes an object that is still REGISTERED (not pending)
            free = sorted(set(range(16)) - set(kept))
            if not free:
                continue
            nobj += 2
            t, b = nobj - 1, nobj
            ops.append(["note", "box-deletes-registered-pointee"])
            ops.append(["new", t, draw(st.sampled_from(["node", "nodea"])), "m"])
            ops.append(["stk", free[0], t])
            ops.append(["new", b, "box", "m", t])
            ops.append(["collect"])
            ops.append(["unstk", free[0]])
            flags["owner_pair"] = True
        elif o == "stop" and not stopped and not has_d:
            ops.append(["stop"])
            stopped = True
        elif o == "start" and stopped:
            for h in window_objs:
                ops.append(["del", h, "now"])
                flags["stop_del"] = True
            window_objs = []
            ops.append(["start"])
            stopped = False
    if stopped:
        for h in window_objs:
            ops.append(["del", h, "now"])
        if draw(st.booleans()):
            ops.append(["start"])
        else:
            ops.append(["note", "teardown-while-stopped"])      # the thread / program ends with its collector stopped
    ended_stopped = bool(ops) and ops[-1] == ["note", "teardown-while-stopped"]
    for h in rootraw:
        ops.append(["del", h, "now"])
    for slot in sorted(kept):
        ops.append(["dt0", kept[slot]])
    if draw(st.booleans()):
        for slot in sorted(kept):
            ops.append(["unstk", slot])
        kept = {}
        ops.append(["collect"])
    if draw(st.integers(0, 3)) == 0 and not ended_stopped:
        # "teardown mix": things that must meet in the SAME teardown (thread exit / program exit), all alive until then:
        # root-registered objects that a managed Box owns (the teardown sweep finalises the Box, whose destructor
        # releases the still registered root), objects with allocating destructors (k >= 1, up to 3 generations), and
        # optionally a root nobody owns, deleted by the case itself as usual
        ops.append(["note", "teardown-mix"])
        for slot in range(9, 16):
            if slot in kept:
                ops.append(["unstk", slot])         # make room (what was held there becomes garbage)
                del kept[slot]
        slot = 9
        r2 = None
        if draw(st.booleans()):
            nobj += 1
            r2 = nobj
            ops.append(["new", r2, "node", "root"])
        for _ in range(draw(st.integers(1, 3))):
            nobj += 2
            r, b = nobj - 1, nobj
            rk = draw(st.sampled_from(["node", "node", "nodea", "noded", "arr", "tup"]))
            if rk == "noded":
                ops.append(["new", r, "noded", "root", draw(st.integers(0, 2)), born_next, draw(st.sampled_from([1, 1, 2]))])
                born_next += 8
            else:
                ops.append(["new", r, rk, "root"])
            ops.append(["own", r])                  # from now on released through its Box (Box_Del -> del)
            ops.append(["new", b, "box", "m", r])
            ops.append(["stk", slot, b])
            slot += 1
        for _ in range(draw(st.integers(1, 3))):
            nobj += 1
            ops.append(["new", nobj, "noded", "m", draw(st.sampled_from([1, 1, 1, 2, 3])), born_next, draw(st.sampled_from([1, 1, 2, 3]))])
            born_next += 8
            ops.append(["stk", slot, nobj])
            slot += 1
        if r2 is not None:
            ops.append(["del", r2, "now"])
    # "joinlate": the creating thread joins only after the thread's function has returned (plus a spin): join must
    # still wait for the teardown of the thread's collector.  A stimulus only; the oracle stays the ledger.
    return {"ops": ops, "cfg": draw(st.sampled_from(["asan", "plain", "plain"])), "mode": draw(st.sampled_from(["thread", "thread", "thread", "main"])),
            "joinlate": draw(st.sampled_from([-1, -1, 0, 3000, 100000, 3000000]))}


def strategy(tier):
    return _case()


NODEKINDS = ("node", "nodea", "nodeb", "nodeo", "nodez", "nodem", "noded")


def encode(case):
    lines = []
    expect = []
    kinds = {}

    def emit(line, exp=None):
        lines.append(line)
        expect.append(exp)

    for op in case["ops"]:
        o = op[0]
        if o == "new":
            kinds[op[1]] = op[2]
            if op[2] in ("box",):
                emit("new %d box %s %d" % (op[1], op[3], op[4]))
            else:
                if len(op) > 4 and str(op[4]).startswith("retype"):
                    emit("retype %s" % op[4][6:])
                if op[2] == "noded":
                    emit("new %d noded %s %d %d %d" % (op[1], op[3], op[4], op[5], op[6] if len(op) > 6 else 1))
                elif op[2] == "nodea" and len(op) > 4 and op[4] != -1:
                    emit("new %d nodea %s %s" % (op[1], op[3], "last" if op[4] == -2 else str(op[4])))
                else:
                    emit("new %d %s %s" % (op[1], op[2], op[3]))
        elif o == "alloc":
            kinds[op[1]] = op[2]
            emit("alloc %d %s %s" % (op[1], op[2], op[3]))
        elif o == "copy":
            emit("copy %d %d" % (op[1], op[2]))
        elif o == "store":
            emit("store %d %d %d" % (op[1], op[2], op[3]))
        elif o == "unstore":
            emit("unstore %d %d" % (op[1], op[2]))
        elif o == "popat":
            emit("popat %d %d" % (op[1], op[2]))
        elif o == "clear":
            emit("clear %d" % op[1])
        elif o == "own":
            emit("own %d" % op[1])
        elif o == "dt1":
            emit("dt %d" % op[1], "dtor=1")
        elif o == "dt0":
            emit("dt %d" % op[1], "dtor=0")
        elif o == "dt":
            # the removal normally finalises the owned object at once; the property only demands exactly once by
            # teardown (an element left to the collector would still comply), so nothing is expected here
            emit("dt %d" % op[1])
        elif o == "tls":
            emit("tls %d %d" % (op[1], op[2]))
        elif o == "stk":
            emit("stk %d %d" % (op[1], op[2]))
        elif o == "unstk":
            emit("unstk %d" % op[1])
        elif o == "del":
            emit("del %d" % op[1], "dtor=1" if (op[2] == "now" and kinds.get(op[1], "node") in NODEKINDS) else None)
        elif o == "delowner":
            emit("del %d" % op[1])
        elif o in ("collect", "stop", "start"):
            emit(o)
        elif o == "churn":
            emit("churn %d %d" % (op[1], op[2]))
        elif o == "note":
            pass
        elif o == "chain":
            emit("chain %d %d %d %d" % (op[1], op[2], op[3], op[4]))
        else:
            raise HarnessBug(o)
    return lines, expect


def run_case(ctx, case):
    mode = case.get("mode", "thread")
    lines, expect = encode(case)
    lines = lines + ["fin"]
    expect = expect + [None]
    if mode != "main" and case.get("joinlate", -1) >= 0:
        lines = ["joinlate %d" % case["joinlate"]] + lines
        expect = [None] + expect
    if mode == "main":
        ex = ctx.executor("ex_gc_" + case["cfg"], args=["--main"])
        obs = ex.run("\n".join(lines), fresh=True)
        ex.close()
    else:
        ex = gcx.executor(ctx, case["cfg"])
        obs = ex.run("\n".join(lines))
    gcx.check_harness(obs)
    ev = ["cfg=" + case["cfg"], "mode=" + mode]
    if len(obs) != len(lines) + 1:
        return Result("executor stopped: %s" % (obs[-1] if obs else "no output"), False, ev, None)
    for l, o, e in zip(lines, obs, expect):
        if " exc " in o or " depth=" in o or " err=[" in o:
            return Result("op `%s`: %s" % (l, o), True, ev, None)
        if e == "dtor=0" and o.strip() != "dtor=0":
            return Result("op `%s`: an object still referenced from the executor's stack slot was finalised (%s)" % (l, o), True, ev, None)
        if e == "dtor=1" and o.strip() != "dtor=1":
            return Result("op `%s`: object not finalised exactly once when del returned (%s)" % (l, o), True, ev, None)
    fin_before_teardown = obs[len(lines) - 1].split()[1:]
    td = gcx.parse_teardown(obs[-1])
    if td is None:
        return Result("no teardown report: " + obs[-1], False, ev, None)
    if td["err"] != "[]":
        return Result("ledger error: " + obs[-1], True, ev, None)
    if td["wrong_managed"] != "0":
        return Result("after teardown %s managed object(s) not finalised exactly once (first id %s): %s" % (td["wrong_managed"], td["first"], obs[-1]), True, ev, None)
    if td["wrong_rootraw"] != "0":
        return Result("root/raw objects not finalised exactly by their own del (first id %s): %s" % (td["first"], obs[-1]), True, ev, None)
    if td["outstanding"] not in ("0", "na"):
        return Result("%s block(s) allocated by the case's thread still outstanding after teardown" % td["outstanding"], True, ev, None)
    managed = int(td["managed"])
    survived = managed > len([x for x in fin_before_teardown if int(x) < 10000 or True])
    has_pair = any(op[0] == "new" and op[2] in ("box", "arrb", "lstb", "tabb", "treb") for op in case["ops"])
    cls = set()
    nd = 0
    for op in case["ops"]:
        if op[0] in ("new", "alloc"):
            if op[2] in ("nodez", "nodeo", "nodeb"):
                cls.add("size=" + {"nodez": "0", "nodeo": "52", "nodeb": "1MiB"}[op[2]])
            elif op[2] == "nodem":
                cls.add("own-side-block+Mark")
            elif op[2] == "noded":
                cls.add("destructor-allocates" + ("/" + op[3] if op[3] != "m" else ""))
                nd += 1
            elif op[2] in ("lstb", "tabb", "treb", "arrb"):
                cls.add("owning-container=" + op[2])
            elif op[2] not in ("node", "nodea", "box"):
                cls.add("library-object=" + op[2] + ("/" + op[3] if op[3] != "m" else ""))
            if op[0] == "alloc":
                cls.add("alloc-without-construct")
            if len(op) > 4 and str(op[4]).startswith("retype"):
                cls.add("retyped")
        elif op[0] == "tls":
            cls.add("kept-in-thread-local-storage")
        elif op[0] == "dt":
            cls.add("removal-from-owning-container")
        elif op[0] == "note":
            cls.add(op[1])
    if td.get("born_td", "0") not in ("0",):
        cls.add("objects-born-in-teardown-sweep")
    ev += sorted(cls)
    stop_del = False
    st_ = False
    for op in case["ops"]:
        if op[0] == "stop":
            st_ = True
        elif op[0] == "start":
            st_ = False
        elif op[0] == "del" and st_:
            stop_del = True
    if has_pair:
        ev.append("owner+owned")
    if stop_del:
        ev.append("del-in-stop-window")
    if survived:
        ev.append("survivors-at-teardown")
    return Result(None, has_pair or stop_del or survived, ev, None)


def SAMPLE(case):
    return {"cfg": case["cfg"], "mode": case.get("mode"), "ops": case["ops"][:18] + (["..."] if len(case["ops"]) > 18 else [])}


KNOWN = [{"key": "stop-window-del-after-start",
          "what": "an object allocated while the collector is stopped (never registered) and deleted after start is ignored by del and never finalised",
          "case": {"cfg": "plain", "mode": "thread", "ops": [["stop"], ["new", 1, "node", "m"], ["start"], ["del", 1, "now"]]}}]
