"""C06 - every managed object is finalised exactly once, all memory returned by teardown."""
from hypothesis import strategies as st
from ..core import Result, HarnessBug, load_known
from . import gcx

ID = "C06"
LEVEL = "exploration"
BUDGET = {"quick": 1200, "thorough": 300000}
RULE = ("case = history executed (i) in a fresh Cello Thread (teardown = collector deletion at thread exit) or (ii) in a "
        "fresh process' main thread (teardown = Cello_Exit through atexit, ledger read from an ELF destructor): new / "
        "new_root / new_raw of instrumented objects (malloc'd and arena-allocated), copy, explicit del / del_root / del_raw, "
        "Box ownership with the owner allocated before or after the owned object, chains of Boxes, Array<Box>, dropped "
        "references, forced collections, churn (threshold collections), stop/start windows with allocations and deletions "
        "inside. Oracle: destructor ledger - never a second finalisation, no destructor on a corrupted/finalised object, an "
        "object whose del returned is finalised (except a registered object deleted while the collector is stopped, which may "
        "be left to a later collection), after teardown every managed object finalised exactly once and root/raw objects "
        "exactly by their own del; arena blocks released exactly once and only after finalisation; malloc/calloc/realloc/free "
        "accounting (linker --wrap): no block allocated by the case's thread outstanding after teardown. non-trivial = a sweep "
        "(forced, threshold or teardown) finalised an owner together with its owned object, or a del inside a stop window, or "
        ">= 1 object survived to teardown. distinct = distinct case JSON.")
ASSUMPTIONS = ["out-of-contract histories (double del, del of an object owned by a Box, destructors that allocate) are not generated",
               "objects allocated inside a stop window are deleted explicitly inside the window (in-tree documentation makes them the user's duty); deleting them after start is the known finding stop-window-del-after-start",
               "block accounting counts only blocks allocated by the case's own thread"]

prepare = gcx.prepare
# Late-join cases depend on where the creating thread's join lands relative to the thread's teardown: a failing case
# is re-run 10 times in fresh processes and reported if it fails again at least twice (on a tree where the property
# holds the per-run failure probability is zero, not small).
CONFIRM = (2, 10)


@st.composite
def _case(draw):
    ops = []
    nobj = 0
    kept = {}
    rootraw = []
    nodes = set()          # handles of plain instrumented objects (copyable)
    rootcls = {}
    stopped = False
    window_objs = []
    owned = set()
    churn_next = 10000
    flags = {"owner_pair": False, "stop_del": False}
    n = draw(st.integers(2, 50))
    for _ in range(n):
        o = draw(st.sampled_from(["new", "new", "newa", "copy", "del", "drop", "collect", "churn", "box", "boxchain", "boxcycle", "arrb", "stop", "start", "windel", "bigchain"]))
        if o in ("new", "newa"):
            cls = draw(st.sampled_from(["m", "m", "m", "root", "raw"]))
            nobj += 1
            h = nobj
            ops.append(["new", h, "nodea" if o == "newa" else "node", cls])
            nodes.add(h)
            rootcls[h] = (cls, stopped)
            if stopped and cls != "raw":
                window_objs.append(h)       # unregistered: must be deleted by hand inside the window
            elif cls == "m":
                if draw(st.booleans()) and len(kept) < 16:
                    slot = min(set(range(16)) - set(kept))
                    kept[slot] = h
                    ops.append(["stk", slot, h])
            else:
                rootraw.append(h)
        elif o == "copy":
            srcs = [h for h in kept.values() if h in nodes]
            if srcs and not stopped:
                src = draw(st.sampled_from(sorted(srcs)))
                nobj += 1
                ops.append(["copy", nobj, src])
        elif o == "del":
            cands = list(kept.items())
            if rootraw and (not cands or draw(st.booleans())):
                h = rootraw.pop(draw(st.integers(0, len(rootraw) - 1)))
                # a registered root deleted while the collector is stopped may be left to a later collection
                ops.append(["del", h, "now"])
            elif cands:
                slot, h = cands[draw(st.integers(0, len(cands) - 1))]
                del kept[slot]
                ops.append(["unstk", slot])
                ops.append(["del", h, "now"])
                if stopped:
                    flags["stop_del"] = True
        elif o == "windel":
            if window_objs:
                h = window_objs.pop(draw(st.integers(0, len(window_objs) - 1)))
                ops.append(["del", h, "now"])
                flags["stop_del"] = True
        elif o == "drop":
            if kept:
                slot = draw(st.sampled_from(sorted(kept)))
                del kept[slot]
                ops.append(["unstk", slot])
        elif o == "collect":
            ops.append(["collect"])
        elif o == "churn":
            cnt = draw(st.sampled_from([5, 20, 60, 150]))
            if churn_next + cnt < 39000 and not stopped:
                ops.append(["churn", churn_next, cnt])
                churn_next += cnt
        elif o == "box" and not stopped:
            nobj += 3
            t, b, tmp = nobj - 2, nobj - 1, nobj
            kind = draw(st.sampled_from(["node", "nodea"]))
            free = sorted(set(range(16)) - set(kept))
            how = draw(st.sampled_from(["drop", "keepdel", "keep"]))
            if draw(st.booleans()) or not free:
                ops.append(["new", t, kind, "m"])
                ops.append(["new", b, "box", "m", t])          # owned older than owner
                if free:
                    ops.append(["stk", free[0], b])
            else:
                # owner older than owned; the owner is protected on the stack while the owned object is allocated
                ops.append(["new", tmp, "node", "m"])
                ops.append(["new", b, "box", "m", tmp])
                ops.append(["stk", free[0], b])
                ops.append(["new", t, kind, "m"])
                ops.append(["store", b, 0, t])
            owned.add(t)
            flags["owner_pair"] = True
            if free:
                if how == "drop":
                    ops.append(["unstk", free[0]])
                elif how == "keepdel":
                    ops.append(["unstk", free[0]])
                    ops.append(["delowner", b, t])
                else:
                    kept[free[0]] = b
        elif o == "boxchain" and not stopped:
            # a real chain box -> box -> ... -> node.  new(Box, otherBox) would copy the other box's pointer (two owners
            # of one object, out of contract), so each further owner is created on a temporary target and re-pointed
            # with ref(); the chain head is protected on the stack while it is being built.
            free = sorted(set(range(16)) - set(kept))
            if not free:
                continue
            depth = draw(st.integers(2, 5))
            nobj += 1
            leaf = nobj
            ops.append(["new", leaf, "node", "m"])
            nobj += 1
            head = nobj
            ops.append(["new", head, "box", "m", leaf])
            ops.append(["stk", free[0], head])
            for _ in range(depth - 1):
                nobj += 2
                tmp, b = nobj - 1, nobj
                ops.append(["new", tmp, "node", "m"])
                ops.append(["new", b, "box", "m", tmp])
                ops.append(["store", b, 0, head])
                ops.append(["stk", free[0], b])
                head = b
            how = draw(st.sampled_from(["drop", "del", "keep"]))
            if how == "drop":
                ops.append(["unstk", free[0]])
            elif how == "del":
                ops.append(["unstk", free[0]])
                ops.append(["delowner", head, leaf])
            else:
                kept[free[0]] = head
            flags["owner_pair"] = True
        elif o == "bigchain" and not stopped and not flags.get("big"):
            # thousands of objects that stay reachable until the end: the teardown sweep has real work to do
            free = sorted(set(range(16)) - set(kept))
            if not free:
                continue
            nobj += 1
            h = nobj
            L = draw(st.sampled_from([800, 3000, 6000]))
            ops.append(["new", h, "node", "m"])
            ops.append(["stk", free[0], h])
            ops.append(["chain", h, 100000, L, 0])
            kept[free[0]] = h
            nodes.discard(h)
            flags["big"] = True
        elif o == "boxcycle" and not stopped:
            # owners that form a cycle (B -> C -> B) entered from an outside owner T: everything is garbage at once and
            # the sweep (or an explicit del of T) meets the same object through two owners; it must still be finalised once
            free = sorted(set(range(16)) - set(kept))
            if len(free) < 2:
                continue
            nobj += 6
            n1, B, n2, C, n3, T = nobj - 5, nobj - 4, nobj - 3, nobj - 2, nobj - 1, nobj
            ops.append(["new", n1, "node", "m"])
            ops.append(["new", B, "box", "m", n1])
            ops.append(["stk", free[0], B])
            ops.append(["new", n2, "node", "m"])
            ops.append(["new", C, "box", "m", n2])
            ops.append(["stk", free[1], C])
            ops.append(["store", C, 0, B])          # C -> B
            ops.append(["store", B, 0, C])          # B -> C   (n1, n2 become plain garbage)
            ops.append(["new", n3, "node", "m"])
            ops.append(["new", T, "box", "m", n3])
            ops.append(["store", T, 0, B])          # T -> B
            ops.append(["unstk", free[1]])
            how = draw(st.sampled_from(["drop", "drop", "del"]))
            if how == "drop":
                ops.append(["unstk", free[0]])
            else:
                ops.append(["stk", free[0], T])
                ops.append(["unstk", free[0]])
                ops.append(["delowner", T, -1])
            if draw(st.booleans()):
                ops.append(["collect"])
            flags["owner_pair"] = True
        elif o == "arrb" and not stopped:
            if len(kept) >= 16:
                continue
            nobj += 1
            a = nobj
            ops.append(["new", a, "arrb", "m"])
            slot = min(set(range(16)) - set(kept))
            ops.append(["stk", slot, a])
            for _ in range(draw(st.integers(1, 6))):
                nobj += 1
                ops.append(["new", nobj, "node", "m"])
                ops.append(["store", a, 0, nobj])
            flags["owner_pair"] = True
            if slot is not None:
                how = draw(st.sampled_from(["drop", "del", "pop"]))
                if how == "pop":
                    ops.append(["unstore", a, 0])
                    kept[slot] = a
                elif how == "del":
                    ops.append(["unstk", slot])
                    ops.append(["delowner", a, -1])
                else:
                    ops.append(["unstk", slot])
        elif o == "stop" and not stopped:
            ops.append(["stop"])
            stopped = True
        elif o == "start" and stopped:
            for h in window_objs:
                ops.append(["del", h, "now"])
                flags["stop_del"] = True
            window_objs = []
            ops.append(["start"])
            stopped = False
    if stopped:
        for h in window_objs:
            ops.append(["del", h, "now"])
        ops.append(["start"])
    for h in rootraw:
        ops.append(["del", h, "now"])
    if draw(st.booleans()):
        for slot in sorted(kept):
            ops.append(["unstk", slot])
        ops.append(["collect"])
    # "joinlate": the creating thread joins only after the thread's function has returned (plus a spin): join must
    # still wait for the teardown of the thread's collector.  A stimulus only; the oracle stays the ledger.
    return {"ops": ops, "cfg": draw(st.sampled_from(["asan", "plain", "plain"])), "mode": draw(st.sampled_from(["thread", "thread", "thread", "main"])),
            "joinlate": draw(st.sampled_from([-1, -1, 0, 3000, 100000, 3000000]))}


def strategy(tier):
    return _case()


def encode(case):
    lines = []
    expect = []
    kinds = {}
    for op in case["ops"]:
        o = op[0]
        if o == "new":
            kinds[op[1]] = op[2]
            if op[2] in ("box",):
                lines.append("new %d box %s %d" % (op[1], op[3], op[4]))
            else:
                lines.append("new %d %s %s" % (op[1], op[2], op[3]))
            expect.append(None)
        elif o == "copy":
            lines.append("copy %d %d" % (op[1], op[2]))
            expect.append(None)
        elif o == "store":
            lines.append("store %d %d %d" % (op[1], op[2], op[3]))
            expect.append(None)
        elif o == "unstore":
            lines.append("unstore %d %d" % (op[1], op[2]))
            expect.append(None)
        elif o == "stk":
            lines.append("stk %d %d" % (op[1], op[2]))
            expect.append(None)
        elif o == "unstk":
            lines.append("unstk %d" % op[1])
            expect.append(None)
        elif o == "del":
            lines.append("del %d" % op[1])
            expect.append("dtor=1" if (op[2] == "now" and kinds.get(op[1], "node") in ("node", "nodea")) else None)
        elif o == "delowner":
            lines.append("del %d" % op[1])
            expect.append(None)
        elif o in ("collect", "stop", "start"):
            lines.append(o)
            expect.append(None)
        elif o == "churn":
            lines.append("churn %d %d" % (op[1], op[2]))
            expect.append(None)
        elif o == "chain":
            lines.append("chain %d %d %d %d" % (op[1], op[2], op[3], op[4]))
            expect.append(None)
        else:
            raise HarnessBug(o)
    return lines, expect


def run_case(ctx, case):
    mode = case.get("mode", "thread")
    lines, expect = encode(case)
    lines = lines + ["fin"]
    expect = expect + [None]
    if mode != "main" and case.get("joinlate", -1) >= 0:
        lines = ["joinlate %d" % case["joinlate"]] + lines
        expect = [None] + expect
    if mode == "main":
        ex = ctx.executor("ex_gc_" + case["cfg"], args=["--main"])
        obs = ex.run("\n".join(lines), fresh=True)
        ex.close()
    else:
        ex = gcx.executor(ctx, case["cfg"])
        obs = ex.run("\n".join(lines))
    gcx.check_harness(obs)
    ev = ["cfg=" + case["cfg"], "mode=" + mode]
    if len(obs) != len(lines) + 1:
        return Result("executor stopped: %s" % (obs[-1] if obs else "no output"), False, ev, None)
    for l, o, e in zip(lines, obs, expect):
        if " exc " in o or " depth=" in o or " err=[" in o:
            return Result("op `%s`: %s" % (l, o), True, ev, None)
        if e == "dtor=1" and not o.startswith("dtor=1"):
            return Result("op `%s`: object not finalised exactly once when del returned (%s)" % (l, o), True, ev, None)
    fin_before_teardown = obs[len(lines) - 1].split()[1:]
    td = gcx.parse_teardown(obs[-1])
    if td is None:
        return Result("no teardown report: " + obs[-1], False, ev, None)
    if td["err"] != "[]":
        return Result("ledger error: " + obs[-1], True, ev, None)
    if td["wrong_managed"] != "0":
        return Result("after teardown %s managed object(s) not finalised exactly once (first id %s): %s" % (td["wrong_managed"], td["first"], obs[-1]), True, ev, None)
    if td["wrong_rootraw"] != "0":
        return Result("root/raw objects not finalised exactly by their own del (first id %s): %s" % (td["first"], obs[-1]), True, ev, None)
    if td["outstanding"] not in ("0", "na"):
        return Result("%s block(s) allocated by the case's thread still outstanding after teardown" % td["outstanding"], True, ev, None)
    managed = int(td["managed"])
    survived = managed > len([x for x in fin_before_teardown if int(x) < 10000 or True])
    has_pair = any(op[0] == "new" and op[2] in ("box", "arrb") for op in case["ops"])
    stop_del = False
    st_ = False
    for op in case["ops"]:
        if op[0] == "stop":
            st_ = True
        elif op[0] == "start":
            st_ = False
        elif op[0] == "del" and st_:
            stop_del = True
    if has_pair:
        ev.append("owner+owned")
    if stop_del:
        ev.append("del-in-stop-window")
    if survived:
        ev.append("survivors-at-teardown")
    return Result(None, has_pair or stop_del or survived, ev, None)


def SAMPLE(case):
    return {"cfg": case["cfg"], "mode": case.get("mode"), "ops": case["ops"][:18] + (["..."] if len(case["ops"]) > 18 else [])}


KNOWN = [{"key": "stop-window-del-after-start",
          "what": "an object allocated while the collector is stopped (never registered) and deleted after start is ignored by del and never finalised",
          "case": {"cfg": "plain", "mode": "thread", "ops": [["stop"], ["new", 1, "node", "m"], ["start"], ["del", 1, "now"]]}}]
