"""C16 - String behaves as a C-string value."""
from hypothesis import strategies as st
from .. import build, gen
from ..core import Result, HarnessBug
from ..vm import Prog, expect_ok, expect_exc

ID = "C16"
LEVEL = "exploration"
BUDGET = {"quick": 2500, "thorough": 750000}
RULE = ("case = op list (assign, concat, append, resize 0/<len/==len/>len, rem, mem, print_to at a position, cmp/eq/hash "
        "against generated others) over one heap String; operands are derived from the CURRENT abstract value: empty, equal "
        "value, prefix, middle, suffix, overlapping repeats, absent, longer than the target, literal. After every op c_str, "
        "len, hash (independent MurmurHash64A) are compared with a Python bytes model; ASan watches the terminator. "
        "non-trivial = a rem of a middle/overlapping occurrence or of an absent string, or a grow-resize followed by a concat. "
        "distinct = distinct case JSON.")
ASSUMPTIONS = ["Python bytes is the reference string; bytes 1..255 (NUL-free)", "aliased operands (concat(s, s)) are not generated",
               "rem of an absent substring: the value must stay unchanged; ValueError or no exception are both accepted (C12 decides)"]


def prepare(tier):
    return {"ex_vm": build.executor("asan", "ex_vm"), "fz_str": build.executor("fuzz", "fz_str", extra_ldflags=["-fsanitize=fuzzer"])}


# coverage-guided companion (libFuzzer, ASan): bytes -> op list over one heap String, oracle = libc buffer model +
# independent MurmurHash64A (harness/fz_str.c)
FUZZ = [{"target": "fz_str", "runs": {"quick": 60000, "thorough": 20000000}, "max_len": 256}]


_operand = st.one_of(
    st.tuples(st.just("empty")),
    st.tuples(st.just("equal")),
    st.tuples(st.just("slice"), st.integers(0, 1000), st.integers(0, 1000)),
    st.tuples(st.just("prefix"), st.integers(0, 1000)),
    st.tuples(st.just("suffix"), st.integers(0, 1000)),
    st.tuples(st.just("absent"), st.integers(0, 5)),
    st.tuples(st.just("longer"), st.integers(1, 5)),
    st.tuples(st.just("repeat"), st.integers(1, 255), st.integers(1, 6)),
    st.tuples(st.just("lit"), gen.cbytes(12).map(lambda b: b.hex())),
    # lengths at and around typical buffer sizes
    st.tuples(st.just("fill"), st.integers(33, 126), st.sampled_from([15, 16, 17, 31, 32, 33, 62, 63, 64, 65, 66, 127, 128, 129, 255, 256, 257, 511, 512, 513, 1023, 1024, 1025])),
).map(list)
SIZES = [15, 16, 17, 31, 32, 33, 62, 63, 64, 65, 66, 127, 128, 129, 255, 256, 257, 511, 512, 513]


@st.composite
def strategy_(draw):
    init = draw(st.one_of(gen.cbytes(20), st.sampled_from([b"", b"aaaa", b"hello world", b"abcabcabc", b"a" * 40])))
    ops = []
    for _ in range(draw(st.integers(1, 40))):
        o = draw(st.sampled_from(["assign", "concat", "concat", "append", "resize", "rem", "rem", "rem", "mem", "mem", "print", "cmp", "hash"]))
        if o in ("assign", "concat", "append", "rem", "mem", "cmp"):
            ops.append([o, draw(_operand)])
        elif o == "resize":
            ops.append([o, draw(st.sampled_from(["zero", "less", "same", "more"])), draw(st.integers(0, 1000))])
        elif o == "print":
            ops.append([o, draw(st.integers(0, 1000)), draw(st.sampled_from(["lit", "s", "li", "mix", "pct", "pct", "wli", "ws"])), draw(_operand), draw(st.integers(-1000, 1000))])
        else:
            ops.append([o])
    return {"init": init.hex(), "ops": ops}


def strategy(tier):
    return strategy_()


def resolve(model, opd):
    k = opd[0]
    n = len(model)
    if k == "empty":
        return b""
    if k == "equal":
        return bytes(model)
    if k == "slice":
        a, b = sorted((opd[1] * (n + 1) // 1001, opd[2] * (n + 1) // 1001))
        return model[a:b]
    if k == "prefix":
        return model[:opd[1] * (n + 1) // 1001]
    if k == "suffix":
        return model[opd[1] * (n + 1) // 1001:]
    if k == "absent":
        cands = [b"\x01zq", b"zzz", b"Q", b"\xfe\xfd", b"a\x02", b"not here"]
        c = cands[opd[1] % len(cands)]
        while c in model:
            c = c + b"\x03"
        return c
    if k == "longer":
        return model + b"x" * opd[1]
    if k == "repeat":
        return bytes([opd[1]]) * opd[2]
    if k == "lit":
        return bytes.fromhex(opd[1])
    if k == "fill":
        return bytes([opd[1] if opd[1] != 37 else 38]) * opd[2]
    raise HarnessBug("operand " + k)


def _sgn(x):
    return (x > 0) - (x < 0)


def run_case(ctx, case):
    P = Prog()
    model = bytes.fromhex(case["init"])
    P.add("new %%0 heap t:String s:%s" % model.hex())
    flags = {"nt": False, "grew": False}
    ev = set()

    def check():
        P.add("cstr %0", expect_ok(model.hex()))
        P.add("len %0", expect_ok(str(len(model))))
        P.add("hash %0", expect_ok("%016x" % gen.murmur64a(model)))

    check()
    for op in case["ops"]:
        o = op[0]
        if o in ("assign", "concat", "append"):
            s = resolve(model, op[1])
            P.add("%s %%0 s:%s" % (o, s.hex()), None if o != "assign" else (lambda ob: None if ob.startswith("ok") else "assign failed: " + ob))
            if o == "assign":
                model = s
                flags["grew"] = False
            else:
                model = model + s
                if flags["grew"] and s:
                    flags["nt"] = True
            ev.add(o + "-" + op[1][0])
        elif o == "resize":
            n = len(model)
            if op[1] == "zero":
                k = 0
            elif op[1] == "less":
                k = op[2] * n // 1001
            elif op[1] == "same":
                k = n
            else:
                k = n + 1 + op[2] % 50
                flags["grew"] = True
            P.add("resize %%0 %d" % k)
            if k < n:
                model = model[:k]
            ev.add("resize-" + op[1])
        elif o == "rem":
            s = resolve(model, op[1])
            idx = model.find(s)
            if idx < 0:
                P.add("rem %%0 s:%s" % s.hex(), lambda ob: None if (ob == "ok" or ob == "ok " or ob == "exc ValueError") else "rem of absent substring: " + ob)
                flags["nt"] = True
                ev.add("rem-absent")
            else:
                P.add("rem %%0 s:%s" % s.hex())
                if s and 0 < idx and idx + len(s) < len(model):
                    flags["nt"] = True
                    ev.add("rem-middle")
                elif s and model.find(s, idx + 1) >= 0 and model.find(s, idx + 1) < idx + len(s):
                    flags["nt"] = True
                    ev.add("rem-overlapping")
                else:
                    ev.add("rem-edge")
                model = model[:idx] + model[idx + len(s):]
        elif o == "mem":
            s = resolve(model, op[1])
            P.add("mem %%0 s:%s" % s.hex(), expect_ok("1" if s in model else "0"))
            ev.add("mem-" + op[1][0])
            continue
        elif o == "cmp":
            s = resolve(model, op[1])
            c = _sgn((model > s) - (model < s))
            P.add("cmp %%0 s:%s" % s.hex(), expect_ok("c=%d p=%d%d%d%d%d%d" % (c, c == 0, c != 0, c < 0, c > 0, c <= 0, c >= 0)))
            ev.add("cmp")
            continue
        elif o == "hash":
            continue
        elif o == "print":
            pos = op[1] * (len(model) + 1) // 1001
            s = resolve(model, op[3])
            if op[2] == "lit":
                text = s.replace(b"%", b"")
                fmt, args = text, []
            elif op[2] == "s":
                fmt, args, text = b"<%s>", ["s:" + s.hex()], b"<" + s + b">"
            elif op[2] == "pct":
                fmt, args, text = b"%s%% of %li%%x", ["s:" + s.hex(), "i:%d" % op[4]], s + b"% of " + (b"%d" % op[4]) + b"%x"
            elif op[2] == "li":
                fmt, args, text = b"%li;", ["i:%d" % op[4]], b"%d;" % op[4]
            elif op[2] == "wli":
                # one conversion that expands to exactly w characters (zero-padded), w at buffer-size boundaries
                w = SIZES[abs(op[4]) % len(SIZES)]
                fmt, args, text = b"%%0%dli|" % w, ["i:%d" % op[4]], (b"%%0%dd|" % w) % op[4]
            elif op[2] == "ws":
                w = SIZES[abs(op[4]) % len(SIZES)]
                s = s[:w]
                fmt, args, text = b"[%%%ds]" % w, ["s:" + s.hex()], b"[" + b" " * (w - len(s)) + s + b"]"
            else:
                fmt, args, text = b"a%sb%lic", ["s:" + s.hex(), "i:%d" % op[4]], b"a" + s + b"b%dc" % op[4]
            if not fmt:
                continue
            want = model[:pos] + text
            P.add("print %%0 %d %s %s" % (pos, fmt.hex(), " ".join(args)),
                  expect_ok("ret=%d s=%s" % (len(want), want.hex())))
            model = want
            ev.add("print-" + op[2])
        check()
    P.add("del %0")
    fail, obs = P.run(ctx.executor("ex_vm"))
    return Result(fail, flags["nt"], sorted(ev), None)


KNOWN = []
