"""C16 - String behaves as a C-string value."""
from hypothesis import strategies as st
from .. import build, gen
from ..core import Result, HarnessBug
from ..vm import Prog, expect_ok, expect_exc

ID = "C16"
ALT_BUILD = True          # a quarter of the workers run the gcc -O0 build (core.py)
LEVEL = "exploration"
BUDGET = {"quick": 2500, "thorough": 750000}
RULE = ("case = op list (assign, concat, append, resize 0/<len/==len/>len (grow by 1-50 or up to a buffer-size boundary), rem, "
        "mem, print_to at a position (literal, %s, %li, %%, padded, %c, one format with %u %lu %x %lX %o %d %li, %$ of a String/Int = one small write per character, two "
        "calls chained through the returned position), cmp/eq/hash against generated others) over one String whose character "
        "buffer is on the heap. The String is reached in a generated way ('holder'): new(String, init), new(String) then assign, "
        "a copy of another heap String (which must keep its value), or the element of an Array / List / value of a Table "
        "(the neighbours must keep their values). Operands are derived from the CURRENT abstract value: empty, equal value, "
        "prefix, middle, suffix, overlapping repeats, absent, longer than the target, literal, boundary-sized fill; they are "
        "passed as stack Strings, as separate heap Strings (which must still hold their value at the end of the case: no "
        "sharing of buffers) or, for assign/concat/append/mem/rem, as a Type object (its C_Str text is the operand). After "
        "every op c_str, len, hash (independent MurmurHash64A) are compared with a Python bytes model; ASan watches the "
        "terminator. non-trivial = a rem of a middle/overlapping occurrence or of an absent string, or a grow-resize followed "
        "by a concat, or an embedded / copied holder. distinct = distinct case JSON.")
ASSUMPTIONS = ["Python bytes is the reference string; bytes 1..255 (NUL-free)", "aliased operands (concat(s, s)) are not generated",
               "rem of an absent substring: the value must stay unchanged; ValueError or no exception are both accepted (C12 decides)",
               "print_to with an empty format is not generated (nothing is written, whether the String is cut at pos is unspecified)",
               "a String embedded in a heap container owns a heap buffer like a heap String (String.c only refuses stack/static Strings)"]


def prepare(tier):
    return {"ex_vm": build.executor("asan", "ex_vm"), "fz_str": build.executor("fuzz", "fz_str", extra_ldflags=["-fsanitize=fuzzer"])}


# coverage-guided companion (libFuzzer, ASan): bytes -> op list over one heap String, oracle = libc buffer model +
# independent MurmurHash64A (harness/fz_str.c)
FUZZ = [{"target": "fz_str", "runs": {"quick": 60000, "thorough": 20000000}, "max_len": 256}]


_operand = st.one_of(
    st.tuples(st.just("empty")),
    st.tuples(st.just("equal")),
    st.tuples(st.just("slice"), st.integers(0, 1000), st.integers(0, 1000)),
    st.tuples(st.just("prefix"), st.integers(0, 1000)),
    st.tuples(st.just("suffix"), st.integers(0, 1000)),
    st.tuples(st.just("absent"), st.integers(0, 5)),
    st.tuples(st.just("longer"), st.integers(1, 5)),
    st.tuples(st.just("repeat"), st.integers(1, 255), st.integers(1, 6)),
    st.tuples(st.just("lit"), gen.cbytes(12).map(lambda b: b.hex())),
    # lengths at and around typical buffer sizes
    st.tuples(st.just("fill"), st.integers(33, 126), st.sampled_from([15, 16, 17, 31, 32, 33, 62, 63, 64, 65, 66, 127, 128, 129, 255, 256, 257, 511, 512, 513, 1023, 1024, 1025])),
).map(list)
TYPE_NAMES = ["Int", "String", "Float", "Table", "IndexOutOfBoundsError", "C_Str"]
HOLDERS = ["heap", "heap", "heap", "new0", "copy", "array", "list", "table"]
PRINT_KINDS = ["lit", "s", "li", "mix", "pct", "pct", "wli", "ws", "c", "show-s", "show-s", "show-i", "chain", "ints"]
SIZES = [15, 16, 17, 31, 32, 33, 62, 63, 64, 65, 66, 127, 128, 129, 255, 256, 257, 511, 512, 513]


@st.composite
def strategy_(draw):
    init = draw(st.one_of(gen.cbytes(20), st.sampled_from([b"", b"aaaa", b"hello world", b"abcabcabc", b"a" * 40])))
    ops = []
    for _ in range(draw(st.integers(1, 40))):
        o = draw(st.sampled_from(["assign", "concat", "concat", "append", "resize", "rem", "rem", "rem", "mem", "mem", "print", "cmp", "hash"]))
        if o in ("assign", "concat", "append", "rem", "mem", "cmp"):
            opd = draw(_operand)
            # how the operand is passed: a stack String, a separate heap String (checked again at the end), a Type object
            rep = draw(st.sampled_from(["stack"] * 6 + ["heap"] * 4 + ["type"]))
            if rep == "type" and o != "cmp":
                opd = ["type", draw(st.sampled_from(TYPE_NAMES))]
                rep = "stack"
            elif rep == "type":
                rep = "heap"
            ops.append([o, opd, rep])
        elif o == "resize":
            ops.append([o, draw(st.sampled_from(["zero", "less", "same", "more", "more", "big"])), draw(st.integers(0, 1000))])
        elif o == "print":
            ops.append([o, draw(st.integers(0, 1000)), draw(st.sampled_from(PRINT_KINDS)), draw(_operand), draw(st.integers(-1000, 1000))])
        else:
            ops.append([o])
    return {"init": init.hex(), "ops": ops, "holder": draw(st.sampled_from(HOLDERS)),
            "nb": [draw(gen.cbytes(6)).hex(), draw(st.sampled_from([b"", b"right", b"r" * 40])).hex()]}


def strategy(tier):
    return strategy_()


def resolve(model, opd):
    k = opd[0]
    n = len(model)
    if k == "empty":
        return b""
    if k == "equal":
        return bytes(model)
    if k == "slice":
        a, b = sorted((opd[1] * (n + 1) // 1001, opd[2] * (n + 1) // 1001))
        return model[a:b]
    if k == "prefix":
        return model[:opd[1] * (n + 1) // 1001]
    if k == "suffix":
        return model[opd[1] * (n + 1) // 1001:]
    if k == "absent":
        cands = [b"\x01zq", b"zzz", b"Q", b"\xfe\xfd", b"a\x02", b"not here"]
        c = cands[opd[1] % len(cands)]
        while c in model:
            c = c + b"\x03"
        return c
    if k == "longer":
        return model + b"x" * opd[1]
    if k == "repeat":
        return bytes([opd[1]]) * opd[2]
    if k == "lit":
        return bytes.fromhex(opd[1])
    if k == "fill":
        return bytes([opd[1] if opd[1] != 37 else 38]) * opd[2]
    if k == "type":
        return opd[1].encode()
    raise HarnessBug("operand " + k)


def _sgn(x):
    return (x > 0) - (x < 0)


_ESC = {7: b"\\a", 8: b"\\b", 12: b"\\f", 10: b"\\n", 13: b"\\r", 9: b"\\t", 11: b"\\v", 0x5c: b"\\\\", 0x27: b"\\'", 0x22: b'\\"', 0x3f: b"\\?"}


def show_string(b):
    """the text String's show writes: quoted, C escapes"""
    return b'"' + b"".join(_ESC.get(c, bytes([c])) for c in b) + b'"'


def run_case(ctx, case):
    P = Prog()
    init = bytes.fromhex(case["init"])
    holder = case.get("holder", "heap")
    nb = [bytes.fromhex(x) for x in case.get("nb", ["6c", "72"])]
    flags = {"nt": holder in ("copy", "array", "list", "table"), "grew": False, "fresh_grow": False}
    ev = set(["holder=" + holder])
    model = init
    # ---- the String under test ends up in slot %0; what must be checked / released at the end goes to `final`
    final = []
    if holder == "heap":
        P.add("new %%0 heap t:String s:%s" % init.hex())
        final.append(("del %0", None))
    elif holder == "new0":
        P.add("new %0 heap t:String")
        P.add("cstr %0", expect_ok(""))
        P.add("len %0", expect_ok("0"))
        P.add("assign %%0 s:%s" % init.hex(), lambda ob: None if ob.startswith("ok") else "assign failed: " + ob)
        final.append(("del %0", None))
    elif holder == "copy":
        P.add("new %%1 heap t:String s:%s" % init.hex())
        P.add("copy %0 %1", expect_ok("s" + init.hex()))
        final.append(("cstr %1", expect_ok(init.hex())))       # the source of the copy never changes
        final.append(("del %1", None))
        final.append(("del %0", None))
    elif holder in ("array", "list"):
        P.add("new %%5 heap t:%s t:String s:%s s:%s s:%s" % ("Array" if holder == "array" else "List", nb[0].hex(), init.hex(), nb[1].hex()))
        P.add("get %5 i:1 %0", expect_ok("s" + init.hex()))
        final.append(("get %5 i:0", expect_ok("s" + nb[0].hex())))
        final.append(("get %5 i:2", expect_ok("s" + nb[1].hex())))
        final.append(("len %5", expect_ok("3")))
        final.append(("del %5", None))
    else:
        P.add("new %%5 heap t:Table t:Int t:String i:1 s:%s i:2 s:%s i:3 s:%s" % (nb[0].hex(), init.hex(), nb[1].hex()))
        P.add("get %5 i:2 %0", expect_ok("s" + init.hex()))
        final.append(("get %5 i:1", expect_ok("s" + nb[0].hex())))
        final.append(("get %5 i:3", expect_ok("s" + nb[1].hex())))
        final.append(("len %5", expect_ok("3")))
        final.append(("del %5", None))
    heap_opds = []          # (slot, value): separate heap Strings used as operands; they keep their value to the end
    nslot = [20]

    def check():
        P.add("cstr %0", expect_ok(model.hex()))
        P.add("len %0", expect_ok(str(len(model))))
        P.add("hash %0", expect_ok("%016x" % gen.murmur64a(model)))

    def operand(op, s):
        """-> argument text for the operand value s"""
        rep = op[2] if len(op) > 2 else "stack"
        if op[1][0] == "type":
            ev.add("operand=type")
            return "t:" + op[1][1]
        if rep == "heap" and nslot[0] < 250:
            k = nslot[0]
            nslot[0] += 1
            P.add("new %%%d heap t:String s:%s" % (k, s.hex()))
            heap_opds.append((k, s))
            ev.add("operand=heap")
            return "%%%d" % k
        return "s:" + s.hex()

    def after_grow(name):
        if flags["fresh_grow"]:
            ev.add("after-grow-" + name)
        flags["fresh_grow"] = False

    check()
    for op in case["ops"]:
        o = op[0]
        if o in ("assign", "concat", "append"):
            s = resolve(model, op[1])
            a = operand(op, s)
            P.add("%s %%0 %s" % (o, a), None if o != "assign" else (lambda ob: None if ob.startswith("ok") else "assign failed: " + ob))
            after_grow(o)
            if o == "assign":
                model = s
                flags["grew"] = False
            else:
                model = model + s
                if flags["grew"] and s:
                    flags["nt"] = True
            ev.add(o + "-" + op[1][0])
        elif o == "resize":
            n = len(model)
            if op[1] == "zero":
                k = 0
            elif op[1] == "less":
                k = op[2] * n // 1001
            elif op[1] == "same":
                k = n
            elif op[1] == "big":
                k = n + SIZES[op[2] % len(SIZES)]
                flags["grew"] = flags["fresh_grow"] = True
            else:
                k = n + 1 + op[2] % 50
                flags["grew"] = flags["fresh_grow"] = True
            P.add("resize %%0 %d" % k)
            if k < n:
                model = model[:k]
            ev.add("resize-" + op[1])
        elif o == "rem":
            s = resolve(model, op[1])
            a = operand(op, s)
            idx = model.find(s)
            after_grow("rem")
            if idx < 0:
                P.add("rem %%0 %s" % a, lambda ob: None if (ob == "ok" or ob == "ok " or ob == "exc ValueError") else "rem of absent substring: " + ob)
                flags["nt"] = True
                ev.add("rem-absent")
            else:
                P.add("rem %%0 %s" % a)
                if s and 0 < idx and idx + len(s) < len(model):
                    flags["nt"] = True
                    ev.add("rem-middle")
                elif s and model.find(s, idx + 1) >= 0 and model.find(s, idx + 1) < idx + len(s):
                    flags["nt"] = True
                    ev.add("rem-overlapping")
                else:
                    ev.add("rem-edge")
                model = model[:idx] + model[idx + len(s):]
        elif o == "mem":
            s = resolve(model, op[1])
            P.add("mem %%0 %s" % operand(op, s), expect_ok("1" if s in model else "0"))
            after_grow("mem")
            ev.add("mem-" + op[1][0])
            continue
        elif o == "cmp":
            s = resolve(model, op[1])
            c = _sgn((model > s) - (model < s))
            P.add("cmp %%0 %s" % operand(op, s), expect_ok("c=%d p=%d%d%d%d%d%d" % (c, c == 0, c != 0, c < 0, c > 0, c <= 0, c >= 0)))
            after_grow("cmp")
            ev.add("cmp")
            continue
        elif o == "hash":
            continue
        elif o == "print":
            pos = op[1] * (len(model) + 1) // 1001
            s = resolve(model, op[3])
            second = None
            if op[2] == "lit":
                text = s.replace(b"%", b"")
                fmt, args = text, []
            elif op[2] == "s":
                fmt, args, text = b"<%s>", ["s:" + s.hex()], b"<" + s + b">"
            elif op[2] == "pct":
                fmt, args, text = b"%s%% of %li%%x", ["s:" + s.hex(), "i:%d" % op[4]], s + b"% of " + (b"%d" % op[4]) + b"%x"
            elif op[2] == "li":
                fmt, args, text = b"%li;", ["i:%d" % op[4]], b"%d;" % op[4]
            elif op[2] == "wli":
                # one conversion that expands to exactly w characters (zero-padded), w at buffer-size boundaries
                w = SIZES[abs(op[4]) % len(SIZES)]
                fmt, args, text = b"%%0%dli|" % w, ["i:%d" % op[4]], (b"%%0%dd|" % w) % op[4]
            elif op[2] == "ws":
                w = SIZES[abs(op[4]) % len(SIZES)]
                s = s[:w]
                fmt, args, text = b"[%%%ds]" % w, ["s:" + s.hex()], b"[" + b" " * (w - len(s)) + s + b"]"
            elif op[2] == "c":
                ch = abs(op[4]) % 255 + 1
                fmt, args, text = b"%c%c", ["i:%d" % ch, "i:%d" % (ch - 256)], bytes([ch, ch])       # the char code, also as a negative (signed char) value
            elif op[2] == "show-s":
                s = s[:300]
                fmt, args, text = b"%$", ["s:" + s.hex()], show_string(s)        # String's show: one print_to per character
            elif op[2] == "show-i":
                fmt, args, text = b"=%$=", ["i:%d" % (op[4] * 1000003)], b"=%d=" % (op[4] * 1000003)
            elif op[2] == "ints":
                # every integer conversion once, in one format: a conversion that is silently skipped shortens the String
                v = abs(op[4]) * 7919 + 1
                fmt = b"u%u lu%lu x%x X%lX o%o d%d i%li;"
                args = ["i:%d" % v] * 7
                text = b"u%d lu%d x%x X%X o%o d%d i%d;" % (v, v, v, v, v, v, v)
            elif op[2] == "chain":
                # pos = print_to(s, pos, ...); pos = print_to(s, pos, ...): the returned position is the next start
                fmt, args, text = b"%s", ["s:" + s.hex()], s
                second = (b"+%li", ["i:%d" % op[4]], b"+%d" % op[4])
            else:
                fmt, args, text = b"a%sb%lic", ["s:" + s.hex(), "i:%d" % op[4]], b"a" + s + b"b%dc" % op[4]
            if not fmt:
                continue
            after_grow("print")
            want = model[:pos] + text
            P.add("print %%0 %d %s %s" % (pos, fmt.hex(), " ".join(args)),
                  expect_ok("ret=%d s=%s" % (len(want), want.hex())))
            model = want
            if second:
                want = model + second[2]
                P.add("print %%0 %d %s %s" % (len(model), second[0].hex(), " ".join(second[1])),
                      expect_ok("ret=%d s=%s" % (len(want), want.hex())))
                model = want
            ev.add("print-" + op[2])
        check()
    for k, v in heap_opds:
        P.add("cstr %%%d" % k, lambda ob, v=v, k=k: None if ob.rstrip() == ("ok " + v.hex()).rstrip() else
              "the heap String that was passed as an operand no longer holds its value: %s, expected %s" % (ob[:120], v.hex()[:120]))
        P.add("del %%%d" % k)
    if holder in ("array", "list", "table"):
        P.add("zero %0")            # the element pointer dies with its container
    for line, chk in final:
        P.add(line, chk)
    fail, obs = P.run(ctx.executor("ex_vm"))
    return Result(fail, flags["nt"], sorted(ev), None)


KNOWN = []
