"""C14 - print formatting equals C formatting, on every sink, with exact positions."""
import re
from hypothesis import strategies as st
from .. import build, gen
from ..core import Result, HarnessBug
from ..vm import Prog, expect_ok, expect_exc, lit_repr

ID = "C14"
LEVEL = "exploration"
BUDGET = {"quick": 3000, "thorough": 900000}
RULE = ("case = format string generated from the grammar (literal | %% | spec)*, spec = % flags* width? (.prec)? length? conv "
        "with conv in d i u o x X c s f F e E g G a A p $ (only flag/length combinations the C standard defines), specs at "
        "the very start/end and adjacent, literals over bytes 1..255 except '%', 0-8 arguments (Int full range, Float incl. "
        "+-inf/+-0/denormals, Strings incl. bytes >= 0x80 and '%'), a generated start position inside an existing prefix, sink = heap "
        "String or File; optionally one argument too few. Oracle: per conversion the text libc's snprintf produces for the C "
        "value the specification designates (computed in the executor by a separate reference op), literals verbatim, %$ = "
        "show text (Int %li, Float %f, String quoted+escaped, containers: header + each element's show text once, in "
        "iteration order); result = prefix[:pos] + text, returned position = pos + len(text); too few arguments => "
        "FormatError. non-trivial = >= 2 specs with at least one flag/width/precision, or a spec at either end of the "
        "format, or pos > 0. distinct = distinct case JSON.")
ASSUMPTIONS = ["this libc's printf is the reference (same process); '*' width/precision, %n, L, %lc/%ls are outside the API's expressible domain",
               "flag/length combinations that are undefined behaviour in C are not generated", "ASan watches format buffer and destination"]

INT_CONV = "diuoxX"
FLT_CONV = "fFeEgGaA"


def prepare(tier):
    # two compilers: what a too-narrow vararg looks like to printf depends on the code generator (clang at -O1 often
    # leaves the upper half of the register intact, gcc -O0 zero-extends), so every case runs under one of both
    return {"ex_vm": build.executor("asan", "ex_vm"), "ex_vm_plain": build.executor("plain", "ex_vm"),
            "fz_fmt": build.executor("fuzz", "fz_fmt", extra_ldflags=["-fsanitize=fuzzer"])}


# coverage-guided companion (libFuzzer, ASan): bytes -> (prefix, position, format pieces, arguments); the target compares
# print_to with snprintf per conversion and round-trips every argument through show/look (see harness/fz_fmt.c)
FUZZ = [{"target": "fz_fmt", "runs": {"quick": 60000, "thorough": 20000000}, "max_len": 256}]


def _flags(allowed):
    return st.lists(st.sampled_from(allowed), max_size=3, unique=True).map(lambda l: "".join(l)) if allowed else st.just("")


@st.composite
def _spec(draw):
    conv = draw(st.sampled_from(list("ddiuoxXcsssfFeEgGaAp$$")))
    width = draw(st.one_of(st.none(), st.none(), st.integers(0, 40), st.integers(0, 40),
                           st.sampled_from([63, 64, 65, 127, 128, 129, 255, 256, 257])))       # and typical buffer sizes
    prec = draw(st.one_of(st.none(), st.none(), st.integers(0, 40)))
    lm = ""
    if conv in "di":
        flags = draw(_flags("-+ 0"))
        if "+" in flags and " " in flags:
            flags = flags.replace(" ", "")
        lm = draw(st.sampled_from(["", "", "hh", "h", "l", "l", "ll", "j", "z", "t"]))
        val = ["Int", "i:%d" % draw(gen.ints())]
    elif conv == "u":
        flags = draw(_flags("-0"))
        lm = draw(st.sampled_from(["", "", "hh", "h", "l", "l", "ll", "j", "z", "t"]))
        val = ["Int", "i:%d" % draw(gen.ints())]
    elif conv in "oxX":
        flags = draw(_flags("-#0"))
        lm = draw(st.sampled_from(["", "", "hh", "h", "l", "l", "ll", "j", "z", "t"]))
        val = ["Int", "i:%d" % draw(gen.ints())]
    elif conv in FLT_CONV:
        flags = draw(_flags("-+ #0"))
        if "+" in flags and " " in flags:
            flags = flags.replace(" ", "")
        lm = draw(st.sampled_from(["", "", "l"]))
        val = ["Float", "f:%016x" % gen.f2b(draw(gen.floats()))]
        if prec is not None and prec > 30 and conv in "fF":
            prec = 30
    elif conv == "c":
        flags = draw(_flags("-"))
        prec = None
        val = ["Int", "i:%d" % draw(st.integers(1, 255))]
    elif conv == "s":
        flags = draw(_flags("-"))
        val = ["String", "s:" + draw(st.one_of(gen.cbytes(12), st.sampled_from([b"%d", b"100%", b"%s%s", b""]))).hex()]
    elif conv == "p":
        flags = draw(_flags("-"))
        prec = None
        val = ["Obj", draw(st.sampled_from(["heapint", "heapstr"]))]
    else:  # $
        flags, width, prec = "", None, None
        kind = draw(st.sampled_from(["Int", "Float", "String", "Array", "List", "Tuple", "Table", "Tree", "Type", "Ref", "Box", "Range", "Slice"]))
        if kind == "Int":
            val = ["Int", "i:%d" % draw(gen.ints())]
        elif kind == "Float":
            val = ["Float", "f:%016x" % gen.f2b(draw(gen.floats()))]
        elif kind == "String":
            val = ["String", "s:" + draw(st.one_of(gen.cbytes(12), st.sampled_from([b"a\"b", b"\\n\n", b"\t'?\x07\x08\x0c\r\x0b", b"%$"]))).hex()]
        elif kind == "Type":
            val = ["Type", draw(st.sampled_from(["Int", "Float", "String", "Array", "Table", "Type", "Ref", "IndexOutOfBoundsError", "Blob", "_"]))]
        elif kind in ("Ref", "Box"):
            val = [kind, "i:%d" % draw(st.integers(-99, 99))]
        elif kind == "Range":
            val = ["Range", draw(st.integers(0, 5))]
        elif kind == "Slice":
            val = ["Slice", draw(st.lists(st.integers(-50, 50), max_size=5)), draw(st.integers(0, 5))]
        elif kind in ("Array", "List", "Tuple"):
            et = draw(st.sampled_from(["Int", "String"]))
            items = draw(st.lists(st.integers(-50, 50).map(lambda v: "i:%d" % v) if et == "Int"
                                  else gen.cbytes(4).map(lambda b: "s:" + b.hex()), max_size=4))
            val = [kind, et, items]
        else:
            ks = draw(st.lists(st.integers(-20, 20), max_size=3, unique=True))
            val = [kind, "Int", [["i:%d" % k, "i:%d" % draw(st.integers(0, 9))] for k in ks]]
    if conv in "di" and "0" in flags and "-" in flags:
        flags = flags.replace("0", "")
    if conv in "uoxX" and "0" in flags and "-" in flags:
        flags = flags.replace("0", "")
    if conv in FLT_CONV and "0" in flags and "-" in flags:
        flags = flags.replace("0", "")
    return ["spec", flags, width, prec, lm, conv, val]


_lit = st.binary(min_size=1, max_size=10).map(lambda b: bytes(c for c in b if c not in (0, 0x25)) or b"x").map(lambda b: ["lit", b.hex()])


@st.composite
def _case(draw):
    pieces = draw(st.lists(st.one_of(_lit, st.just(["pct"]), _spec(), _spec()), min_size=1, max_size=8))
    nspec = sum(1 for p in pieces if p[0] == "spec")
    share = draw(st.sampled_from([False, False, True]))
    if share:
        # the SAME object at several argument positions: later specs of a value type reuse the first one's value,
        # and run_case passes one heap object for all of them
        first = {}
        for p in pieces:
            if p[0] == "spec" and p[6][0] in ("Int", "Float", "String") and p[5] not in "c":
                if p[6][0] in first and draw(st.booleans()):
                    p[6] = list(first[p[6][0]])
                else:
                    first.setdefault(p[6][0], p[6])
    prefix = draw(st.one_of(st.just(b""), gen.cbytes(12)))
    return {"pieces": pieces, "prefix": prefix.hex(), "pos": draw(st.sampled_from([0, 0, 1000, 500, 300])),
            "sink": draw(st.sampled_from(["string", "string", "file"])),
            "drop": draw(st.sampled_from([0, 0, 0, 0, 1])) if nspec else 0,
            "cfg": draw(st.sampled_from(["asan", "plain"])), "share": share}


def strategy(tier):
    return _case()


def spec_text(p):
    _, flags, width, prec, lm, conv, val = p
    s = "%" + flags
    if width is not None:
        s += str(width)
    if prec is not None:
        s += "." + str(prec)
    return s + lm + conv


def show_string(b):
    esc = {7: b"\\a", 8: b"\\b", 12: b"\\f", 10: b"\\n", 13: b"\\r", 9: b"\\t", 11: b"\\v", 0x5c: b"\\\\", 0x27: b"\\'", 0x22: b'\\"', 0x3f: b"\\?"}
    out = b'"'
    for c in b:
        out += esc.get(c, bytes([c]))
    return out + b'"'


def _re_escape(b):
    return re.escape(b)


def run_case(ctx, case):
    P = Prog()
    G = {}
    pieces = case["pieces"]
    fmt = b""
    args = []
    expect_parts = []       # bytes | ("ref", key) | ("regex", bytes pattern)
    slot = [10]
    shared = {}
    nflag = 0
    nspec = 0
    for idx, p in enumerate(pieces):
        if p[0] == "lit":
            b = bytes.fromhex(p[1])
            fmt += b
            expect_parts.append(b)
        elif p[0] == "pct":
            fmt += b"%%"
            expect_parts.append(b"%")
        else:
            st_ = spec_text(p).encode()
            fmt += st_
            nspec += 1
            _, flags, width, prec, lm, conv, val = p
            if flags or width is not None or prec is not None:
                nflag += 1
            if conv == "p":
                slot[0] += 1
                s = slot[0]
                if val[1] == "heapint":
                    P.add("new %%%d heap t:Int i:5" % s)
                else:
                    P.add("new %%%d heap t:String s:6162" % s)
                a = "%%%d" % s
            elif conv == "$" and val[0] in ("Array", "List", "Tuple", "Table", "Tree"):
                slot[0] += 1
                s = slot[0]
                if val[0] in ("Array", "List"):
                    P.add("new %%%d heap t:%s t:%s %s" % (s, val[0], val[1], " ".join(val[2])))
                elif val[0] == "Tuple":
                    refs = []
                    for it in val[2]:
                        slot[0] += 1
                        P.add("new %%%d heap t:%s %s" % (slot[0], val[1], it))
                        refs.append("%%%d" % slot[0])
                    P.add("new %%%d heap t:Tuple %s" % (s, " ".join(refs)))
                else:
                    P.add("new %%%d heap t:%s t:Int t:Int %s" % (s, val[0], " ".join(k + " " + v for k, v in val[2])))
                    key = "order%d" % idx

                    def grab(o, key=key):
                        if not o.startswith("ok {"):
                            return "iteration failed " + o
                        G[key] = o[4:-1]
                        return None
                    P.add("fwdkv %%%d" % s, grab)
                a = "%%%d" % s
            elif conv == "$" and val[0] == "Type":
                a = "t:" + val[1] if val[1] != "_" else "_"
            elif conv == "$" and val[0] in ("Ref", "Box"):
                slot[0] += 2
                P.add("new %%%d heap t:Int %s" % (slot[0] - 1, val[1]))
                P.add("new %%%d heap t:%s %%%d" % (slot[0], val[0], slot[0] - 1))
                if val[0] == "Box":
                    P.add("zero %%%d" % (slot[0] - 1))       # the Box owns it now
                a = "%%%d" % slot[0]
            elif conv == "$" and val[0] == "Slice":
                slot[0] += 2
                P.add("new %%%d heap t:Array t:Int %s" % (slot[0] - 1, " ".join("i:%d" % x for x in val[1])))
                P.add("new %%%d heap t:Slice %%%d i:%d _" % (slot[0], slot[0] - 1, min(val[2], len(val[1]))))
                a = "%%%d" % slot[0]
            elif conv == "$" and val[0] == "Range":
                slot[0] += 1
                P.add("new %%%d heap t:Range i:%d" % (slot[0], val[1]))
                a = "%%%d" % slot[0]
            elif case.get("share") and val[0] in ("Int", "Float", "String") and conv != "c":
                keyv = (val[0], val[1])
                if keyv not in shared:
                    slot[0] += 1
                    P.add("new %%%d heap t:%s %s" % (slot[0], val[0], val[1]))
                    shared[keyv] = "%%%d" % slot[0]
                a = shared[keyv]
            else:
                a = val[1]
            args.append(a)
            if conv == "$":
                if val[0] == "Int":
                    expect_parts.append(b"%d" % int(val[1][2:]))
                elif val[0] == "Float":
                    key = "c%d" % idx
                    P.add("cprintf %s - f %s" % (b"%f".hex(), val[1]), lambda o, key=key: G.__setitem__(key, bytes.fromhex(o[3:])) if o.startswith("ok") else "cprintf failed " + o)
                    expect_parts.append(("ref", key))
                elif val[0] == "String":
                    expect_parts.append(show_string(bytes.fromhex(val[1][2:])))
                elif val[0] == "Type":
                    expect_parts.append(val[1].encode())
                elif val[0] == "Ref":            # a type without a Show instance: the generic text
                    expect_parts.append(("regex", b"<'Ref' At [0-9a-zA-Z()x]+>"))
                elif val[0] == "Box":
                    expect_parts.append(("regex", b"<'Box' at [0-9a-zA-Z()x]+ \\(" + _re_escape(b"%d" % int(val[1][2:])) + b"\\)>"))
                elif val[0] == "Slice":
                    expect_parts.append(("regex", b"<'Slice' At [0-9a-zA-Z()x]+ \\[" + b", ".join(_re_escape(b"%d" % i) for i in val[1][min(val[2], len(val[1])):]) + b"\\]>"))
                elif val[0] == "Range":
                    expect_parts.append(("regex", b"<'Range' At [0-9a-zA-Z()x]+ \\[" + b", ".join(b"%d" % i for i in range(val[1])) + b"\\]>"))
                elif val[0] in ("Array", "List", "Tuple"):
                    def el(x):
                        return b"%d" % int(x[2:]) if x[0] == "i" else show_string(bytes.fromhex(x[2:]))
                    body = b", ".join(el(x) for x in val[2])
                    if val[0] == "Tuple":
                        expect_parts.append(b"tuple(" + body + b")")
                    else:
                        expect_parts.append(("regex", b"<'" + val[0].encode() + b"' At [0-9a-zA-Z()x]+ \\[" + _re_escape(body) + b"\\]>"))
                else:
                    expect_parts.append(("map", val[0], "order%d" % idx))
            else:
                key = "c%d" % idx
                P.add("cprintf %s %s %s %s" % (st_.hex(), lm or "-", conv, a),
                      lambda o, key=key: G.__setitem__(key, bytes.fromhex(o[3:])) if o.startswith("ok") else "cprintf failed " + o)
                expect_parts.append(("ref", key))
    prefix = bytes.fromhex(case["prefix"])
    pos = case["pos"] * (len(prefix) + 1) // 1001
    drop = case["drop"]
    use_args = args[:len(args) - drop] if drop else args
    res = {}

    def grab_res(o):
        res["o"] = o
        return None
    if case["sink"] == "string":
        P.add("new %%0 heap t:String s:%s" % prefix.hex())
        P.add("print %%0 %d %s %s" % (pos, fmt.hex(), " ".join(use_args)), grab_res)
        P.add("del %0", lambda o: None)
    else:
        P.add("fprint %d %s %s" % (pos, fmt.hex(), " ".join(use_args)), grab_res)
    fail, obs = P.run(ctx.executor("ex_vm_plain" if case.get("cfg") == "plain" else "ex_vm"))
    ev = ["sink=" + case["sink"], "nspec=%d" % min(nspec, 4), "cfg=" + case.get("cfg", "asan")]
    for p in pieces:
        if p[0] == "spec":
            ev.append("conv=" + p[5])
    first_spec = pieces[0][0] == "spec"
    last_spec = pieces[-1][0] == "spec"
    nt = (nspec >= 2 and nflag >= 1) or first_spec or last_spec or pos > 0
    if fail:
        return Result(fail, nt, ev, None)
    o = res.get("o", "")
    if drop:
        ev.append("too-few-args")
        if not o.startswith("exc FormatError"):
            return Result("too few arguments but print_to gave '%s' instead of FormatError" % o[:200], nt, ev, None)
        return Result(None, nt, ev, None)
    if not o.startswith("ok ret="):
        return Result("print_to failed: %s (format %r)" % (o[:200], fmt), nt, ev, None)
    m = re.match(r"ok ret=(-?\d+) s=([0-9a-f]*)", o)
    ret, got = int(m.group(1)), bytes.fromhex(m.group(2))
    # assemble the expectation (regex, because container headers contain an address)
    pat = b""
    for e in expect_parts:
        if isinstance(e, bytes):
            pat += _re_escape(e)
        elif e[0] == "ref":
            pat += _re_escape(G[e[1]])
        elif e[0] == "regex":
            pat += e[1]
        else:
            body = G.get(e[2], "")
            items = []
            if body:
                for kv in body.split(","):
                    k, v = kv.split(":")
                    items.append(b"%d:%d" % (int(k[1:]), int(v[1:])))
            pat += b"<'" + e[1].encode() + b"' At [0-9a-zA-Z()x]+ \\{" + _re_escape(b", ".join(items)) + b"\\}>"
    if case["sink"] == "string":
        head = prefix[:pos]
        full = _re_escape(head) + pat
        start = pos
    else:
        full = pat
        start = pos
    mm = re.fullmatch(full, got, re.DOTALL)
    if not mm:
        return Result("output %r does not match expected %r (format %r, args %s)" % (got[:300], full[:300], fmt, use_args), nt, ev, None)
    written = len(got) - (len(prefix[:pos]) if case["sink"] == "string" else 0)
    if ret != start + written:
        return Result("returned position %d, expected start %d + %d characters written" % (ret, start, written), nt, ev, None)
    return Result(None, nt, ev, None)


KNOWN = []
