"""C14 - print formatting equals C formatting, on every sink, with exact positions."""
import re
from hypothesis import strategies as st
from .. import build, gen
from ..core import Result, HarnessBug
from ..vm import Prog, expect_ok, expect_exc, lit_repr

ID = "C14"
LEVEL = "exploration"
BUDGET = {"quick": 3000, "thorough": 900000}
RULE = ("case = format string generated from the grammar (literal | %% | spec)*, spec = % flags* width? (.prec)? length? conv "
        "with conv in d i u o x X c s f F e E g G a A p $ (only flag/length combinations the C standard defines), specs at "
        "the very start/end and adjacent, literals over bytes 1..255 except '%' (also runs of 100-1100 bytes around buffer "
        "sizes), 1-8 pieces (sometimes up to 24), arguments: Int full range, Float incl. +-inf/+-0/denormals, Strings incl. "
        "bytes >= 0x80 and '%' and lengths around buffer sizes, for %s also a Type object (its C_Str text), for %p heap / "
        "stack / static objects and NULL; a generated start position inside an existing prefix; sink = heap String, File, or "
        "the process' stdout through print / println / show (captured by redirecting the descriptor); optionally one, two or "
        "all arguments too few, optionally surplus arguments (ignored, as String's own show relies on). %$ arguments: Int, "
        "Float, String, Type, NULL, Ref, Box (full or emptied), Range, Slice, Array / List of Int | String | Float, Table / "
        "Tree with Int or String keys and values, Tuple of mixed values incl. NULL elements and nested Tuples / Arrays / Tables, Slice with "
        "0-3 arguments (start / stop / step, negative and '_' forms) over Array, List, Tuple, Range, Table, Tree<Int|String> "
        "or another Slice (expected items = what the Slice yields through the iteration API); containers "
        "have 0-4 (sometimes up to 30) elements and optionally a history (elements pushed and popped again, keys set and "
        "removed again, the last elements added after construction, capacity reserved with resize) so that capacity and "
        "length differ. Oracle: per conversion the text libc's snprintf produces for the C "
        "value the specification designates (computed in the executor by a separate reference op), literals verbatim, %$ = "
        "show text (Int %li, Float %f, String quoted+escaped, NULL <NULL>, containers: header + each element's show text "
        "once, in iteration order); result = prefix[:pos] + text, returned position = pos + len(text) (println: + newline); "
        "too few arguments => FormatError. non-trivial = >= 2 specs with at least one flag/width/precision, or a spec at "
        "either end of the format, or pos > 0. distinct = distinct case JSON.")
ASSUMPTIONS = ["this libc's printf is the reference (same process); '*' width/precision, %n, L, %lc/%ls are outside the API's expressible domain",
               "surplus arguments are ignored (String_Show and Tuple_Show themselves pass one)", "show of NULL is <NULL> (show_to handles it explicitly)",
               "flag/length combinations that are undefined behaviour in C are not generated", "ASan watches format buffer and destination"]

INT_CONV = "diuoxX"
FLT_CONV = "fFeEgGaA"


def prepare(tier):
    # two compilers: what a too-narrow vararg looks like to printf depends on the code generator (clang at -O1 often
    # leaves the upper half of the register intact, gcc -O0 zero-extends), so every case runs under one of both
    return {"ex_vm": build.executor("asan", "ex_vm"), "ex_vm_plain": build.executor("plain", "ex_vm"),
            "fz_fmt": build.executor("fuzz", "fz_fmt", extra_ldflags=["-fsanitize=fuzzer"])}


# coverage-guided companion (libFuzzer, ASan): bytes -> (prefix, position, format pieces, arguments); the target compares
# print_to with snprintf per conversion and round-trips every argument through show/look (see harness/fz_fmt.c)
FUZZ = [{"target": "fz_fmt", "runs": {"quick": 60000, "thorough": 20000000}, "max_len": 256}]


def _flags(allowed):
    return st.lists(st.sampled_from(allowed), max_size=3, unique=True).map(lambda l: "".join(l)) if allowed else st.just("")


BOUNDARY = [100, 126, 127, 128, 129, 254, 255, 256, 257, 511, 512, 513, 1023, 1024, 1025, 1100]
_ADDR = b"[0-9a-zA-Z()x]+"


def _elem(et):
    if et == "Int":
        return st.integers(-50, 50).map(lambda v: "i:%d" % v)
    if et == "Float":
        return st.one_of(st.sampled_from([0.0, -0.0, 0.5, -2.5, 1e22, 16777217.0, 1e-7, float("inf")]),
                         st.floats(-1000, 1000, allow_nan=False)).map(lambda x: "f:%016x" % gen.f2b(x))
    return gen.cbytes(4).map(lambda b: "s:" + b.hex())


def _nelems(draw):
    return draw(st.sampled_from([0, 1, 2, 3, 4, 2, 3, 4, 9, 17, 30]))


@st.composite
def _seq_val(draw, kind=None):
    kind = kind or draw(st.sampled_from(["Array", "List"]))
    et = draw(st.sampled_from(["Int", "String", "Float"]))
    n = _nelems(draw)
    items = draw(st.lists(_elem(et), min_size=0, max_size=n))
    # history: k elements pushed at the end and popped again; one element pushed at the front and popped again
    # ... the last `late` items pushed after construction (capacity grows in steps), capacity reserved by resize (Array)
    hist = {"push": draw(st.sampled_from([0, 0, 1, 3, 20])), "front": draw(st.booleans()),
            "late": draw(st.sampled_from([0, 0, 1, 2, 5])), "reserve": draw(st.sampled_from([0, 0, 0, 1, 7, 40]))}
    return [kind, et, items, hist]


@st.composite
def _map_val(draw, kind=None):
    kind = kind or draw(st.sampled_from(["Table", "Tree"]))
    kv = draw(st.sampled_from(["Int", "Int", "SI", "IS", "SS"]))          # key / value types: Int,Int | String,Int | Int,String | String,String
    n = _nelems(draw)
    if kv in ("SI", "SS"):
        keys = ["s:" + k.hex() for k in draw(st.lists(gen.cbytes(3), max_size=n, unique=True))]
    else:
        keys = ["i:%d" % k for k in draw(st.lists(st.integers(-20, 20), max_size=n, unique=True))]
    if kv == "Int":
        vals = ["i:%d" % draw(st.integers(0, 9)) for _ in keys]
    else:
        vals = [draw(_elem("String" if kv in ("IS", "SS") else "Int")) for _ in keys]
    # keys set and removed again before the show; the last `late` pairs set after construction; slots reserved by resize (Table)
    hist = {"extra": draw(st.sampled_from([0, 0, 1, 4, 16])), "late": draw(st.sampled_from([0, 0, 1, 2, 5])),
            "reserve": draw(st.sampled_from([0, 0, 0, 1, 7, 40]))}
    return [kind, kv, [[k, v] for k, v in zip(keys, vals)], hist]


_slice_arg = st.one_of(st.just("_"), st.integers(-15, 15), st.integers(-3, 3))


@st.composite
def _slice_val(draw, depth=0):
    """a Slice (0-3 arguments: stop | start, stop | start, stop, step; '_' = default; negative = from the end / backwards)
    over an Array, List, Tuple, Range, Table, Tree or another Slice (the same argument domain as C11's walks)"""
    bk = draw(st.sampled_from(["Array", "List", "Tuple", "Range", "Table", "Tree", "Tree", "TreeS"] + (["Slice"] if depth == 0 else [])))
    n = draw(st.integers(0, 8))
    if bk in ("Array", "List", "Tuple"):
        base = [bk, "Int", ["i:%d" % v for v in draw(st.lists(st.integers(-50, 50), max_size=n))]]
    elif bk == "Range":
        base = ["Range", n]
    elif bk == "Slice":
        base = draw(_slice_val(1))
    elif bk == "TreeS":
        ks = draw(st.lists(gen.cbytes(3), max_size=n, unique=True))
        base = ["Tree", "SI", [["s:" + k.hex(), "i:%d" % i] for i, k in enumerate(ks)]]
    else:
        # keys far from 0..n-1: a key is not a position
        ks = draw(st.lists(st.one_of(st.integers(-20, 20), st.integers(100, 120)), max_size=n, unique=True))
        base = [bk, "Int", [["i:%d" % k, "i:%d" % draw(st.integers(0, 9))] for k in ks]]
    na = draw(st.sampled_from([0, 0, 1, 2, 3, 3, 3]))
    args = [draw(_slice_arg) for _ in range(na)]
    if na == 3:
        args[2] = draw(st.sampled_from([1, -1, 2, -2, 3, -3, "_"]))
    return ["SliceX", base, args]


@st.composite
def _mix_val(draw, depth=0):
    """a Tuple of mixed values, possibly holding other containers"""
    n = draw(st.integers(0, 4 if depth else 6))
    items = []
    for _ in range(n):
        k = draw(st.sampled_from(["Int", "Int", "String", "String", "Float", "Type", "Mix", "Array", "Table", "Null"] if depth < 2 else ["Int", "String", "Float", "Null"]))
        if k == "Null":
            items.append(["Null"])       # a NULL element is shown as <NULL>, with the separators of any other element
        elif k == "Int":
            items.append(["Int", "i:%d" % draw(gen.ints())])
        elif k == "String":
            items.append(["String", "s:" + draw(gen.cbytes(6)).hex()])
        elif k == "Float":
            items.append(["Float", draw(_elem("Float"))])
        elif k == "Type":
            items.append(["Type", draw(st.sampled_from(["Int", "Tuple", "Blob"]))])
        elif k == "Mix":
            items.append(draw(_mix_val(depth + 1)))
        elif k == "Array":
            items.append(draw(_seq_val()))
        else:
            items.append(draw(_map_val()))
    return ["Mix", items]


def _has_null(val):
    """does this Mix value hold a NULL element, directly or in a nested Mix?  (every enclosing Tuple is then stack-class)"""
    return val[0] == "Null" or (val[0] == "Mix" and any(_has_null(v) for v in val[1]))


def _slots(val):
    """VM slots the value needs"""
    k = val[0]
    if k == "Mix":
        return 1 + sum(_slots(v) for v in val[1])
    if k == "Tuple":
        return 1 + len(val[2])
    if k == "SliceX":
        return 1 + _slots(val[1])
    return 2


@st.composite
def _spec(draw):
    conv = draw(st.sampled_from(list("ddiuoxXcsssfFeEgGaAp$$$")))
    width = draw(st.one_of(st.none(), st.none(), st.integers(0, 40), st.integers(0, 40),
                           st.sampled_from([63, 64, 65, 127, 128, 129, 255, 256, 257])))       # and typical buffer sizes
    prec = draw(st.one_of(st.none(), st.none(), st.integers(0, 40)))
    lm = ""
    if conv in "di":
        flags = draw(_flags("-+ 0"))
        if "+" in flags and " " in flags:
            flags = flags.replace(" ", "")
        lm = draw(st.sampled_from(["", "", "hh", "h", "l", "l", "ll", "j", "z", "t"]))
        val = ["Int", "i:%d" % draw(gen.ints())]
    elif conv == "u":
        flags = draw(_flags("-0"))
        lm = draw(st.sampled_from(["", "", "hh", "h", "l", "l", "ll", "j", "z", "t"]))
        val = ["Int", "i:%d" % draw(gen.ints())]
    elif conv in "oxX":
        flags = draw(_flags("-#0"))
        lm = draw(st.sampled_from(["", "", "hh", "h", "l", "l", "ll", "j", "z", "t"]))
        val = ["Int", "i:%d" % draw(gen.ints())]
    elif conv in FLT_CONV:
        flags = draw(_flags("-+ #0"))
        if "+" in flags and " " in flags:
            flags = flags.replace(" ", "")
        lm = draw(st.sampled_from(["", "", "l"]))
        val = ["Float", "f:%016x" % gen.f2b(draw(gen.floats()))]
        if prec is not None and prec > 30 and conv in "fF":
            prec = 30
    elif conv == "c":
        flags = draw(_flags("-"))
        prec = None
        val = ["Int", "i:%d" % draw(st.integers(1, 255))]
    elif conv == "s":
        flags = draw(_flags("-"))
        how = draw(st.sampled_from(["str", "str", "str", "str", "long", "type"]))
        if how == "type":       # any object with a C_Str instance: the text is its c_str
            val = ["Type", draw(st.sampled_from(["Int", "String", "IndexOutOfBoundsError", "Blob", "C_Str"]))]
        elif how == "long":     # lengths at and around buffer sizes
            val = ["String", "s:" + (bytes([draw(st.integers(33, 126))]) * draw(st.sampled_from(BOUNDARY))).hex()]
        else:
            val = ["String", "s:" + draw(st.one_of(gen.cbytes(12), st.sampled_from([b"%d", b"100%", b"%s%s", b""]))).hex()]
    elif conv == "p":
        flags = draw(_flags("-"))
        prec = None
        val = ["Obj", draw(st.sampled_from(["heapint", "heapstr", "null", "type", "stack"]))]
    else:  # $
        flags, width, prec = "", None, None
        kind = draw(st.sampled_from(["Int", "Float", "String", "Array", "List", "Tuple", "Table", "Tree", "Type", "Ref", "Box", "Range", "Slice",
                                     "Null", "EmptyBox", "Mix", "Mix", "Array", "List", "Table", "Tree", "SliceX", "SliceX", "SliceX", "SliceX", "SliceX"]))
        if kind == "Int":
            val = ["Int", "i:%d" % draw(gen.ints())]
        elif kind == "Float":
            val = ["Float", "f:%016x" % gen.f2b(draw(gen.floats()))]
        elif kind == "String":
            val = ["String", "s:" + draw(st.one_of(gen.cbytes(12), st.sampled_from([b"a\"b", b"\\n\n", b"\t'?\x07\x08\x0c\r\x0b", b"%$"]))).hex()]
        elif kind == "Type":
            val = ["Type", draw(st.sampled_from(["Int", "Float", "String", "Array", "Table", "Type", "Ref", "IndexOutOfBoundsError", "Blob", "_"]))]
        elif kind in ("Ref", "Box"):
            val = [kind, "i:%d" % draw(st.integers(-99, 99))]
        elif kind in ("Null", "EmptyBox"):
            val = [kind]
        elif kind == "Range":
            val = ["Range", draw(st.integers(0, 5))]
        elif kind == "Slice":
            val = ["Slice", draw(st.lists(st.integers(-50, 50), max_size=5)), draw(st.integers(0, 5))]
        elif kind == "Mix":
            val = draw(_mix_val())
        elif kind == "SliceX":
            val = draw(_slice_val())
        elif kind in ("Array", "List"):
            val = draw(_seq_val(kind))
        elif kind == "Tuple":
            et = draw(st.sampled_from(["Int", "String"]))
            val = [kind, et, draw(st.lists(_elem(et), max_size=4))]
        else:
            val = draw(_map_val(kind))
    if conv in "di" and "0" in flags and "-" in flags:
        flags = flags.replace("0", "")
    if conv in "uoxX" and "0" in flags and "-" in flags:
        flags = flags.replace("0", "")
    if conv in FLT_CONV and "0" in flags and "-" in flags:
        flags = flags.replace("0", "")
    return ["spec", flags, width, prec, lm, conv, val]


def _mk_lit(t):
    how, short, c, n = t
    if how == 5:                         # a long literal run, lengths at and around buffer sizes
        return ["lit", (bytes([c if c != 0x25 else 0x26]) * n).hex()]
    return ["lit", (bytes(x for x in short if x not in (0, 0x25)) or b"x").hex()]


# (one strategy, not a one_of: nested one_ofs are flattened and would change the literal : spec ratio)
_lit = st.tuples(st.integers(0, 5), st.binary(min_size=1, max_size=10), st.integers(33, 126), st.sampled_from(BOUNDARY)).map(_mk_lit)


@st.composite
def _case(draw):
    npieces = draw(st.sampled_from([8, 8, 8, 8, 8, 8, 8, 24]))
    pieces = draw(st.lists(st.one_of(_lit, st.just(["pct"]), _spec(), _spec()), min_size=1, max_size=npieces))
    nspec = sum(1 for p in pieces if p[0] == "spec")
    share = draw(st.sampled_from([False, False, True]))
    if share:
        # the SAME object at several argument positions: later specs of a value type reuse the first one's value,
        # and run_case passes one heap object for all of them
        first = {}
        for p in pieces:
            if p[0] == "spec" and p[6][0] in ("Int", "Float", "String") and p[5] not in "c":
                if p[6][0] in first and draw(st.booleans()):
                    p[6] = list(first[p[6][0]])
                else:
                    first.setdefault(p[6][0], p[6])
    # the VM has 256 object slots: cut the format where the %$ values would need more
    budget, keep = 200, []
    for p in pieces:
        if p[0] == "spec":
            budget -= _slots(p[6]) + 1
            if budget < 0:
                break
        keep.append(p)
    pieces = keep or [["pct"]]
    nspec = sum(1 for p in pieces if p[0] == "spec")
    prefix = draw(st.one_of(st.just(b""), gen.cbytes(12)))
    sink = draw(st.sampled_from(["string", "string", "string", "string", "file", "file", "stdout"]))
    return {"pieces": pieces, "prefix": prefix.hex(), "pos": draw(st.sampled_from([0, 0, 1000, 500, 300])),
            "sink": sink,
            # arguments missing at the end: one, two, all (99)
            "drop": draw(st.sampled_from([0, 0, 0, 0, 0, 0, 0, 1, 1, 2, 99])) if nspec else 0,
            # surplus arguments after the ones the format consumes
            "extra": draw(st.sampled_from([0, 0, 0, 1, 2])),
            "entry": draw(st.sampled_from(["print", "println", "show"])),
            "cfg": draw(st.sampled_from(["asan", "plain"])), "share": share}


def strategy(tier):
    return _case()


def spec_text(p):
    _, flags, width, prec, lm, conv, val = p
    s = "%" + flags
    if width is not None:
        s += str(width)
    if prec is not None:
        s += "." + str(prec)
    return s + lm + conv


def show_string(b):
    esc = {7: b"\\a", 8: b"\\b", 12: b"\\f", 10: b"\\n", 13: b"\\r", 9: b"\\t", 11: b"\\v", 0x5c: b"\\\\", 0x27: b"\\'", 0x22: b'\\"', 0x3f: b"\\?"}
    out = b'"'
    for c in b:
        out += esc.get(c, bytes([c]))
    return out + b'"'


def _re_escape(b):
    return re.escape(b)


_SAMPLE = {"Int": "i:99", "String": "s:7a7a", "Float": "f:4058c00000000000"}


class _Builder:
    """turns a %$ value description into VM ops (P), the argument text and the expected text parts
    (bytes = verbatim | ("ref", key) = libc reference text | ("regex", pattern) | ("map", key, open, close) = pairs in
    the iteration order observed through the iteration API)"""

    def __init__(self, P, G, ev):
        self.P, self.G, self.ev = P, G, ev
        self.slot = 10
        self.nkey = 0

    def new_slot(self):
        self.slot += 1
        if self.slot >= 250:
            raise HarnessBug("out of VM slots")
        return self.slot

    def key(self, tag):
        self.nkey += 1
        return "%s%d" % (tag, self.nkey)

    def float_ref(self, lit):
        key = self.key("f")
        G = self.G
        self.P.add("cprintf %s - f %s" % (b"%f".hex(), lit),
                   lambda o, key=key: G.__setitem__(key, bytes.fromhex(o[3:])) if o.startswith("ok") else "cprintf failed " + o)
        return ("ref", key)

    def scalar_parts(self, lit):
        if lit[0] == "i":
            return [b"%d" % int(lit[2:])]
        if lit[0] == "f":
            return [self.float_ref(lit)]
        return [show_string(bytes.fromhex(lit[2:]))]

    def build(self, val, depth=0):
        """-> (argument text, parts)"""
        P, G = self.P, self.G
        k = val[0]
        if depth == 0:
            self.ev.add("val=" + k)
        else:
            self.ev.add("nested=" + k)
        if k in ("Int", "Float", "String"):
            if depth == 0:
                return val[1], self.scalar_parts(val[1])
            s = self.new_slot()
            P.add("new %%%d heap t:%s %s" % (s, k, val[1]))
            return "%%%d" % s, self.scalar_parts(val[1])
        if k == "Type":
            return ("t:" + val[1] if val[1] != "_" else "_"), [val[1].encode()]
        if k == "Null":
            return "null", [b"<NULL>"]
        if k in ("Ref", "Box", "EmptyBox"):
            inner, s = self.new_slot(), self.new_slot()
            lit = val[1] if k != "EmptyBox" else "i:1"
            P.add("new %%%d heap t:Int %s" % (inner, lit))
            P.add("new %%%d heap t:%s %%%d" % (s, "Ref" if k == "Ref" else "Box", inner))
            if k == "Ref":            # a type without a Show instance: the generic text
                return "%%%d" % s, [("regex", b"<'Ref' At " + _ADDR + b">")]
            if k == "Box":
                P.add("zero %%%d" % inner)       # the Box owns it now
                return "%%%d" % s, [("regex", b"<'Box' at " + _ADDR + b" \\(" + _re_escape(b"%d" % int(lit[2:])) + b"\\)>")]
            P.add("ref %%%d null" % s)           # the release idiom: the Box is empty, the Int is ours again
            P.add("del %%%d" % inner)
            return "%%%d" % s, [("regex", b"<'Box' at " + _ADDR + b" \\(<NULL>\\)>")]
        if k == "Range":
            s = self.new_slot()
            P.add("new %%%d heap t:Range i:%d" % (s, val[1]))
            return "%%%d" % s, [("regex", b"<'Range' At " + _ADDR + b" \\[" + b", ".join(b"%d" % i for i in range(val[1])) + b"\\]>")]
        if k == "Slice":
            a, s = self.new_slot(), self.new_slot()
            P.add("new %%%d heap t:Array t:Int %s" % (a, " ".join("i:%d" % x for x in val[1])))
            P.add("new %%%d heap t:Slice %%%d i:%d _" % (s, a, min(val[2], len(val[1]))))
            return "%%%d" % s, [("regex", b"<'Slice' At " + _ADDR + b" \\[" + b", ".join(_re_escape(b"%d" % i) for i in val[1][min(val[2], len(val[1])):]) + b"\\]>")]
        if k in ("Array", "List"):
            et, items = val[1], val[2]
            hist = val[3] if len(val) > 3 else {}
            s = self.new_slot()
            late = min(hist.get("late", 0), len(items))
            P.add("new %%%d heap t:%s t:%s %s" % (s, k, et, " ".join(items[:len(items) - late])))
            if hist.get("reserve") and k == "Array":
                P.add("resize %%%d %d" % (s, len(items) - late + hist["reserve"]))
            for it in items[len(items) - late:]:
                P.add("push %%%d %s" % (s, it))
            if hist.get("push") or hist.get("front") or late or (hist.get("reserve") and k == "Array"):
                self.ev.add("container-history")
            for _ in range(hist.get("push", 0)):
                P.add("push %%%d %s" % (s, _SAMPLE[et]))
            for _ in range(hist.get("push", 0)):
                P.add("pop %%%d" % s)
            if hist.get("front"):
                P.add("push_at %%%d %s i:0" % (s, _SAMPLE[et]))
                P.add("pop_at %%%d i:0" % s)
            if len(items) > 4:
                self.ev.add("container>4")
            parts = [("regex", b"<'" + k.encode() + b"' At " + _ADDR + b" \\[")]
            for i, it in enumerate(items):
                if i:
                    parts.append(b", ")
                parts += self.scalar_parts(it)
            return "%%%d" % s, parts + [b"]>"]
        if k == "Tuple":
            et, items = val[1], val[2]
            refs, parts = [], [b"tuple("]
            for i, it in enumerate(items):
                r = self.new_slot()
                P.add("new %%%d heap t:%s %s" % (r, et, it))
                refs.append("%%%d" % r)
                if i:
                    parts.append(b", ")
                parts += self.scalar_parts(it)
            s = self.new_slot()
            P.add("new %%%d heap t:Tuple %s" % (s, " ".join(refs)))
            return "%%%d" % s, parts + [b")"]
        if k == "Mix":
            refs, parts = [], [b"tuple("]
            for i, it in enumerate(val[1]):
                a, ps = self.build(it, depth + 1)
                refs.append(a)
                if i:
                    parts.append(b", ")
                parts += ps
            s = self.new_slot()
            if _has_null(val):
                # a Tuple with a NULL element is the stack-class `tuple(a, NULL, b)` the library itself builds for
                # print("%$", NULL): a collector-managed Tuple holding NULL makes the next collection raise ValueError
                # (type_of(NULL) in the marker) from an unrelated `new` - outside this property, see DESIGN 8.95
                P.add("stup %%%d %s" % (s, " ".join(refs)))
            else:
                P.add("new %%%d heap t:Tuple %s" % (s, " ".join(refs)))
            return "%%%d" % s, parts + [b")"]
        if k == "SliceX":
            base, _ = self.build(val[1], depth + 1)
            s = self.new_slot()
            P.add("new %%%d heap t:Slice %s %s" % (s, base, " ".join("_" if a == "_" else "i:%d" % a for a in val[2])))
            self.ev.add("slice-over=" + val[1][0] + ("<String>" if val[1][0] == "Tree" and val[1][1] == "SI" else ""))
            if len(val[2]) == 3 and val[2][2] != "_" and val[2][2] < 0:
                self.ev.add("slice-backwards")
            key = self.key("walk")

            def grabw(o, key=key):
                if not (o.startswith("ok [") and o.endswith("]")) or "OVERRUN" in o:
                    return "iteration failed " + o[:200]
                G[key] = o[4:-1]
                return None
            P.add("fwd %%%d" % s, grabw)           # what the Slice yields, in iteration order, through the iteration API
            return "%%%d" % s, [("walk", "Slice", key)]
        if k in ("Table", "Tree"):
            kv, pairs = val[1], val[2]
            hist = val[3] if len(val) > 3 else {}
            kt = "String" if kv in ("SI", "SS") else "Int"
            vt = "String" if kv in ("IS", "SS") else "Int"
            s = self.new_slot()
            late = min(hist.get("late", 0), len(pairs))
            P.add("new %%%d heap t:%s t:%s t:%s %s" % (s, k, kt, vt, " ".join(a + " " + b for a, b in pairs[:len(pairs) - late])))
            if hist.get("reserve") and k == "Table":
                P.add("resize %%%d %d" % (s, len(pairs) - late + hist["reserve"]))
            for a, b in pairs[len(pairs) - late:]:
                P.add("set %%%d %s %s" % (s, a, b))
            if hist.get("extra") or late or (hist.get("reserve") and k == "Table"):
                self.ev.add("container-history")
            for j in range(hist.get("extra", 0)):            # keys outside the generated universe, set and removed again
                xk = "i:%d" % (100 + 7 * j) if kt == "Int" else "s:" + (b"\x7e%d" % j).hex()
                P.add("set %%%d %s %s" % (s, xk, _SAMPLE[vt]))
            for j in range(hist.get("extra", 0)):
                xk = "i:%d" % (100 + 7 * j) if kt == "Int" else "s:" + (b"\x7e%d" % j).hex()
                P.add("rem %%%d %s" % (s, xk))
            if len(pairs) > 4:
                self.ev.add("container>4")
            if kv != "Int":
                self.ev.add("map-types=" + kv)
            key = self.key("order")

            def grab(o, key=key):
                if not o.startswith("ok {"):
                    return "iteration failed " + o
                G[key] = o[4:-1]
                return None
            P.add("fwdkv %%%d" % s, grab)
            return "%%%d" % s, [("map", k, key)]
        raise HarnessBug("value kind " + k)


def _tok_show(tok):
    """show text of a value as the VM prints it (i<dec> | s<hex>)"""
    if tok[0] == "i":
        return b"%d" % int(tok[1:])
    if tok[0] == "s":
        return show_string(bytes.fromhex(tok[1:]))
    raise HarnessBug("token " + tok)


def run_case(ctx, case):
    P = Prog()
    G = {}
    pieces = case["pieces"]
    fmt = b""
    args = []
    expect_parts = []       # bytes | ("ref", key) | ("regex", bytes pattern) | ("map", kind, key)
    evs = set()
    B = _Builder(P, G, evs)
    shared = {}
    nflag = 0
    nspec = 0
    for idx, p in enumerate(pieces):
        if p[0] == "lit":
            b = bytes.fromhex(p[1])
            fmt += b
            expect_parts.append(b)
            if len(b) >= 100:
                evs.add("long-literal")
        elif p[0] == "pct":
            fmt += b"%%"
            expect_parts.append(b"%")
        else:
            st_ = spec_text(p).encode()
            fmt += st_
            nspec += 1
            _, flags, width, prec, lm, conv, val = p
            if flags or width is not None or prec is not None:
                nflag += 1
            if conv == "p":
                s = B.new_slot()
                a = "%%%d" % s
                if val[1] == "heapint":
                    P.add("new %%%d heap t:Int i:5" % s)
                elif val[1] == "heapstr":
                    P.add("new %%%d heap t:String s:6162" % s)
                elif val[1] == "stack":
                    P.add("tmp %%%d i:5" % s)
                elif val[1] == "type":
                    a = "t:Float"
                else:
                    a = "null"
                evs.add("p=" + val[1])
            elif conv == "$":
                a, parts = B.build(val)
                expect_parts += parts
            elif conv == "s" and val[0] == "Type":
                a = "t:" + val[1]
                evs.add("s-arg=Type")
            elif case.get("share") and val[0] in ("Int", "Float", "String") and conv != "c":
                keyv = (val[0], val[1])
                if keyv not in shared:
                    s = B.new_slot()
                    P.add("new %%%d heap t:%s %s" % (s, val[0], val[1]))
                    shared[keyv] = "%%%d" % s
                a = shared[keyv]
            else:
                a = val[1]
            if conv == "s" and val[0] == "String" and len(val[1]) >= 202:
                evs.add("long-string-arg")
            args.append(a)
            if conv != "$":
                key = "c%d" % idx
                P.add("cprintf %s %s %s %s" % (st_.hex(), lm or "-", conv, a),
                      lambda o, key=key: G.__setitem__(key, bytes.fromhex(o[3:])) if o.startswith("ok") else "cprintf failed " + o)
                expect_parts.append(("ref", key))
    prefix = bytes.fromhex(case["prefix"])
    sink = case["sink"]
    pos = case["pos"] * (len(prefix) + 1) // 1001
    if sink == "stdout":
        pos, prefix = 0, b""
    drop = min(case["drop"], len(args))
    use_args = args[:len(args) - drop] if drop else list(args)
    extra = case.get("extra", 0) if not drop else 0
    use_args += ["i:7", "s:737572706c7573"][:extra]
    res = {}
    entry = case.get("entry", "print")
    if sink == "stdout" and entry == "show" and not (len(pieces) == 1 and pieces[0][0] == "spec" and pieces[0][5] == "$" and not drop):
        entry = "print"

    def grab_res(o):
        res["o"] = o
        return None
    if sink == "string":
        P.add("new %%0 heap t:String s:%s" % prefix.hex())
        P.add("print %%0 %d %s %s" % (pos, fmt.hex(), " ".join(use_args)), grab_res)
        P.add("del %0", lambda o: None)
    elif sink == "file":
        P.add("fprint %d %s %s" % (pos, fmt.hex(), " ".join(use_args)), grab_res)
    elif entry == "show":
        P.add("oprint s %s" % args[0], grab_res)
    else:
        P.add("oprint %s %s %s" % ("p" if entry == "print" else "n", fmt.hex(), " ".join(use_args)), grab_res)
    fail, obs = P.run(ctx.executor("ex_vm_plain" if case.get("cfg") == "plain" else "ex_vm"))
    ev = ["sink=" + sink, "nspec=%d" % min(nspec, 4), "cfg=" + case.get("cfg", "asan")] + sorted(evs)
    if sink == "stdout":
        ev.append("entry=" + entry)
    if len(pieces) > 8:
        ev.append("pieces>8")
    for p in pieces:
        if p[0] == "spec":
            ev.append("conv=" + p[5])
    first_spec = pieces[0][0] == "spec"
    last_spec = pieces[-1][0] == "spec"
    nt = (nspec >= 2 and nflag >= 1) or first_spec or last_spec or pos > 0
    if fail:
        return Result(fail, nt, ev, None)
    o = res.get("o", "")
    if drop:
        ev.append("too-few-args")
        ev.append("dropped=%s" % ("all" if drop == len(args) else drop))
        if not (o.startswith("exc FormatError") or (sink == "stdout" and o.startswith("ok raised FormatError "))):
            return Result("too few arguments but print_to gave '%s' instead of FormatError" % o[:200], nt, ev, None)
        return Result(None, nt, ev, None)
    if extra:
        ev.append("surplus-args")
    if not o.startswith("ok ret="):
        return Result("print_to failed: %s (format %r)" % (o[:200], fmt), nt, ev, None)
    m = re.match(r"ok ret=(-?\d+) s=([0-9a-f]*)", o)
    ret, got = int(m.group(1)), bytes.fromhex(m.group(2))
    # assemble the expectation (regex, because container headers contain an address)
    pat = b""
    for e in expect_parts:
        if isinstance(e, bytes):
            pat += _re_escape(e)
        elif e[0] == "ref":
            pat += _re_escape(G[e[1]])
        elif e[0] == "regex":
            pat += e[1]
        elif e[0] == "walk":
            body = G.get(e[2], "")
            items = [_tok_show(t) for t in body.split(",")] if body else []
            pat += b"<'" + e[1].encode() + b"' At " + _ADDR + b" \\[" + _re_escape(b", ".join(items)) + b"\\]>"
        else:
            body = G.get(e[2], "")
            items = []
            if body:
                for kv in body.split(","):
                    k, v = kv.split(":")
                    items.append(_tok_show(k) + b":" + _tok_show(v))
            pat += b"<'" + e[1].encode() + b"' At " + _ADDR + b" \\{" + _re_escape(b", ".join(items)) + b"\\}>"
    if sink == "stdout" and entry == "println":
        pat += b"\\n"
    if sink == "string":
        head = prefix[:pos]
        full = _re_escape(head) + pat
        start = pos
    else:
        full = pat
        start = pos
    mm = re.fullmatch(full, got, re.DOTALL)
    if not mm:
        return Result("output %r does not match expected %r (format %r, args %s)" % (got[:300], full[:300], fmt[:200], use_args[:12]), nt, ev, None)
    written = len(got) - (len(prefix[:pos]) if sink == "string" else 0)
    if ret != start + written:
        return Result("returned position %d, expected start %d + %d characters written" % (ret, start, written), nt, ev, None)
    return Result(None, nt, ev, None)


KNOWN = []
