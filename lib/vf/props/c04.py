"""C04 - Array, List and Tuple behave as sequences."""
from .. import build
from ..core import Result
from . import seqs

ID = "C04"
ALT_BUILD = True          # a quarter of the workers run the gcc -O0 build (core.py)
LEVEL = "exploration"
BUDGET = {"quick": 1600, "thorough": 360000}
RULE = ("case = container constructed empty or with up to 9 elements, then an op list (push/pop/push_at/pop_at/set/get/"
        "rem/mem/concat/append/resize/sort and sort_by lt|gt|le|ge/assign/copy, bulk push/pop runs up to 120 elements, concat "
        "and assign from sources of up to 150 elements, assign from a heap or stack Range) over Array/List of Int|String|"
        "Blob (16-byte struct)|Tri (3-byte struct) and heap Tuple of distinct heap objects of these types, indices generated "
        "as in-range positions (positive and negative forms); after every mutation len, forward iteration, get(i) and "
        "get(i-len) for all i (len <= 40) and mem of every value of the element universe (present and absent) are compared "
        "with a Python list; sort must give the ordered permutation; rem deletes the first equal element; push_at with a "
        "negative index or with i == len (also on an empty container) is checked against the admissible set. "
        "non-trivial = (Array) the backing store both grew and shrank (capacity read through the hook), or "
        "negative indices were used on >= 2 different operations, or a sequence with duplicate values was sorted. "
        "distinct = distinct case JSON.")
ASSUMPTIONS = ["Python list is the reference sequence",
               "push_at with a negative index or with i == len: the three containers disagree (DESIGN.md Appendix A), so the oracle "
               "accepts 'inserted at the old-length or new-length position' resp. 'appended, or IndexOutOfBoundsError and unchanged' "
               "and nothing else; the container is then brought back to a known state",
               "List grow-resize pads with zero-filled elements: generated for Int/Blob/Tri lists only (a zero String has no buffer); "
               "Tuples never hold one pointer twice (C11 known finding)",
               "assign(array|list, tuple) re-types the target to Ref (documented): Tuple sources are replaced by List/Array sources there; "
               "assign from a Range is taken from tests/test.c (test_array_assign, test_list_assign)"]


def prepare(tier):
    return {"ex_vm": build.executor("asan", "ex_vm"), "fz_seq": build.executor("fuzz", "fz_seq", extra_ldflags=["-fsanitize=fuzzer"])}


# coverage-guided companion (libFuzzer, ASan): Array<Int>, List<Int> and a heap Tuple of distinct heap Ints in lock step
# against a plain C array (incl. plain sort and push_at with i == len under the admissible-set rule), every op followed
# by len / get (both index forms) / mem / forward and backward iteration, a generated Slice view and, on request,
# Zip(array, list) / Filter / Map views (harness/fz_seq.c)
FUZZ = [{"target": "fz_seq", "runs": {"quick": 6000, "thorough": 2000000}, "max_len": 200}]


def strategy(tier):
    return seqs.seq_case(ext=True)


def run_case(ctx, case):
    r = seqs.SeqRun(case, check_mem=True)
    r.start()
    for op in case["ops"]:
        r.apply(op)
    r.finish()
    fail, obs = r.P.run(ctx.executor("ex_vm"))
    fl = r.flags
    ev = sorted(r.events) + ["kind=%s<%s>" % (case["kind"], case["et"])]
    if fl["grow"]:
        ev.append("array-grew")
    if fl["shrink"]:
        ev.append("array-shrank")
    if fl["maxlen"] >= 100:
        ev.append("len>=100")
    nt = (fl["grow"] >= 1 and fl["shrink"] >= 1) or len(fl["neg_ops"]) >= 2 or fl["sort_dups"]
    return Result(fail, nt, ev, None)


def SAMPLE(case):
    return {"kind": case["kind"], "et": case["et"], "init": case.get("init"),
            "ops": case["ops"][:14] + (["..."] if len(case["ops"]) > 14 else [])}


KNOWN = []
