"""C04 - Array, List and Tuple behave as sequences."""
from .. import build
from ..core import Result
from . import seqs

ID = "C04"
LEVEL = "exploration"
BUDGET = {"quick": 1600, "thorough": 360000}
RULE = ("case = op list (push/pop/push_at/pop_at/set/get/rem/mem/concat/append/resize/sort/assign/copy, bulk push/pop "
        "runs up to 120 elements) over Array/List of Int|String and heap Tuple of distinct heap objects, indices generated "
        "as in-range positions (positive and negative forms); after every mutation len, forward iteration, get(i) and "
        "get(i-len) for all i are compared with a Python list; sort must give the ordered permutation; rem deletes the first "
        "equal element. non-trivial = (Array) the backing store both grew and shrank (capacity read through the hook), or "
        "negative indices were used on >= 2 different operations, or a sequence with duplicate values was sorted. "
        "distinct = distinct case JSON.")
ASSUMPTIONS = ["Python list is the reference sequence",
               "push_at with a negative index or i == len is not generated (the three containers disagree on it; see DESIGN.md Appendix A)",
               "List grow-resize pads with zero elements: generated for Int lists only; Tuples never hold one pointer twice (C11 known finding)"]


def prepare(tier):
    return {"ex_vm": build.executor("asan", "ex_vm"), "fz_seq": build.executor("fuzz", "fz_seq", extra_ldflags=["-fsanitize=fuzzer"])}


# coverage-guided companion (libFuzzer, ASan): Array<Int> and List<Int> in lock step against a plain C array, every
# op followed by len / get (both index forms) / mem / forward and backward iteration and a generated Slice view
# (harness/fz_seq.c)
FUZZ = [{"target": "fz_seq", "runs": {"quick": 6000, "thorough": 2000000}, "max_len": 200}]


def strategy(tier):
    return seqs.seq_case()


def run_case(ctx, case):
    r = seqs.SeqRun(case)
    r.start()
    for op in case["ops"]:
        r.apply(op)
    r.finish()
    fail, obs = r.P.run(ctx.executor("ex_vm"))
    fl = r.flags
    ev = sorted(r.events) + ["kind=%s<%s>" % (case["kind"], case["et"])]
    if fl["grow"]:
        ev.append("array-grew")
    if fl["shrink"]:
        ev.append("array-shrank")
    if fl["maxlen"] >= 100:
        ev.append("len>=100")
    nt = (fl["grow"] >= 1 and fl["shrink"] >= 1) or len(fl["neg_ops"]) >= 2 or fl["sort_dups"]
    return Result(fail, nt, ev, None)


def SAMPLE(case):
    return {"kind": case["kind"], "et": case["et"], "ops": case["ops"][:14] + (["..."] if len(case["ops"]) > 14 else [])}


KNOWN = []
