"""C11 - iteration agrees with len and get, forwards and backwards, for views too."""
import itertools
from hypothesis import strategies as st
from .. import build, gen
from ..core import Result, HarnessBug
from ..vm import Prog, expect_ok, lit_repr
from . import maps, seqs

ID = "C11"
ALT_BUILD = True          # a quarter of the workers run the gcc -O0 build (core.py)
LEVEL = "exploration"
BUDGET = {"quick": 2500, "thorough": 750000}
RULE = ("case = an iterable expression: base (Array/List/Tuple of Int length 0..12 reached through one of 7 short mutation "
        "histories, Range with 0-3 arguments incl. omitted '_', either sign of step, zero step, empty/inverted intervals, spans "
        "not divisible by the step, values also shifted to 2^31 / 2^32 / 2^40 / 2^59 neighbourhoods; Table/Tree of Int keys "
        "both as bases of views (expected order = the order a direct walk of that Table/Tree shows) and walked directly with "
        "up to 70 keys after set/rem/clear-refill histories; in half of these cases every drawn removal names a key, so that long removal runs take a Table down across its size thresholds) wrapped in up to 3 views: Slice (1-4 arguments, '_', "
        "negative-from-end, beyond both ends, step +-1..+-5), reverse, Zip of 1-4 iterables of unequal length, enumerate, "
        "Filter (all/none/even/odd/m3/pos), Map (dbl/neg/id), a Range or Slice that was assigned from another one; each view "
        "built both with new(...) and with the stack-macro constructors. A third family walks an Array/List/Tuple of "
        "Int|String|Blob|Tri left behind by a whole C04 op sequence (lengths up to several hundred) and 0-2 views over it. "
        "Oracle = Python evaluation of the definitions (DESIGN.md D.6): forward walk == expected items then Terminal, backward "
        "walk == exact reverse, len == count where Len exists, get(i) == i-th item where Get exists; a walk abandoned after k "
        "items (either direction) yields that prefix and the full walks that follow are unaffected; a top-level Map/Filter with "
        "a recording function is only ever applied to items of its underlying iterable (and to each of them), and call(map) "
        "applies it to exactly the underlying items in order; walks are bounded (OVERRUN) and run under ASan. "
        "Both tiers additionally enumerate a small scope exhaustively: every Slice over Array/List/Tuple of length 0..5 with "
        "start/stop in {_, -7..7} and step +-1..+-3, and every Range with start/stop in -5..5 and step -3..3. "
        "non-trivial = a view over a non-empty underlying whose selection is a proper non-empty subset, or a length not "
        "divisible by |step|, or an empty underlying, or nesting depth >= 2. distinct = distinct case JSON.")
ASSUMPTIONS = ["negative-step Range/Slice meaning taken from the implementation's documented examples: window [start, stop) traversed from stop-1 downwards",
               "Tuples never hold one pointer twice (known finding tuple-repeated-pointer, reproduced once per run)",
               "Table iteration order is unspecified: a view over a Table/Tree is compared with its definition applied to the order "
               "that a direct forward walk of the same (unmodified) Table/Tree has just shown",
               "call(map) 'performs the iteration' (Map documentation): the function is applied to each underlying item once, in order",
               "assign(new(Range), r) and assign(new(Slice, x), s) give an iterable equal to the source (tests/test.c)"]

FILTERS = ["all", "none", "even", "odd", "m3", "pos"]
MAPS = ["dbl", "neg", "id"]
RANGE_OFFS = [0, 0, 0, 2**31 - 4, 2**32 - 4, -2**31 - 4, 2**40, -2**59, 2**59]      # 8 * |value| stays below 2^63 (Map dbl, depth 3)
BASES = ("arr", "lst", "tup", "range", "tab", "tre", "hist")


def prepare(tier):
    return {"ex_vm": build.executor("asan", "ex_vm"), "fz_seq": build.executor("fuzz", "fz_seq", extra_ldflags=["-fsanitize=fuzzer"])}


# coverage-guided companion (libFuzzer, ASan): Array<Int>, List<Int> and a heap Tuple of distinct heap Ints in lock step
# against a plain C array (incl. plain sort and push_at with i == len under the admissible-set rule), every op followed
# by len / get (both index forms) / mem / forward and backward iteration, a generated Slice view and, on request,
# Zip(array, list) / Filter / Map views (harness/fz_seq.c)
FUZZ = [{"target": "fz_seq", "runs": {"quick": 6000, "thorough": 2000000}, "max_len": 200}]


# ---- expression generator ---------------------------------------------------------------

def _int_items():
    return st.lists(st.integers(-9, 9), max_size=12)


@st.composite
def _range_base(draw):
    nargs = draw(st.integers(0, 3))
    a = draw(st.one_of(st.integers(-8, 8), st.just("_")))
    b = draw(st.integers(-8, 12))
    c = draw(st.one_of(st.integers(-4, 4), st.just("_"), st.sampled_from([1, -1, 2, 3])))
    return {"k": "range", "nargs": nargs, "a": a, "b": b, "c": c, "alloc": draw(st.sampled_from(["heap", "stack"])),
            "off": draw(st.sampled_from(RANGE_OFFS))}


@st.composite
def _base(draw):
    k = draw(st.sampled_from(["arr", "lst", "tup", "range", "range", "arr", "arr", "lst", "range", "tab", "tre"]))
    if k in ("tab", "tre"):
        return {"k": k, "keys": draw(st.lists(st.integers(-30, 30), max_size=12, unique=True)),
                "rem": draw(st.lists(st.integers(0, 11), max_size=3))}
    if k == "range":
        return draw(_range_base())
    return {"k": k, "items": draw(_int_items()),
            "via": draw(st.sampled_from(["direct", "direct", "popfront", "remfirst", "poptail", "pushfront", "growshrink", "popmid"]))}


def _slice_arg():
    return st.one_of(st.just("_"), st.integers(-15, 15), st.integers(-3, 3))


@st.composite
def _expr(draw, depth):
    if depth == 0:
        return draw(_base())
    k = draw(st.sampled_from(["slice", "slice", "slice", "reverse", "zip", "enum", "filter", "map", "base", "asg"]))
    if k == "base":
        return draw(_base())
    alloc = draw(st.sampled_from(["heap", "stack"]))
    if k == "asg":
        # a Range / Slice that received its value through assign (destination constructed differently first)
        if draw(st.booleans()):
            src = draw(_range_base())
        else:
            n = draw(st.integers(0, 3))
            args = [draw(_slice_arg()) for _ in range(n)]
            if n == 3:
                args[2] = draw(st.sampled_from([1, -1, 2, -2, 3, "_"]))
            src = {"k": "slice", "of": draw(_expr(depth - 1)), "args": args, "alloc": alloc}
        # "drop": the source is deleted right after the assignment - the destination owns its own state
        return {"k": "asg", "of": src, "drop": draw(st.booleans())}
    if k == "slice":
        n = draw(st.integers(0, 3))
        args = [draw(_slice_arg()) for _ in range(n)]
        if n == 3:
            args[2] = draw(st.sampled_from([1, -1, 2, -2, 3, -3, 4, 5, -5, "_"]))
        return {"k": "slice", "of": draw(_expr(depth - 1)), "args": args, "alloc": alloc}
    if k == "reverse":
        return {"k": "slice", "of": draw(_expr(depth - 1)), "args": ["_", "_", -1], "alloc": alloc, "rev": True}
    if k == "zip":
        n = draw(st.integers(1, 4))
        return {"k": "zip", "of": [draw(_expr(depth - 1)) for _ in range(n)], "alloc": alloc}
    if k == "enum":
        return {"k": "enum", "of": draw(_expr(depth - 1)), "alloc": "stack"}
    if k == "filter":
        return {"k": "filter", "of": draw(_expr(depth - 1)), "fn": draw(st.sampled_from(FILTERS)), "alloc": alloc}
    return {"k": "map", "of": draw(_expr(depth - 1)), "fn": draw(st.sampled_from(MAPS)), "alloc": alloc}


@st.composite
def _partial(draw):
    """None, or an abandoned walk (direction, number of items taken) that precedes the full walks"""
    if draw(st.integers(0, 2)) != 0:
        return None
    return [draw(st.sampled_from(["f", "b"])), draw(st.sampled_from([0, 1, 1, 2, 3, 5, 50]))]


@st.composite
def _hist_views(draw, ints):
    out = []
    for _ in range(draw(st.integers(0, 2))):
        k = draw(st.sampled_from(["slice", "slice", "reverse", "enum", "zipr", "filter", "map"]))
        alloc = draw(st.sampled_from(["heap", "stack"]))
        if k in ("filter", "map") and not ints:
            k = "reverse"
        if k == "slice":
            big = st.one_of(st.just("_"), st.integers(-15, 15), st.integers(-400, 400))
            out.append(["slice", [draw(big), draw(big), draw(st.sampled_from([1, -1, 2, -2, 3, -3, 7, -7, 50, "_"]))], alloc])
        elif k == "reverse":
            out.append(["reverse", alloc])
        elif k == "enum":
            out.append(["enum"])
        elif k == "zipr":
            out.append(["zipr", draw(st.sampled_from([0, 1, 3, 10, 1000])), alloc])
        elif k == "filter":
            out.append(["filter", draw(st.sampled_from(["even", "odd", "m3", "pos", "none"])), alloc])
        else:
            out.append(["map", draw(st.sampled_from(MAPS)), alloc])
    return out


@st.composite
def _case(draw):
    which = draw(st.sampled_from(["view", "view", "view", "view", "map", "hist", "hist"]))
    if which == "map":
        kind = draw(st.sampled_from(["Table", "Tree"]))
        ks = draw(st.one_of(st.lists(st.integers(0, 12), min_size=1, max_size=2, unique=True),      # one or two keys: every slot of the smallest table
                            st.lists(st.integers(-30, 30), max_size=12, unique=True),
                            st.lists(st.one_of(st.integers(-100, 100), st.sampled_from([2**31, 2**32, -2**31, 2**40, 997, 1994])), min_size=13, max_size=70, unique=True)))
        return {"fam": "map", "kind": kind, "keys": ks, "rem": draw(st.one_of(st.lists(st.integers(0, 69), max_size=20), st.lists(st.integers(0, 69), max_size=70))), "remwrap": draw(st.booleans()),
                "hist": draw(st.sampled_from(["plain", "plain", "clear-refill", "set-twice"])), "partial": draw(_partial())}
    if which == "hist":
        seq = draw(seqs.seq_case(ext=True, max_ops=25))
        return {"fam": "hist", "seq": seq, "views": draw(_hist_views(seq["et"] == "Int")), "partial": draw(_partial())}
    e = draw(_expr(draw(st.integers(0, 3))))
    rec = draw(st.sampled_from([None, None, None, "recdbl", "recid", "receven"]))
    if rec is not None:
        # a recording function at the top: which items does the view hand to it?
        e = {"k": "filter" if rec == "receven" else "map", "of": e, "fn": rec, "alloc": draw(st.sampled_from(["heap", "stack"]))}
    return {"fam": "view", "e": e, "partial": draw(_partial())}


def strategy(tier):
    return _case()


# ---- reference evaluation (DESIGN.md D.6) -----------------------------------------------

def range_items(a, b, s):
    out = []
    if s > 0:
        i = a
        while i < b:
            out.append(i)
            i += s
    elif s < 0:
        i = b - 1
        while i >= a:
            out.append(i)
            i += s
    return out


def clamp(x, n):
    if x < 0:
        x += n
    return min(max(x, 0), n)


class Node:
    def __init__(self, items, has_len, has_get, ints):
        self.items = items        # list of repr strings
        self.has_len = has_len
        self.has_get = has_get
        self.ints = ints          # integer value per item (first component for tuples) or None
        self.slot = None


class Unsupported(Exception):
    pass


def range_args(e):
    """(start, stop, step) of a range base; the offset shifts start and stop when both are given as numbers"""
    n = e["nargs"]
    off = e.get("off", 0) if (n >= 2 and e["a"] != "_") else 0
    a = 0 if (n < 2 or e["a"] == "_") else e["a"] + off
    b = 0 if n == 0 else e["b"] + off
    c = 1 if (n < 3 or e["c"] == "_") else e["c"]
    return a, b, c


def live_keys(e):
    keys = list(e["keys"])
    for r in e["rem"]:
        if r < len(keys):
            keys[r] = None
    return [k for k in keys if k is not None]


def evaluate(e, env=None):
    """env: id(base dict) -> observed key order of a Table/Tree base; 'hist' -> (items, ints) of the history base.
    Without an observed order the keys are taken in sorted order (lengths and capabilities do not depend on it)."""
    k = e["k"]
    if k in ("arr", "lst", "tup"):
        return Node(["i%d" % v for v in e["items"]], True, True, list(e["items"]))
    if k in ("tab", "tre"):
        order = (env or {}).get(id(e))
        if order is None:
            order = sorted(live_keys(e))
        # get(table, i) looks a key up, it is not positional: no Get in the sense of the property
        return Node(["i%d" % v for v in order], True, False, list(order))
    if k == "hist":
        items, ints = env["hist"]
        return Node(list(items), True, True, None if ints is None else list(ints))
    if k == "range":
        a, b, c = range_args(e)
        vals = range_items(a, b, c)
        return Node(["i%d" % v for v in vals], True, True, vals)
    if k == "asg":
        return evaluate(e["of"], env)
    if k == "slice":
        u = evaluate(e["of"], env)
        if not u.has_len:
            raise Unsupported("slice needs len")
        n = len(u.items)
        args = e["args"]
        start, stop, step = 0, n, 1
        if len(args) == 1:
            stop = n if args[0] == "_" else clamp(args[0], n)
        elif len(args) >= 2:
            start = 0 if args[0] == "_" else clamp(args[0], n)
            stop = n if args[1] == "_" else clamp(args[1], n)
            if len(args) == 3:
                step = 1 if args[2] == "_" else args[2]
        idx = range_items(start, stop, step)
        return Node([u.items[i] for i in idx], True, u.has_get, None if u.ints is None else [u.ints[i] for i in idx])
    if k == "zip":
        us = [evaluate(x, env) for x in e["of"]]
        for x, u in zip(e["of"], us):
            # Map/Zip/Slice advertise Len but delegate it to their input: over a Filter it raises ClassError,
            # so a Zip cannot learn that input's length; such compositions are skipped (counted as unsupported)
            if not u.has_len and x["k"] in ("map", "zip", "enum", "slice"):
                raise Unsupported("zip input claims Len but cannot provide it")
        m = min(len(u.items) for u in us)
        items = ["U[%s]" % ",".join(u.items[i] for u in us) for i in range(m)]
        return Node(items, all(u.has_len for u in us), all(u.has_get for u in us),
                    None if us[0].ints is None else [us[0].ints[i] for i in range(m)])
    if k == "enum":
        u = evaluate(e["of"], env)
        if not u.has_len:
            raise Unsupported("enumerate needs len")
        items = ["U[i%d,%s]" % (i, x) for i, x in enumerate(u.items)]
        return Node(items, True, u.has_get, list(range(len(u.items))))
    if k == "filter":
        u = evaluate(e["of"], env)
        if u.ints is None:
            raise Unsupported("filter over non-integer items")
        pred = {"all": lambda v: True, "none": lambda v: False, "even": lambda v: v % 2 == 0, "odd": lambda v: v % 2 != 0,
                "m3": lambda v: _cmod(v, 3) == 0, "pos": lambda v: v > 0, "receven": lambda v: v % 2 == 0}[e["fn"]]
        keep = [i for i, v in enumerate(u.ints) if pred(v)]
        return Node([u.items[i] for i in keep], False, False, [u.ints[i] for i in keep])
    if k == "map":
        u = evaluate(e["of"], env)
        if u.ints is None and e["fn"] not in ("id",):
            raise Unsupported("map over non-integer items")
        f = {"dbl": lambda v: 2 * v, "neg": lambda v: -v, "id": None, "recdbl": lambda v: 2 * v, "recid": None}[e["fn"]]
        if f is None:
            return Node(list(u.items), u.has_len, u.has_get, None if u.ints is None else list(u.ints))
        vals = [f(v) for v in u.ints]
        return Node(["i%d" % v for v in vals], u.has_len, u.has_get, vals)
    raise HarnessBug(k)


def _cmod(a, m):
    """C remainder (sign of the dividend)"""
    r = abs(a) % m
    return -r if a < 0 else r


def depth_of(e):
    k = e["k"]
    if k in BASES:
        return 0
    if k == "zip":
        return 1 + max(depth_of(x) for x in e["of"])
    return 1 + depth_of(e["of"])


def nontrivial(e):
    k = e["k"]
    if depth_of(e) >= 2:
        return True
    if k == "range":
        n = e["nargs"]
        if n == 3 and e["c"] not in ("_", 0, 1, -1):
            a = 0 if e["a"] == "_" else e["a"]
            return (e["b"] - a) % abs(e["c"]) != 0
        return len(evaluate(e).items) == 0
    if k in ("arr", "lst", "tup"):
        return len(e["items"]) == 0
    if k in ("tab", "tre"):
        return len(live_keys(e)) == 0
    if k == "asg":
        return nontrivial(e["of"])
    try:
        me = evaluate(e)
        subs = [evaluate(x) for x in (e["of"] if k == "zip" else [e["of"]])]
    except Unsupported:
        return False
    if any(len(u.items) == 0 for u in subs):
        return True
    if k in ("slice", "filter"):
        return 0 < len(me.items) < len(subs[0].items)
    if k == "zip":
        return len(set(len(u.items) for u in subs)) > 1
    return False


# ---- program ----------------------------------------------------------------------------

class Builder:
    def __init__(self, P, limit=250, hist_slot=None):
        self.P = P
        self.next = 10
        self.limit = limit
        self.hist_slot = hist_slot     # slot of the container a C04 history left behind (base kind "hist")
        self.mapbases = []             # (slot, base dict) of Table / Tree bases: their order has to be observed first

    def slot(self):
        self.next += 1
        if self.next > self.limit:
            raise Unsupported("too many objects")
        return self.next

    def build(self, e):
        """emit construction ops; returns slot number"""
        P = self.P
        k = e["k"]
        if k == "hist":
            return self.hist_slot
        s = self.slot()
        if k in ("tab", "tre"):
            P.add("new %%%d heap t:%s t:Int t:Int" % (s, "Table" if k == "tab" else "Tree"))
            keys = list(e["keys"])
            for key in keys:
                P.add("set %%%d i:%d i:%d" % (s, key, 2 * key))
            for r in e["rem"]:
                if r < len(keys) and keys[r] is not None:
                    P.add("rem %%%d i:%d" % (s, keys[r]))
                    keys[r] = None
            self.mapbases.append((s, e))
        elif k == "asg":
            u = self.build(e["of"])
            if e["of"]["k"] == "range":
                P.add("new %%%d heap t:Range i:3 i:-7 i:2" % s)
            else:
                x = self.slot()
                P.add("new %%%d heap t:Array t:Int i:1 i:2 i:3 i:4 i:5" % x)
                P.add("new %%%d heap t:Slice %%%d i:1 i:4 i:2" % (s, x))
            P.add("assign %%%d %%%d" % (s, u), lambda o: None if o.startswith("ok") else "assign failed: " + o)
            if e.get("drop") and e["of"].get("alloc") == "heap":
                P.add("del %%%d" % u)
        elif k in ("arr", "lst", "tup"):
            # the same final contents reached through different mutation histories (unlink of head/tail/middle,
            # insertion at the front, growth and shrink of the backing store) - the cursors must not care
            via = e.get("via", "direct")
            items = list(e["items"])
            X = 424242
            pre, post = list(items), []
            if via == "popfront":
                pre = [X] + items
                post = [("pop_at", 0)]
            elif via == "remfirst":
                pre = [X] + items
                post = [("rem", X)]
            elif via == "poptail":
                pre = items + [X]
                post = [("pop", None)]
            elif via == "pushfront" and len(items) >= 2:
                pre = items[1:]
                post = [("push_at0", items[0])]
            elif via == "popmid" and len(items) >= 2:
                m = len(items) // 2
                pre = items[:m] + [X] + items[m:]
                post = [("pop_at", m)]
            elif via == "growshrink":
                post = [("push", X)] * 9 + [("pop", None)] * 9
            if k == "arr":
                P.add("new %%%d heap t:Array t:Int %s" % (s, " ".join("i:%d" % v for v in pre)))
            elif k == "lst":
                P.add("new %%%d heap t:List t:Int %s" % (s, " ".join("i:%d" % v for v in pre)))
            else:
                refs = []
                for v in pre:
                    t = self.slot()
                    P.add("new %%%d heap t:Int i:%d" % (t, v))
                    refs.append("%%%d" % t)
                P.add("new %%%d heap t:Tuple %s" % (s, " ".join(refs)))
            for (op, a) in post:
                if op == "pop_at":
                    P.add("pop_at %%%d i:%d" % (s, a))
                elif op == "rem":
                    P.add("rem %%%d i:%d" % (s, a))
                elif op == "pop":
                    P.add("pop %%%d" % s)
                elif op in ("push", "push_at0"):
                    arg = "i:%d" % a
                    if k == "tup":
                        t = self.slot()
                        P.add("new %%%d heap t:Int i:%d" % (t, a))
                        arg = "%%%d" % t
                    if op == "push":
                        P.add("push %%%d %s" % (s, arg))
                    else:
                        P.add("push_at %%%d %s i:0" % (s, arg))
        elif k == "range":
            args = []
            n = e["nargs"]
            a, b, c = range_args(e)
            if n == 1:
                args = ["i:%d" % b]
            elif n == 2:
                args = ["_" if e["a"] == "_" else "i:%d" % a, "i:%d" % b]
            elif n == 3:
                args = ["_" if e["a"] == "_" else "i:%d" % a, "i:%d" % b, "_" if e["c"] == "_" else "i:%d" % c]
            if e["alloc"] == "heap":
                P.add("new %%%d heap t:Range %s" % (s, " ".join(args)))
            else:
                P.add("stk %%%d range %s" % (s, " ".join(args)))
        elif k == "slice":
            u = self.build(e["of"])
            args = " ".join("_" if a == "_" else "i:%d" % a for a in e["args"])
            if e["alloc"] == "heap":
                P.add("new %%%d heap t:Slice %%%d %s" % (s, u, args))
            else:
                P.add("stk %%%d slice %%%d %s" % (s, u, args))
        elif k == "zip":
            us = [self.build(x) for x in e["of"]]
            args = " ".join("%%%d" % u for u in us)
            if e["alloc"] == "heap":
                P.add("new %%%d heap t:Zip %s" % (s, args))
            else:
                P.add("stk %%%d zip %s" % (s, args))
        elif k == "enum":
            u = self.build(e["of"])
            P.add("stk %%%d enum %%%d" % (s, u))
        elif k == "filter":
            u = self.build(e["of"])
            if e["alloc"] == "heap":
                P.add("new %%%d heap t:Filter %%%d fn:%s" % (s, u, e["fn"]))
            else:
                P.add("stk %%%d filter %%%d fn:%s" % (s, u, e["fn"]))
        elif k == "map":
            u = self.build(e["of"])
            if e["alloc"] == "heap":
                P.add("new %%%d heap t:Map %%%d fn:%s" % (s, u, e["fn"]))
            else:
                P.add("stk %%%d map %%%d fn:%s" % (s, u, e["fn"]))
        else:
            raise HarnessBug(k)
        return s


def add_walks(P, s, node, node_fn=None, partial=None):
    """node: the expected items (lengths and capabilities are final; the item order is final unless node_fn is given).
    node_fn: called when the answers are checked - for views over a Table/Tree, whose order is only known by then.
    partial: [direction, k] - a walk abandoned after k items comes first."""
    bound = 2 * len(node.items) + 4
    if node_fn is None:
        def want(render, node=node):
            return expect_ok(render(node))
    else:
        def want(render):
            return lambda o: expect_ok(render(node_fn()))(o)
    if partial is not None:
        d, k = partial
        if d == "f":
            P.add("fwdk %%%d %d" % (s, k), want(lambda nd: "[%s]" % ",".join(nd.items[:k])))
        else:
            P.add("bwdk %%%d %d" % (s, k), want(lambda nd: "[%s]" % ",".join(list(reversed(nd.items))[:k])))
    P.add("fwd %%%d %d" % (s, bound), want(lambda nd: "[%s]" % ",".join(nd.items)))
    P.add("bwd %%%d %d" % (s, bound), want(lambda nd: "[%s]" % ",".join(reversed(nd.items))))
    if node.has_len:
        P.add("len %%%d" % s, expect_ok(str(len(node.items))))
        if node.has_get:
            P.add("getsp %%%d" % s, want(lambda nd: ",".join(nd.items)))
    P.add("fwd %%%d %d" % (s, bound), want(lambda nd: "[%s]" % ",".join(nd.items)))      # a second walk must give the same


def observe_mapbases(P, b, env):
    """a direct forward walk of every Table / Tree base: checks that it shows exactly the live keys and records their order"""
    for (slot, base) in b.mapbases:
        live = live_keys(base)

        def chk(o, base=base, live=live):
            if not (o.startswith("ok [") and o.endswith("]")):
                return "walk failed " + o
            got = o[4:-1].split(",") if o[4:-1] else []
            if sorted(got) != sorted("i%d" % k for k in live):
                return "direct walk yields %s, expected the keys %s in some order" % (got, live)
            env[id(base)] = [int(x[1:]) for x in got]
            return None
        P.add("fwd %%%d %d" % (slot, 2 * len(live) + 4), chk)


def add_recording(P, s, e, env, lazy):
    """top-level Map / Filter with a recording function: the items the view hands to its function"""
    if e["k"] not in ("map", "filter") or not e["fn"].startswith("rec"):
        return
    n0 = evaluate(e["of"], env)
    if n0.ints is None:
        return
    bound = 2 * len(n0.items) + 4

    def under():
        return evaluate(e["of"], env).ints

    def chk_walk(o):
        if not (o.startswith("ok [") and o.endswith("]")):
            return "reclog failed " + o
        got = [int(x[1:]) for x in o[4:-1].split(",")] if o[4:-1] else []
        u = under()
        if not set(got) <= set(u):
            return "the view applied its function to %s: not items of its underlying iterable %s" % (sorted(set(got) - set(u)), u)
        if not set(u) <= set(got):
            return "a full forward walk never applied the function to the underlying items %s" % sorted(set(u) - set(got))
        return None

    def chk_call(o):
        want = "ok [%s]" % ",".join("i%d" % v for v in under())
        return None if o == want else "call(map) applied the function to %s, expected exactly the underlying items %s" % (o, want)
    P.add("reclog", lambda o: None)
    P.add("fwd %%%d %d" % (s, bound), lambda o: None if o.startswith("ok") else "walk failed " + o)
    P.add("reclog", chk_walk)
    if e["k"] == "map":
        P.add("mapcall %%%d" % s)
        P.add("reclog", chk_call)


def view_prog(e, partial=None):
    P = Prog()
    b = Builder(P)
    node = evaluate(e)
    s = b.build(e)
    env = {}
    if b.mapbases:
        observe_mapbases(P, b, env)
        add_walks(P, s, node, node_fn=lambda: evaluate(e, env), partial=partial)
    else:
        add_walks(P, s, node, partial=partial)
    add_recording(P, s, e, env, bool(b.mapbases))
    return P


def run_view(ctx, e, partial=None):
    try:
        P = view_prog(e, partial)
    except Unsupported:
        return None, False
    fail, obs = P.run(ctx.executor("ex_vm"))
    return fail, True


def run_case(ctx, case):
    if case["fam"] == "map":
        P = Prog()
        kind = case["kind"]
        P.add("new %%0 heap t:%s t:Int t:Int" % kind)
        keys = list(case["keys"])
        hist = case.get("hist", "plain")
        if hist == "clear-refill":
            for k in keys:
                P.add("set %%0 i:%d i:%d" % (k, k * 3))
            P.add("resize %0 0")
        elif hist == "set-twice":
            for k in keys:
                P.add("set %%0 i:%d i:%d" % (k, k * 3))
        for k in keys:
            P.add("set %%0 i:%d i:%d" % (k, k * 2))
        for r in case["rem"]:
            if case.get("remwrap") and keys:
                r %= len(keys)         # every drawn removal names a key: long removal runs take a Table down across its size thresholds
            if r < len(keys) and keys[r] is not None:
                P.add("rem %%0 i:%d" % keys[r])
                keys[r] = None
        live = [k for k in keys if k is not None]
        st_ = {}

        def chk_f(o):
            if not o.startswith("ok {"):
                return "walk failed " + o
            pairs = maps.parse_pairs(o[4:-1])
            st_["fwd"] = [k for k, _ in pairs]
            if sorted(pairs) != sorted(("i%d" % k, "i%d" % (2 * k)) for k in live):
                return "forward walk yields %s, expected the bindings of %s" % (pairs, live)
            return None

        def chk_b(o):
            if not o.startswith("ok ["):
                return "backward walk failed " + o
            ks = o[4:-1].split(",") if o[4:-1] else []
            return None if ks == list(reversed(st_.get("fwd", []))) else "backward walk %s is not the reverse of forward %s" % (ks, st_.get("fwd"))
        part = case.get("partial")
        if part is not None:
            # an abandoned walk first: at most k keys, all of them live and distinct
            def chk_p(o, k=part[1]):
                if not (o.startswith("ok [") and o.endswith("]")):
                    return "abandoned walk failed " + o
                ks = o[4:-1].split(",") if o[4:-1] else []
                if len(ks) != min(k, len(live)) or len(set(ks)) != len(ks) or not set(ks) <= set("i%d" % x for x in live):
                    return "abandoned walk of %d items over the keys %s yields %s" % (k, live, ks)
                return None
            P.add("%s %%0 %d" % ("fwdk" if part[0] == "f" else "bwdk", part[1]), chk_p)
        P.add("fwdkv %0", chk_f)
        P.add("bwd %0", chk_b)
        P.add("len %0", expect_ok(str(len(live))))
        fail, obs = P.run(ctx.executor("ex_vm"))
        ev = ["base=" + kind, "map-history=" + hist]
        if len(live) > 12:
            ev.append("map-keys>12")
        if len(keys) >= 9 and len(live) * 2 <= len(keys):
            ev.append("map-shrunk-to-half-or-less")
        if part is not None:
            ev.append("abandoned-walk")
        return Result(fail, len(live) == 0 or len(case["rem"]) > 0, ev, None)
    if case["fam"] == "hist":
        return run_hist(ctx, case)
    e = case["e"]
    part = case.get("partial")
    fail, ran = run_view(ctx, e, part)
    if not ran:
        return Result(None, False, ["unsupported-composition"], None)
    ev = ["top=" + e["k"], "depth=%d" % depth_of(e)] + sorted(features(e))
    if part is not None:
        ev.append("abandoned-walk")
    return Result(fail, nontrivial(e), ev, None)


def features(e, out=None):
    """event labels for the input classes added later (Table/Tree bases, shifted Ranges, assigned views, recording)"""
    out = set() if out is None else out
    k = e["k"]
    if k in ("tab", "tre"):
        out.add("view-over-" + ("Table" if k == "tab" else "Tree"))
    elif k == "range":
        if range_args(e)[0] != (0 if (e["nargs"] < 2 or e["a"] == "_") else e["a"]):
            out.add("range-shifted")
    elif k == "asg":
        out.add("assigned-" + e["of"]["k"])
        features(e["of"], out)
    elif k == "zip":
        for x in e["of"]:
            features(x, out)
    elif k not in BASES:
        if e.get("fn", "").startswith("rec"):
            out.add("recording-" + k)
        features(e["of"], out)
    return out


def hist_expr(views, big=False):
    """big: some element is too large to be doubled / negated in int64 - Map then uses the identity"""
    e = {"k": "hist"}
    for v in views:
        if v[0] == "slice":
            e = {"k": "slice", "of": e, "args": list(v[1]), "alloc": v[2]}
        elif v[0] == "reverse":
            e = {"k": "slice", "of": e, "args": ["_", "_", -1], "alloc": v[1], "rev": True}
        elif v[0] == "enum":
            e = {"k": "enum", "of": e, "alloc": "stack"}
        elif v[0] == "zipr":
            e = {"k": "zip", "of": [e, {"k": "range", "nargs": 1, "a": "_", "b": v[1], "c": "_", "alloc": "heap"}], "alloc": v[2]}
        elif v[0] == "filter":
            e = {"k": "filter", "of": e, "fn": v[1], "alloc": v[2]}
        elif v[0] == "map":
            e = {"k": "map", "of": e, "fn": "id" if big else v[1], "alloc": v[2]}
        else:
            raise HarnessBug(v[0])
    return e


def run_hist(ctx, case):
    """the container a whole C04 op sequence leaves behind (no model comparison on the way: that is C04's), walked
    directly and through 0-2 views"""
    seq = case["seq"]
    P = Prog()
    r = seqs.SeqRun(seq, slot=0, prog=P, check_every=False)
    r.start()
    for op in seq["ops"]:
        r.apply(op)
    items = [lit_repr(v) for v in r.model]
    ints = [int(v[2:]) for v in r.model] if seq["et"] == "Int" else None
    env = {"hist": (items, ints)}
    ev = ["hist=%s<%s>" % (seq["kind"], seq["et"]), "hist-len=%s" % ("0" if not items else "1-12" if len(items) <= 12 else "13-99" if len(items) < 100 else ">=100")]
    part = case.get("partial")
    if part is not None:
        ev.append("abandoned-walk")
    base = {"k": "hist"}
    add_walks(P, r.cur, evaluate(base, env), partial=part)
    e = hist_expr(case["views"], big=ints is not None and any(abs(v) > 2**59 for v in ints))
    if e["k"] != "hist":
        try:
            node = evaluate(e, env)
            b = Builder(P, limit=95, hist_slot=r.cur)
            s = b.build(e)
            add_walks(P, s, node, partial=part)
            ev.append("hist-top=" + e["k"])
        except Unsupported:
            ev.append("unsupported-composition")
    fail, obs = P.run(ctx.executor("ex_vm"))
    return Result(fail, len(items) > 0, ev, None)


# ---- exhaustive small scope -------------------------------------------------------------

def extra_phase(ctx, tier, stats, sample_fn):
    fails = []
    n = 0
    lens = range(0, 6)
    argv = ["_"] + list(range(-7, 8))
    steps = [1, -1, 2, -2, 3, -3]
    ex = ctx.executor("ex_vm")
    for kind in ("arr", "lst", "tup"):
        for L in lens:
            base = {"k": kind, "items": list(range(10, 10 + L))}
            # all slices of one base go into one program (one executor round trip)
            P = Prog()
            b = Builder(P)
            bs = b.build(base)
            cases = []
            for a in argv:
                for bb in argv:
                    for stp in steps:
                        e = {"k": "slice", "of": base, "args": [a, bb, stp], "alloc": "heap"}
                        node = evaluate(e)
                        s = 5
                        start = len(P.lines)
                        P.add("new %%5 heap t:Slice %%%d %s" % (bs, " ".join("_" if x == "_" else "i:%d" % x for x in [a, bb, stp])))
                        add_walks(P, s, node)
                        cases.append((start, len(P.lines), e))
                        n += 1
            fail, obs = P.run(ex)
            if fail:
                # find the failing slice and report it as its own case
                import re
                m = re.match(r"(?:op|executor died at op) (\d+)", fail)
                at = int(m.group(1)) if m else 0
                for (lo, hi, e) in cases:
                    if lo <= at < hi:
                        fails.append(({"fam": "view", "e": e}, fail))
                        break
                else:
                    fails.append(({"fam": "view", "e": cases[0][2]}, fail))
            for (lo, hi, e) in cases[:: max(1, len(cases) // 40)]:
                stats.add({"fam": "view", "e": e}, Result(None, nontrivial(e), ["small-scope-slice"]), sample_fn)
            stats.evals += len(cases) - len(cases[:: max(1, len(cases) // 40)])
    nr = 0
    P = Prog()
    cases = []
    for a in range(-5, 6):
        for bb in range(-5, 6):
            for c in range(-3, 4):
                e = {"k": "range", "nargs": 3, "a": a, "b": bb, "c": c, "alloc": "heap"}
                node = evaluate(e)
                start = len(P.lines)
                P.add("new %%5 heap t:Range i:%d i:%d i:%d" % (a, bb, c))
                add_walks(P, 5, node)
                cases.append((start, len(P.lines), e))
                nr += 1
    fail, obs = P.run(ex)
    if fail:
        import re
        m = re.match(r"(?:op|executor died at op) (\d+)", fail)
        at = int(m.group(1)) if m else 0
        for (lo, hi, e) in cases:
            if lo <= at < hi:
                fails.append(({"fam": "view", "e": e}, fail))
                break
    for (lo, hi, e) in cases[::40]:
        stats.add({"fam": "view", "e": e}, Result(None, nontrivial(e), ["small-scope-range"]), sample_fn)
    stats.evals += nr - len(cases[::40])
    # every Table / Tree holding one key of 0..12 or two keys of 0..6 (each slot of the smallest table alone and in
    # pairs, both insertion orders), also after a removal that leaves one key: walked directly in both directions
    nm = 0
    small = [[a] for a in range(13)] + [[a, b] for a in range(7) for b in range(7) if a != b]
    for kind in ("Table", "Tree"):
        for ks in small:
            for rem in ([], [0]) if len(ks) == 2 else ([],):
                case = {"fam": "map", "kind": kind, "keys": ks, "rem": rem, "hist": "plain", "partial": None}
                res = _orig_run_case(ctx, case)
                nm += 1
                if res.fail:
                    fails.append((case, res.fail))
                if nm % 9 == 0:
                    stats.add(case, Result(None, True, ["small-scope-map"]), sample_fn)
                else:
                    stats.evals += 1
    # every Zip of two inputs (and enumerate of one) drawn from a small set of sources of different lengths, with and
    # without Len / Get, cursors kept inside the object (Range, Slice) or not: forward, backward, len, get
    def rng(n):
        return {"k": "range", "nargs": 1, "a": 0, "b": n, "c": 1, "alloc": "heap", "off": 0}

    def arr(n, k="arr"):
        return {"k": k, "items": list(range(20, 20 + n)), "via": "direct"}
    srcs = [arr(0), arr(2), arr(5, "lst"), arr(3, "tup"), rng(0), rng(3), rng(10),
            {"k": "filter", "of": rng(10), "fn": "even", "alloc": "heap"},
            {"k": "filter", "of": rng(4), "fn": "none", "alloc": "heap"},
            {"k": "filter", "of": arr(5), "fn": "odd", "alloc": "stack"},
            {"k": "filter", "of": {"k": "slice", "of": arr(5), "args": [1], "alloc": "heap"}, "fn": "all", "alloc": "heap"},
            {"k": "map", "of": rng(4), "fn": "dbl", "alloc": "heap"},
            {"k": "slice", "of": rng(7), "args": [1, 6, 2], "alloc": "heap"},
            {"k": "slice", "of": arr(5), "args": ["_", "_", -1], "alloc": "heap"}]
    nz = 0
    import copy as _copy
    for i, a_ in enumerate(srcs):
        for j, b_ in enumerate(srcs):
            e = {"k": "zip", "of": [_copy.deepcopy(a_), _copy.deepcopy(b_)], "alloc": "heap" if (i + j) % 2 else "stack"}
            case = {"fam": "view", "e": e, "partial": None}
            try:
                res = _orig_run_case(ctx, case)
            except Unsupported:
                continue
            nz += 1
            if "unsupported" in " ".join(res.events):
                continue
            if res.fail:
                fails.append((case, res.fail))
            if nz % 12 == 0:
                stats.add(case, Result(None, True, ["small-scope-zip"]), sample_fn)
            else:
                stats.evals += 1
    return {"fails": fails, "extra": {"small_scope_slices": n, "small_scope_ranges": nr, "small_scope_maps": nm, "small_scope_zips": nz,
                                      "small_scope_exhaustive": True}}


# Known finding: a Tuple holding the same pointer twice never terminates (cursor found by pointer identity).
KNOWN = [{"key": "tuple-repeated-pointer",
          "what": "Tuple iteration finds the cursor by pointer identity; a tuple holding one pointer twice walks a,b,a,b,... forever",
          "case": {"fam": "tupdup"}}]

_orig_run_case = run_case


def run_case(ctx, case):          # noqa: F811  (wrap to add the bounded reproduction)
    if case.get("fam") == "tupdup":
        P = Prog()
        P.add("new %1 heap t:Int i:1")
        P.add("new %2 heap t:Int i:2")
        P.add("new %0 heap t:Tuple %1 %2 %1 %2")
        P.add("fwd %0", expect_ok("[i1,i2,i1,i2]"))
        fail, obs = P.run(ctx.executor("ex_vm"))
        return Result(fail, True, ["tuple-repeated-pointer"], None)
    return _orig_run_case(ctx, case)
