"""C11 - iteration agrees with len and get, forwards and backwards, for views too."""
import itertools
from hypothesis import strategies as st
from .. import build, gen
from ..core import Result, HarnessBug
from ..vm import Prog, expect_ok, lit_repr
from . import maps

ID = "C11"
LEVEL = "exploration"
BUDGET = {"quick": 2500, "thorough": 750000}
RULE = ("case = an iterable expression: base (Array/List/Tuple of Int|String length 0..12, Range with 0-3 arguments incl. "
        "omitted '_', either sign of step, zero step, empty/inverted intervals, spans not divisible by the step; Table/Tree "
        "walked directly) wrapped in up to 3 views: Slice (1-4 arguments, '_', negative-from-end, beyond both ends, step "
        "+-1..+-5), reverse, Zip of 1-4 iterables of unequal length, enumerate, Filter (all/none/even/odd/m3/pos), Map "
        "(dbl/neg/id); each view built both with new(...) and with the stack-macro constructors. Oracle = Python evaluation "
        "of the definitions (DESIGN.md D.6): forward walk == expected items then Terminal, backward walk == exact reverse, "
        "len == count where Len exists, get(i) == i-th item where Get exists; walks are bounded (OVERRUN) and run under ASan. "
        "Both tiers additionally enumerate a small scope exhaustively: every Slice over Array/List/Tuple of length 0..5 with "
        "start/stop in {_, -7..7} and step +-1..+-3, and every Range with start/stop in -5..5 and step -3..3. "
        "non-trivial = a view over a non-empty underlying whose selection is a proper non-empty subset, or a length not "
        "divisible by |step|, or an empty underlying, or nesting depth >= 2. distinct = distinct case JSON.")
ASSUMPTIONS = ["negative-step Range/Slice meaning taken from the implementation's documented examples: window [start, stop) traversed from stop-1 downwards",
               "Tuples never hold one pointer twice (known finding tuple-repeated-pointer, reproduced once per run)",
               "views over Table are not nested (iteration order is unspecified); Table/Tree are walked directly"]

FILTERS = ["all", "none", "even", "odd", "m3", "pos"]
MAPS = ["dbl", "neg", "id"]


def prepare(tier):
    return {"ex_vm": build.executor("asan", "ex_vm"), "fz_seq": build.executor("fuzz", "fz_seq", extra_ldflags=["-fsanitize=fuzzer"])}


# coverage-guided companion (libFuzzer, ASan): Array<Int> and List<Int> in lock step against a plain C array, every
# op followed by len / get (both index forms) / mem / forward and backward iteration and a generated Slice view
# (harness/fz_seq.c)
FUZZ = [{"target": "fz_seq", "runs": {"quick": 6000, "thorough": 2000000}, "max_len": 200}]


# ---- expression generator ---------------------------------------------------------------

def _int_items():
    return st.lists(st.integers(-9, 9), max_size=12)


@st.composite
def _base(draw):
    k = draw(st.sampled_from(["arr", "lst", "tup", "range", "range", "arr"]))
    if k == "range":
        nargs = draw(st.integers(0, 3))
        a = draw(st.one_of(st.integers(-8, 8), st.just("_")))
        b = draw(st.integers(-8, 12))
        c = draw(st.one_of(st.integers(-4, 4), st.just("_"), st.sampled_from([1, -1, 2, 3])))
        return {"k": "range", "nargs": nargs, "a": a, "b": b, "c": c, "alloc": draw(st.sampled_from(["heap", "stack"]))}
    return {"k": k, "items": draw(_int_items()),
            "via": draw(st.sampled_from(["direct", "direct", "popfront", "remfirst", "poptail", "pushfront", "growshrink", "popmid"]))}


def _slice_arg():
    return st.one_of(st.just("_"), st.integers(-15, 15), st.integers(-3, 3))


@st.composite
def _expr(draw, depth):
    if depth == 0:
        return draw(_base())
    k = draw(st.sampled_from(["slice", "slice", "slice", "reverse", "zip", "enum", "filter", "map", "base"]))
    if k == "base":
        return draw(_base())
    alloc = draw(st.sampled_from(["heap", "stack"]))
    if k == "slice":
        n = draw(st.integers(0, 3))
        args = [draw(_slice_arg()) for _ in range(n)]
        if n == 3:
            args[2] = draw(st.sampled_from([1, -1, 2, -2, 3, -3, 4, 5, -5, "_"]))
        return {"k": "slice", "of": draw(_expr(depth - 1)), "args": args, "alloc": alloc}
    if k == "reverse":
        return {"k": "slice", "of": draw(_expr(depth - 1)), "args": ["_", "_", -1], "alloc": alloc, "rev": True}
    if k == "zip":
        n = draw(st.integers(1, 4))
        return {"k": "zip", "of": [draw(_expr(depth - 1)) for _ in range(n)], "alloc": alloc}
    if k == "enum":
        return {"k": "enum", "of": draw(_expr(depth - 1)), "alloc": "stack"}
    if k == "filter":
        return {"k": "filter", "of": draw(_expr(depth - 1)), "fn": draw(st.sampled_from(FILTERS)), "alloc": alloc}
    return {"k": "map", "of": draw(_expr(depth - 1)), "fn": draw(st.sampled_from(MAPS)), "alloc": alloc}


@st.composite
def _case(draw):
    which = draw(st.sampled_from(["view", "view", "view", "view", "map"]))
    if which == "map":
        kind = draw(st.sampled_from(["Table", "Tree"]))
        ks = draw(st.lists(st.integers(-30, 30), max_size=12, unique=True))
        return {"fam": "map", "kind": kind, "keys": ks, "rem": draw(st.lists(st.integers(0, 11), max_size=4))}
    return {"fam": "view", "e": draw(_expr(draw(st.integers(0, 3))))}


def strategy(tier):
    return _case()


# ---- reference evaluation (DESIGN.md D.6) -----------------------------------------------

def range_items(a, b, s):
    out = []
    if s > 0:
        i = a
        while i < b:
            out.append(i)
            i += s
    elif s < 0:
        i = b - 1
        while i >= a:
            out.append(i)
            i += s
    return out


def clamp(x, n):
    if x < 0:
        x += n
    return min(max(x, 0), n)


class Node:
    def __init__(self, items, has_len, has_get, ints):
        self.items = items        # list of repr strings
        self.has_len = has_len
        self.has_get = has_get
        self.ints = ints          # integer value per item (first component for tuples) or None
        self.slot = None


class Unsupported(Exception):
    pass


def evaluate(e):
    k = e["k"]
    if k in ("arr", "lst", "tup"):
        return Node(["i%d" % v for v in e["items"]], True, True, list(e["items"]))
    if k == "range":
        n = e["nargs"]
        a = 0 if (n < 2 or e["a"] == "_") else e["a"]
        b = 0 if n == 0 else e["b"]
        c = 1 if (n < 3 or e["c"] == "_") else e["c"]
        vals = range_items(a, b, c)
        return Node(["i%d" % v for v in vals], True, True, vals)
    if k == "slice":
        u = evaluate(e["of"])
        if not u.has_len:
            raise Unsupported("slice needs len")
        n = len(u.items)
        args = e["args"]
        start, stop, step = 0, n, 1
        if len(args) == 1:
            stop = n if args[0] == "_" else clamp(args[0], n)
        elif len(args) >= 2:
            start = 0 if args[0] == "_" else clamp(args[0], n)
            stop = n if args[1] == "_" else clamp(args[1], n)
            if len(args) == 3:
                step = 1 if args[2] == "_" else args[2]
        idx = range_items(start, stop, step)
        return Node([u.items[i] for i in idx], True, u.has_get, [u.ints[i] for i in idx])
    if k == "zip":
        us = [evaluate(x) for x in e["of"]]
        for x, u in zip(e["of"], us):
            # Map/Zip/Slice advertise Len but delegate it to their input: over a Filter it raises ClassError,
            # so a Zip cannot learn that input's length; such compositions are skipped (counted as unsupported)
            if not u.has_len and x["k"] in ("map", "zip", "enum", "slice"):
                raise Unsupported("zip input claims Len but cannot provide it")
        m = min(len(u.items) for u in us)
        items = ["U[%s]" % ",".join(u.items[i] for u in us) for i in range(m)]
        return Node(items, all(u.has_len for u in us), all(u.has_get for u in us), [us[0].ints[i] for i in range(m)])
    if k == "enum":
        u = evaluate(e["of"])
        if not u.has_len:
            raise Unsupported("enumerate needs len")
        items = ["U[i%d,%s]" % (i, x) for i, x in enumerate(u.items)]
        return Node(items, True, u.has_get, list(range(len(u.items))))
    if k == "filter":
        u = evaluate(e["of"])
        pred = {"all": lambda v: True, "none": lambda v: False, "even": lambda v: v % 2 == 0, "odd": lambda v: v % 2 != 0,
                "m3": lambda v: _cmod(v, 3) == 0, "pos": lambda v: v > 0}[e["fn"]]
        keep = [i for i, v in enumerate(u.ints) if pred(v)]
        return Node([u.items[i] for i in keep], False, False, [u.ints[i] for i in keep])
    if k == "map":
        u = evaluate(e["of"])
        f = {"dbl": lambda v: 2 * v, "neg": lambda v: -v, "id": None}[e["fn"]]
        if f is None:
            return Node(list(u.items), u.has_len, u.has_get, list(u.ints))
        vals = [f(v) for v in u.ints]
        return Node(["i%d" % v for v in vals], u.has_len, u.has_get, vals)
    raise HarnessBug(k)


def _cmod(a, m):
    """C remainder (sign of the dividend)"""
    r = abs(a) % m
    return -r if a < 0 else r


def depth_of(e):
    k = e["k"]
    if k in ("arr", "lst", "tup", "range"):
        return 0
    if k == "zip":
        return 1 + max(depth_of(x) for x in e["of"])
    return 1 + depth_of(e["of"])


def nontrivial(e):
    k = e["k"]
    if depth_of(e) >= 2:
        return True
    if k == "range":
        n = e["nargs"]
        if n == 3 and e["c"] not in ("_", 0, 1, -1):
            a = 0 if e["a"] == "_" else e["a"]
            return (e["b"] - a) % abs(e["c"]) != 0
        return len(evaluate(e).items) == 0
    if k in ("arr", "lst", "tup"):
        return len(e["items"]) == 0
    try:
        me = evaluate(e)
        subs = [evaluate(x) for x in (e["of"] if k == "zip" else [e["of"]])]
    except Unsupported:
        return False
    if any(len(u.items) == 0 for u in subs):
        return True
    if k in ("slice", "filter"):
        return 0 < len(me.items) < len(subs[0].items)
    if k == "zip":
        return len(set(len(u.items) for u in subs)) > 1
    return False


# ---- program ----------------------------------------------------------------------------

class Builder:
    def __init__(self, P):
        self.P = P
        self.next = 10

    def slot(self):
        self.next += 1
        if self.next > 250:
            raise Unsupported("too many objects")
        return self.next

    def build(self, e):
        """emit construction ops; returns slot number"""
        P = self.P
        k = e["k"]
        s = self.slot()
        if k in ("arr", "lst", "tup"):
            # the same final contents reached through different mutation histories (unlink of head/tail/middle,
            # insertion at the front, growth and shrink of the backing store) - the cursors must not care
            via = e.get("via", "direct")
            items = list(e["items"])
            X = 424242
            pre, post = list(items), []
            if via == "popfront":
                pre = [X] + items
                post = [("pop_at", 0)]
            elif via == "remfirst":
                pre = [X] + items
                post = [("rem", X)]
            elif via == "poptail":
                pre = items + [X]
                post = [("pop", None)]
            elif via == "pushfront" and len(items) >= 2:
                pre = items[1:]
                post = [("push_at0", items[0])]
            elif via == "popmid" and len(items) >= 2:
                m = len(items) // 2
                pre = items[:m] + [X] + items[m:]
                post = [("pop_at", m)]
            elif via == "growshrink":
                post = [("push", X)] * 9 + [("pop", None)] * 9
            if k == "arr":
                P.add("new %%%d heap t:Array t:Int %s" % (s, " ".join("i:%d" % v for v in pre)))
            elif k == "lst":
                P.add("new %%%d heap t:List t:Int %s" % (s, " ".join("i:%d" % v for v in pre)))
            else:
                refs = []
                for v in pre:
                    t = self.slot()
                    P.add("new %%%d heap t:Int i:%d" % (t, v))
                    refs.append("%%%d" % t)
                P.add("new %%%d heap t:Tuple %s" % (s, " ".join(refs)))
            for (op, a) in post:
                if op == "pop_at":
                    P.add("pop_at %%%d i:%d" % (s, a))
                elif op == "rem":
                    P.add("rem %%%d i:%d" % (s, a))
                elif op == "pop":
                    P.add("pop %%%d" % s)
                elif op in ("push", "push_at0"):
                    arg = "i:%d" % a
                    if k == "tup":
                        t = self.slot()
                        P.add("new %%%d heap t:Int i:%d" % (t, a))
                        arg = "%%%d" % t
                    if op == "push":
                        P.add("push %%%d %s" % (s, arg))
                    else:
                        P.add("push_at %%%d %s i:0" % (s, arg))
        elif k == "range":
            args = []
            n = e["nargs"]
            if n == 1:
                args = ["i:%d" % e["b"]]
            elif n == 2:
                args = ["_" if e["a"] == "_" else "i:%d" % e["a"], "i:%d" % e["b"]]
            elif n == 3:
                args = ["_" if e["a"] == "_" else "i:%d" % e["a"], "i:%d" % e["b"], "_" if e["c"] == "_" else "i:%d" % e["c"]]
            if e["alloc"] == "heap":
                P.add("new %%%d heap t:Range %s" % (s, " ".join(args)))
            else:
                P.add("stk %%%d range %s" % (s, " ".join(args)))
        elif k == "slice":
            u = self.build(e["of"])
            args = " ".join("_" if a == "_" else "i:%d" % a for a in e["args"])
            if e["alloc"] == "heap":
                P.add("new %%%d heap t:Slice %%%d %s" % (s, u, args))
            else:
                P.add("stk %%%d slice %%%d %s" % (s, u, args))
        elif k == "zip":
            us = [self.build(x) for x in e["of"]]
            args = " ".join("%%%d" % u for u in us)
            if e["alloc"] == "heap":
                P.add("new %%%d heap t:Zip %s" % (s, args))
            else:
                P.add("stk %%%d zip %s" % (s, args))
        elif k == "enum":
            u = self.build(e["of"])
            P.add("stk %%%d enum %%%d" % (s, u))
        elif k == "filter":
            u = self.build(e["of"])
            if e["alloc"] == "heap":
                P.add("new %%%d heap t:Filter %%%d fn:%s" % (s, u, e["fn"]))
            else:
                P.add("stk %%%d filter %%%d fn:%s" % (s, u, e["fn"]))
        elif k == "map":
            u = self.build(e["of"])
            if e["alloc"] == "heap":
                P.add("new %%%d heap t:Map %%%d fn:%s" % (s, u, e["fn"]))
            else:
                P.add("stk %%%d map %%%d fn:%s" % (s, u, e["fn"]))
        else:
            raise HarnessBug(k)
        return s


def add_walks(P, s, node):
    exp = ",".join(node.items)
    bound = 2 * len(node.items) + 4
    P.add("fwd %%%d %d" % (s, bound), expect_ok("[%s]" % exp))
    P.add("bwd %%%d %d" % (s, bound), expect_ok("[%s]" % ",".join(reversed(node.items))))
    if node.has_len:
        P.add("len %%%d" % s, expect_ok(str(len(node.items))))
        if node.has_get:
            P.add("getsp %%%d" % s, expect_ok(exp))
    P.add("fwd %%%d %d" % (s, bound), expect_ok("[%s]" % exp))      # a second walk must give the same


def view_prog(e):
    P = Prog()
    b = Builder(P)
    node = evaluate(e)
    s = b.build(e)
    add_walks(P, s, node)
    return P


def run_view(ctx, e):
    try:
        P = view_prog(e)
    except Unsupported:
        return None, False
    fail, obs = P.run(ctx.executor("ex_vm"))
    return fail, True


def run_case(ctx, case):
    if case["fam"] == "map":
        P = Prog()
        kind = case["kind"]
        P.add("new %%0 heap t:%s t:Int t:Int" % kind)
        keys = list(case["keys"])
        for k in keys:
            P.add("set %%0 i:%d i:%d" % (k, k * 2))
        for r in case["rem"]:
            if r < len(keys) and keys[r] is not None:
                P.add("rem %%0 i:%d" % keys[r])
                keys[r] = None
        live = [k for k in keys if k is not None]
        st_ = {}

        def chk_f(o):
            if not o.startswith("ok {"):
                return "walk failed " + o
            pairs = maps.parse_pairs(o[4:-1])
            st_["fwd"] = [k for k, _ in pairs]
            if sorted(pairs) != sorted(("i%d" % k, "i%d" % (2 * k)) for k in live):
                return "forward walk yields %s, expected the bindings of %s" % (pairs, live)
            return None

        def chk_b(o):
            if not o.startswith("ok ["):
                return "backward walk failed " + o
            ks = o[4:-1].split(",") if o[4:-1] else []
            return None if ks == list(reversed(st_.get("fwd", []))) else "backward walk %s is not the reverse of forward %s" % (ks, st_.get("fwd"))
        P.add("fwdkv %0", chk_f)
        P.add("bwd %0", chk_b)
        P.add("len %0", expect_ok(str(len(live))))
        fail, obs = P.run(ctx.executor("ex_vm"))
        return Result(fail, len(live) == 0 or len(case["rem"]) > 0, ["base=" + kind], None)
    e = case["e"]
    fail, ran = run_view(ctx, e)
    if not ran:
        return Result(None, False, ["unsupported-composition"], None)
    ev = ["top=" + e["k"], "depth=%d" % depth_of(e)]
    return Result(fail, nontrivial(e), ev, None)


# ---- exhaustive small scope -------------------------------------------------------------

def extra_phase(ctx, tier, stats, sample_fn):
    fails = []
    n = 0
    lens = range(0, 6)
    argv = ["_"] + list(range(-7, 8))
    steps = [1, -1, 2, -2, 3, -3]
    ex = ctx.executor("ex_vm")
    for kind in ("arr", "lst", "tup"):
        for L in lens:
            base = {"k": kind, "items": list(range(10, 10 + L))}
            # all slices of one base go into one program (one executor round trip)
            P = Prog()
            b = Builder(P)
            bs = b.build(base)
            cases = []
            for a in argv:
                for bb in argv:
                    for stp in steps:
                        e = {"k": "slice", "of": base, "args": [a, bb, stp], "alloc": "heap"}
                        node = evaluate(e)
                        s = 5
                        start = len(P.lines)
                        P.add("new %%5 heap t:Slice %%%d %s" % (bs, " ".join("_" if x == "_" else "i:%d" % x for x in [a, bb, stp])))
                        add_walks(P, s, node)
                        cases.append((start, len(P.lines), e))
                        n += 1
            fail, obs = P.run(ex)
            if fail:
                # find the failing slice and report it as its own case
                import re
                m = re.match(r"(?:op|executor died at op) (\d+)", fail)
                at = int(m.group(1)) if m else 0
                for (lo, hi, e) in cases:
                    if lo <= at < hi:
                        fails.append(({"fam": "view", "e": e}, fail))
                        break
                else:
                    fails.append(({"fam": "view", "e": cases[0][2]}, fail))
            for (lo, hi, e) in cases[:: max(1, len(cases) // 40)]:
                stats.add({"fam": "view", "e": e}, Result(None, nontrivial(e), ["small-scope-slice"]), sample_fn)
            stats.evals += len(cases) - len(cases[:: max(1, len(cases) // 40)])
    nr = 0
    P = Prog()
    cases = []
    for a in range(-5, 6):
        for bb in range(-5, 6):
            for c in range(-3, 4):
                e = {"k": "range", "nargs": 3, "a": a, "b": bb, "c": c, "alloc": "heap"}
                node = evaluate(e)
                start = len(P.lines)
                P.add("new %%5 heap t:Range i:%d i:%d i:%d" % (a, bb, c))
                add_walks(P, 5, node)
                cases.append((start, len(P.lines), e))
                nr += 1
    fail, obs = P.run(ex)
    if fail:
        import re
        m = re.match(r"(?:op|executor died at op) (\d+)", fail)
        at = int(m.group(1)) if m else 0
        for (lo, hi, e) in cases:
            if lo <= at < hi:
                fails.append(({"fam": "view", "e": e}, fail))
                break
    for (lo, hi, e) in cases[::40]:
        stats.add({"fam": "view", "e": e}, Result(None, nontrivial(e), ["small-scope-range"]), sample_fn)
    stats.evals += nr - len(cases[::40])
    return {"fails": fails, "extra": {"small_scope_slices": n, "small_scope_ranges": nr, "small_scope_exhaustive": True}}


# Known finding: a Tuple holding the same pointer twice never terminates (cursor found by pointer identity).
KNOWN = [{"key": "tuple-repeated-pointer",
          "what": "Tuple iteration finds the cursor by pointer identity; a tuple holding one pointer twice walks a,b,a,b,... forever",
          "case": {"fam": "tupdup"}}]

_orig_run_case = run_case


def run_case(ctx, case):          # noqa: F811  (wrap to add the bounded reproduction)
    if case.get("fam") == "tupdup":
        P = Prog()
        P.add("new %1 heap t:Int i:1")
        P.add("new %2 heap t:Int i:2")
        P.add("new %0 heap t:Tuple %1 %2 %1 %2")
        P.add("fwd %0", expect_ok("[i1,i2,i1,i2]"))
        fail, obs = P.run(ctx.executor("ex_vm"))
        return Result(fail, True, ["tuple-repeated-pointer"], None)
    return _orig_run_case(ctx, case)
