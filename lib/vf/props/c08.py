"""C08 - type-class dispatch returns exactly what the type declares.

Three parts (DESIGN.md, section C08):
  * static matrix (extra_phase, exhaustive): 71 built-in type objects + 5 static types / classes the executor
    declares itself with the Cello / CelloEmpty / Instance macros (user classes, no instances, all-empty instance,
    29 classes in reverse order) x 30 classes x 8 entry points
    (instance, type_instance, implements, type_implements, method_at_offset, type_method_at_offset,
    implements_method_at_offset, type_implements_method_at_offset; the member entry points for every
    member of the class) x 3 lookup orders (cold, warm, others-first).  Oracle: scan of the raw type
    record by class name, done in the executor with the public layout of Cello.h only.
  * generated run-time types new(Type, name, size, instances...) with 0..256 instances and generated
    lookup sequences; oracle: the instance list the harness itself passed in (model in this file).
    A case may re-declare the SAME type object in place (construct_with(T, name, size, new instances...))
    between lookup sequences, i.e. with warm caches; later lookups are checked against the new list, and
    no function of an earlier declaration may be reached.
  * the same lookups from 2..16 Cello Threads released together against a cold run-time type and
    cold built-in types.
Every case runs in a freshly forked child of an executor that never calls into Cello itself, so the
process-wide lazily written state (cache slots, memoised class pointers, header types) is cold at the
start of every case and a case is a pure function of (built code, case).
"""
import os
import concurrent.futures as cf
from hypothesis import strategies as st
from .. import build
from ..core import Result, HarnessBug, crash_summary

ID = "C08"
LEVEL = "exploration"
BUDGET = {"quick": 1060, "thorough": 159000}     # ~1/18 of the generated cases are thread cases
WORKERS = {"quick": 4, "thorough": 16}
RULE = ("static part (exhaustive, enumerated): case = (static type object: 71 built-in ones + 5 declared by the executor with the "
        "Cello/CelloEmpty/Instance macros, order in cold|warm|others-first); all 30 "
        "classes x 8 entry points x every member are looked up and compared with a by-name scan of the raw type record; "
        "cold/others-first make every single lookup the first Cello call of a forked process (others-first: after "
        "looking up the 29 other classes). generated part: case = run-time type (name, size, 0..256 instances = "
        "generated subset of the 30 classes in generated order with generated NULL members, placed among made-up "
        "filler classes) + generated sequence of lookups/calls/casts with repeats, optionally interleaved with 1..2 in-place "
        "re-declarations of the same type object (classes dropped / replaced by new instance objects / reordered / added) "
        "followed by lookups biased to the classes that changed, or (without re-declaration) the same with 2..16 threads; lookups through a built-in type OBJECT as receiver (instance / implements / method lookups / type_of on Int, File, ... themselves, usually the first access to that object in the process). "
        "Ops besides the plain lookups: api = public function without a default (len, push, ...: declared member called exactly once, else ClassError and "
        "nothing called); fb = public function WITH a default (cmp, hash, assign, swap, copy, show_to, name, construct_with, destruct, alloc_raw, "
        "dealloc_raw, mark): declared member -> exactly that function of the current declaration runs once; member not declared -> the default "
        "runs and no function of any (earlier) declaration does (executed only where the default is harmless for the 256-byte test object, else "
        "counted as fb:not-executed); cast with a type object (the run-time type itself, a static one) as receiver: only Type is accepted; aq = "
        "lookup with an ALIAS of the class (another class object of the same name; answer only required to be admissible: the declared instance "
        "or none) followed by lookups with the real class, which must be exact. Thread cases run lookups, api, fb and type-object receivers. "
        "Every generated case runs under a generated build: clang ASan | gcc -O0 | gcc -O0 -DCELLO_CACHE=0 | gcc -O3. "
        "non-trivial = static case whose 18 cached classes are looked up for the first time in the process "
        "(cold, others-first), or run-time type with >= 20 instances, or a thread case (concurrent cold lookup). "
        "distinct = distinct case JSON.")
ASSUMPTIONS = ["class identity is by name (Type_New records c_str(type_of(instance))): generated class names are unique "
               "and never equal to a built-in class name; a type declaring the same class twice is not generated",
               "two class objects of the same name are the same class for a lookup or not - the statement does not say; a lookup with the "
               "alias may answer with the declared instance or with none, never with anything else, and must not disturb later lookups",
               "defaults of cmp/hash/assign/swap work on size(type) bytes: only run when 1 <= size <= 256 and Size is not overridden; the "
               "defaults of copy/show_to/alloc_raw/dealloc_raw (allocate, print an address, reject a non-heap object) are not run",
               "a run-time type that declares Cast with a non-NULL member overrides cast(): the override must then be "
               "invoked exactly once (checked) instead of the default ValueError rule",
               "concurrent first lookups write identical values unsynchronised; only wrong answers are reported, "
               "data-race detectors are deliberately not an oracle",
               "the CELLO_VERIF_YIELD points of DESIGN 2.4 are not present in src/Type.c; thread interleavings are "
               "whatever the scheduler produces after a common start barrier"]

CLASSES = [("Doc", 6), ("Help", 1), ("Cast", 1), ("Size", 1), ("Alloc", 2), ("New", 2), ("Copy", 1), ("Assign", 1),
           ("Swap", 1), ("Cmp", 1), ("Hash", 1), ("Len", 1), ("Iter", 5), ("Push", 4), ("Concat", 2), ("Get", 6),
           ("Sort", 1), ("Resize", 1), ("C_Str", 1), ("C_Int", 1), ("C_Float", 1), ("Stream", 8), ("Pointer", 2),
           ("Call", 1), ("Format", 2), ("Show", 2), ("Current", 1), ("Start", 4), ("Lock", 3), ("Mark", 1)]
CN = [c for c, _ in CLASSES]
NMEM = dict(CLASSES)
CACHED = ["Size", "Alloc", "New", "Assign", "Cmp", "Mark", "Hash", "Len", "Iter", "Push", "Concat", "Get", "C_Str",
          "C_Int", "C_Float", "Current", "Cast", "Pointer"]
PLAIN_TYPES = ["Type", "Tuple", "Ref", "Box", "Int", "Float", "String", "Tree", "List", "Array", "Table", "Range",
               "Slice", "Zip", "Filter", "Map", "Terminal", "_", "File", "Mutex", "Thread", "Process", "Function",
               "Exception", "GC"]
EXC_TYPES = ["IOError", "KeyError", "BusyError", "TypeError", "ValueError", "ClassError", "FormatError",
             "ResourceError", "OutOfMemoryError", "IndexOutOfBoundsError", "SegmentationError", "ProgramAbortedError",
             "DivisionByZeroError", "IllegalInstructionError", "ProgramInterruptedError", "ProgramTerminationError"]
# static types and classes declared by the executor itself with the Cello / CelloEmpty / Instance macros (ex_type.c)
USER_TYPES = ["UCls", "UCl", "UT0", "UT1", "UTAll"]
TYPES = PLAIN_TYPES + CN + EXC_TYPES + USER_TYPES
TYPES_NT = [t for t in TYPES if t != "Terminal"]      # see KNOWN: Terminal cannot appear in an exception message
ORDERS = ["cold", "warm", "others-first"]
ENTRY_CLASS = "ITPQ"       # per class
ENTRY_MEMBER = "MNRS"      # per member
ENTRY_NAME = {"I": "instance", "T": "type_instance", "P": "implements", "Q": "type_implements",
              "M": "method_at_offset", "N": "type_method_at_offset", "R": "implements_method_at_offset",
              "S": "type_implements_method_at_offset", "W": "instance (first pass)"}
# members reachable through a public function that dispatches with the `method` macro and has no fallback
API = {"Doc": [1, 2, 3], "Help": [0], "Len": [0], "Iter": [0, 1, 2, 3, 4], "Push": [0, 1, 2, 3], "Concat": [0, 1],
       "Get": [0, 1, 2, 3, 4, 5], "Sort": [0], "Resize": [0], "C_Str": [0], "C_Int": [0], "C_Float": [0],
       "Stream": [0, 1, 2, 3, 4, 5, 6, 7], "Pointer": [0, 1], "Call": [0], "Format": [0, 1], "Show": [1],
       "Current": [0], "Start": [0, 1, 2, 3], "Lock": [0, 1, 2]}
API_CLASSES = sorted(API)
# made-up class names that are prefixes / extensions / case variants of real ones
TRICKY = ["Cm", "Cmpx", "cmp", "CMP", "Len_", "_Len", "C_", "C_Str2", "C_In", "Ite", "Iterr", "__Name", "__Size",
          "New1", "Ne", "Typ", "IntX", "Markk", "Mar", "Siz", "Sizee", "Pointe", "Curren", "Castt", "Hashh", "Has",
          "Ge", "Gett", "Pus", "D", "Do", "Docc"]
RT_NAMES = ["T", "Foo", "Int", "Cmp", "Type", "String", "Tuple", "Ref", "X_1", "Zed9", "Exception", "ValueError",
            "Len", "Thing", "a", "__Name"]
_BUILTIN = set(TYPES)
assert not (_BUILTIN & set(TRICKY)) and len(TYPES) == 76 and len(set(TYPES)) == 76
# public functions that dispatch to a member but fall back to a DEFAULT when the type leaves the member out
FB = {"Cmp": [0], "Hash": [0], "Assign": [0], "Swap": [0], "Copy": [0], "Show": [0], "Doc": [0], "New": [0, 1],
      "Alloc": [0, 1], "Mark": [0]}
FB_CLASSES = sorted(FB)
FB_NAME = {("Cmp", 0): "cmp", ("Hash", 0): "hash", ("Assign", 0): "assign", ("Swap", 0): "swap", ("Copy", 0): "copy",
           ("Show", 0): "show_to", ("Doc", 0): "name", ("New", 0): "construct_with", ("New", 1): "destruct",
           ("Alloc", 0): "alloc_raw", ("Alloc", 1): "dealloc_raw", ("Mark", 0): "mark"}
# the member is not declared: 2 = the default touches size(type) bytes of the (256-byte) object, 1 = always harmless,
# 0 = the default allocates / prints an address / rejects the non-heap object: not executed
FB_DEFAULT = {("Cmp", 0): 2, ("Hash", 0): 2, ("Assign", 0): 2, ("Swap", 0): 2, ("New", 0): 1, ("New", 1): 1,
              ("Mark", 0): 1, ("Doc", 0): 1}
CFGS = {"asan": "ex_type", "plain": "ex_type_plain", "nocache": "ex_type_nocache", "O3": "ex_type_O3"}


def prepare(tier):
    with cf.ThreadPoolExecutor(4) as ex:
        paths = list(ex.map(lambda c: build.executor(c, "ex_type"), list(CFGS)))
    return {CFGS[c]: p for c, p in zip(CFGS, paths)}


# ---- generators -----------------------------------------------------------------------------------------

def _filler(i, seed):
    nm = 1 + (i * 7 + seed) % 8
    mask = (seed * 31 + i * 17 + (i * i) % 5) % (1 << nm)
    if (i + seed) % 3 == 0:
        mask = (1 << nm) - 1
    return ["F%d" % i, nm, mask]


@st.composite
def _rt_type(draw):
    name = draw(st.one_of(st.sampled_from(RT_NAMES), st.from_regex(r"\A[A-Za-z_][A-Za-z0-9_]{0,11}\Z")))
    size = draw(st.one_of(st.integers(0, 512), st.sampled_from([0, 1, 8, 65536, 2**31 - 1])))
    how = draw(st.integers(0, 3))
    if how == 0:
        bl = draw(st.lists(st.sampled_from(CN), unique=True, max_size=5))
    elif how in (1, 2):
        bl = draw(st.lists(st.sampled_from(CN), unique=True, max_size=30))
    else:
        bl = list(draw(st.permutations(CN)))
    binst = []
    for c in bl:
        full = (1 << NMEM[c]) - 1
        binst.append([c, draw(st.one_of(st.just(full), st.just(full), st.integers(0, full)))])
    tricky = draw(st.lists(st.sampled_from(TRICKY), unique=True, max_size=4))
    ntd = draw(st.integers(0, len(tricky)))            # the first ntd tricky names are declared
    sc = draw(st.sampled_from(["none", "few", "few", "some", "some", "many", "max"]))
    nfill = {"none": 0, "few": draw(st.integers(0, 6)), "some": draw(st.integers(7, 60)),
             "many": draw(st.integers(150, 256)), "max": 256}[sc]
    seed = draw(st.integers(0, 9999))
    nfill = max(0, min(nfill, 256 - len(binst) - ntd))
    fdefs, inst = [], []
    for i in range(nfill):
        n, nm, mask = _filler(i, seed)
        fdefs.append([n, nm, "r" if (i + seed) % 11 == 0 else "h"])
        inst.append([n, mask])
    for j, t in enumerate(tricky):
        nm = 1 + (seed + j) % 3
        fdefs.append([t, nm, "r" if (seed + j) % 2 else "h"])
        if j < ntd:
            inst.insert((seed * (j + 3)) % (len(inst) + 1), [t, (seed + 5 * j) % (1 << nm)])
    for k in range(draw(st.integers(0, 3))):           # classes that exist but are not declared
        fdefs.append(["U%d" % k, 1 + (seed + k) % 8, "h" if k % 2 else "r"])
    for b in binst:
        pos = draw(st.one_of(st.sampled_from([0, 10**6, 255, 256]), st.integers(0, 256)))
        inst.insert(min(pos, len(inst)), b)
    if name in _BUILTIN or name in {f[0] for f in fdefs}:
        pass                                            # a type may share its name with a class or type object
    return {"name": name, "size": size, "fdefs": fdefs, "inst": inst}


def _class_target(draw, t, allow_static_as_class=True):
    """-> (class name, number of members)"""
    decl = t["inst"]
    nm = dict(NMEM)
    nm.update({f[0]: f[1] for f in t["fdefs"]})
    declared = {c for c, _ in decl}
    prev = t.get("prev") or []
    which = draw(st.integers(0, 13 if prev else 9))
    if which >= 10:                                     # class declared before the last re-declaration
        c = draw(st.sampled_from(prev))
        return c, nm.get(c, 1)
    if which <= 4 and decl:
        idx = draw(st.one_of(st.sampled_from([0, len(decl) - 1]), st.integers(0, len(decl) - 1)))
        c = decl[idx][0]
    elif which <= 6:
        c = draw(st.sampled_from(CN))
    elif which == 7:
        und = [f[0] for f in t["fdefs"] if f[0] not in declared]
        c = draw(st.sampled_from(und)) if und else draw(st.sampled_from(CN))
    elif which == 8 and allow_static_as_class:
        c = draw(st.sampled_from(["Int", "String", "Type", "Tuple", "ValueError"]))
    else:
        c = draw(st.sampled_from(CACHED))
    return c, nm.get(c, 1)


def _op(draw, t, threads):
    k = draw(st.integers(0, 19))
    if k <= 10:
        c, n = _class_target(draw, t)
        return ["q", draw(st.sampled_from("ITPQMNRS")), c, draw(st.integers(0, n - 1))]
    if k <= 13:
        if threads and draw(st.booleans()):
            c, n = _class_target(draw, t)
            return ["q", draw(st.sampled_from("MN")), c, draw(st.integers(0, n - 1))]
        if draw(st.integers(0, 2)) == 0:
            # public function with a default: dispatch to the declared member, or the default and nothing else
            declared = [c for c, _ in t["inst"] if c in FB]
            c = draw(st.sampled_from(declared)) if declared and draw(st.booleans()) else draw(st.sampled_from(FB_CLASSES))
            m = draw(st.sampled_from(FB[c]))
            if threads and c in ("Assign", "Swap") and not (dict((x[0], x[1]) for x in t["inst"]).get(c, 0) >> m) & 1:
                c, m = "Cmp", 0                       # their default writes to the shared object
            return ["fb", c, m]
        declared = [c for c, _ in t["inst"] if c in API]
        c = draw(st.sampled_from(declared)) if declared and draw(st.booleans()) else draw(st.sampled_from(API_CLASSES))
        return ["api", c, draw(st.sampled_from(API[c]))]
    if k <= 15:
        how = draw(st.integers(0, 5))
        if how == 0:
            # a type OBJECT as the receiver of cast: its type is Type (the run-time type object, or a static one,
            # usually not looked at before)
            obj = "rt" if draw(st.booleans()) else "o:" + draw(st.sampled_from(TYPES_NT))
            tg = ["Type", "Type", "self", "twin", draw(st.sampled_from(TYPES_NT))] + ([obj[2:]] if obj != "rt" else [])
            return ["cast", obj, draw(st.sampled_from(tg))]
        if how <= 2:
            tg = ["self", "self", "twin", "Type", draw(st.sampled_from(TYPES_NT))]
            if t["name"] in _BUILTIN and t["name"] != "Terminal":
                tg += [t["name"], t["name"]]
            if t["fdefs"]:
                tg.append(t["fdefs"][0][0])
            return ["cast", "x", draw(st.sampled_from(tg))]
        s = t["name"] if (t["name"] in _BUILTIN and t["name"] != "Terminal" and draw(st.booleans())) else draw(st.sampled_from(TYPES_NT))
        return ["cast", "s:" + s, draw(st.sampled_from([s, s, "self", "twin", draw(st.sampled_from(TYPES_NT))]))]
    if k <= 18:
        c, n = _class_target(draw, t, allow_static_as_class=False)
        if not threads and draw(st.integers(0, 5)) == 0:
            # an ALIAS of the class (another class object of the same name) as the class argument
            return ["aq", draw(st.sampled_from("ITPQMNRS")), c, draw(st.integers(0, n - 1))]
        if draw(st.integers(0, 2)) == 0:
            # the built-in type OBJECT itself as the receiver (its type is Type), typically the first access to it
            return ["oq", draw(st.sampled_from("IPMRO")), draw(st.sampled_from(TYPES_NT)), c, draw(st.integers(0, n - 1))]
        return ["sq", draw(st.sampled_from("ITPQMNRS")), draw(st.sampled_from(TYPES_NT)), c, draw(st.integers(0, n - 1))]
    if threads or draw(st.booleans()):
        return ["tname"]
    return ["tsize"]


def _redeclare(draw, t):
    """New instance list for the same type object: built-in classes are kept / given a new mask / dropped (dropping
    biased to the cached classes), some new ones are added, a slice of the other instances is kept, order changes."""
    cur = t["inst"]
    bi = [x for x in cur if x[0] in NMEM]
    oth = [x for x in cur if x[0] not in NMEM]
    mode = draw(st.sampled_from(["edit", "edit", "edit", "empty", "same", "reverse"]))
    if mode == "empty":
        new = []
    elif mode == "same":                                 # same classes, same masks, new instance objects
        new = [list(x) for x in cur]
    elif mode == "reverse":
        new = [list(x) for x in reversed(cur)]
    else:
        nb = []
        for c, mask in bi:
            full = (1 << NMEM[c]) - 1
            act = draw(st.sampled_from(["keep", "mask", "drop", "drop"] if c in CACHED else ["keep", "mask", "drop"]))
            if act == "keep":
                nb.append([c, mask])
            elif act == "mask":
                nb.append([c, draw(st.integers(0, full))])
        have = {c for c, _ in bi}
        for c in draw(st.lists(st.sampled_from(CN), unique=True, max_size=5)):
            if c not in have:
                nb.append([c, draw(st.sampled_from([(1 << NMEM[c]) - 1, 1, 0]))])
        if draw(st.booleans()):
            nb.reverse()
        lo = draw(st.integers(0, len(oth)))
        hi = draw(st.integers(lo, len(oth)))
        keep = [list(x) for x in oth[lo:hi]]
        used = {x[0] for x in keep}
        for f in t["fdefs"]:                             # made-up classes that were not declared so far
            if f[0] not in used and f[0] not in {x[0] for x in oth} and draw(st.integers(0, 3)) == 0:
                keep.append([f[0], (1 << f[1]) - 1])
        new = keep
        for b in nb:
            pos = draw(st.sampled_from([0, 10**6, 10**6, len(new) // 2]))
            new.insert(min(pos, len(new)), b)
        new = new[:256]
    name = t["name"] if draw(st.integers(0, 3)) else draw(st.sampled_from(RT_NAMES))
    size = t["size"] if draw(st.booleans()) else draw(st.integers(0, 512))
    return ["redeclare", name, size, new]


@st.composite
def _rt_case(draw, threads=False):
    t = draw(_rt_type())
    nops = draw(st.integers(1, 24 if threads else 40))
    ops = [_op(draw, t, threads) for _ in range(nops)]
    for i in draw(st.lists(st.integers(0, nops - 1), max_size=10)):      # repeats of earlier lookups
        ops.append(ops[i])
    if not threads:
        cur = dict(t)
        for _ in range(draw(st.sampled_from([0, 0, 0, 1, 1, 2]))):
            # make sure some declared classes are warm before the declaration changes
            warm = [x[0] for x in cur["inst"] if x[0] in CACHED][:draw(st.integers(0, 18))]
            ops += [["q", draw(st.sampled_from("ITMN")), c, 0] for c in warm]
            rd = _redeclare(draw, cur)
            # the very last lookup before the declaration changes and the very first one after it ask for the same
            # class (a result remembered from the last lookup must not outlive the declaration it was made for)
            bracket = None
            if draw(st.integers(0, 2)) != 0:
                c, n_ = _class_target(draw, cur)
                bracket = c
                ops.append(["q", draw(st.sampled_from("ITMNPQ")), c, 0])
            ops.append(rd)
            prev = sorted(set((cur.get("prev") or []) + [x[0] for x in cur["inst"]]))
            cur = {"name": rd[1], "size": rd[2], "fdefs": t["fdefs"], "inst": rd[3], "prev": prev}
            if bracket is not None:
                ops.append(["q", draw(st.sampled_from("ITMNPQ")), bracket, 0])
            ops += [_op(draw, cur, False) for _ in range(draw(st.integers(1, 30)))]
    # every alias lookup is followed (not necessarily at once) by lookups of the same class with the real class object
    out = []
    for op in ops:
        out.append(op)
        if op[0] == "aq":
            out.append(["q", draw(st.sampled_from("ITMNIT")), op[2], op[3]])
    ops = out
    case = {"kind": "threads" if threads else "rt"}
    case.update(t)
    case["ops"] = ops
    case["cfg"] = draw(st.sampled_from(["asan", "asan", "plain", "nocache", "O3"]))
    if threads:
        case["n"] = draw(st.one_of(st.integers(2, 16), st.sampled_from([2, 8, 16])))
        case["rot"] = draw(st.integers(0, 7))
    return case


def strategy(tier):
    rt, thr = _rt_case(False), _rt_case(True)
    return st.integers(0, 17).flatmap(lambda k: thr if k == 0 else rt)


# ---- model and encoding ---------------------------------------------------------------------------------

def _decl(case):
    d = {}
    if len(case["inst"]) > 256:
        raise HarnessBug("more than 256 instances generated")
    for idx, (c, mask) in enumerate(case["inst"]):
        if c in d:
            raise HarnessBug("class %s declared twice" % c)
        d[c] = (idx, mask)
    return d


def _expect(state, decl, op):
    """expected answer token, or a callable(token) -> expected token for oracle-relative answers.
    state = current declaration {"name", "size", "inst"} of the run-time type"""
    case = state
    kind = op[0]
    if kind == "q":
        _, e, c, m = op
        idx, mask = decl.get(c, (None, 0))
        has = idx is not None
        mem = has and bool((mask >> m) & 1)
        if e in "IT":
            return "#%d" % idx if has else "n"
        if e in "PQ":
            return "1" if has else "0"
        if e in "MN":
            return "#%d" % idx if mem else "C"
        return "1" if mem else "0"
    if kind == "api":
        _, c, m = op
        idx, mask = decl.get(c, (None, 0))
        return "k" if idx is not None and (mask >> m) & 1 else "C"
    if kind == "fb":
        _, c, m = op
        idx, mask = decl.get(c, (None, 0))
        if idx is not None and (mask >> m) & 1:
            return "k"
        mode = FB_DEFAULT.get((c, m), 0)
        size_ok = 1 <= case["size"] <= 256 and not ("Size" in decl and decl["Size"][1] & 1)
        return "skip" if mode == 0 or (mode == 2 and not size_ok) else "f"
    if kind == "aq":
        _, e, c, m = op
        idx, mask = decl.get(c, (None, 0))
        has = idx is not None
        mem = has and bool((mask >> m) & 1)
        if e in "IT":
            ok = ["n"] + (["#%d" % idx] if has else [])
        elif e in "PQ":
            ok = ["0"] + (["1"] if has else [])
        elif e in "MN":
            ok = ["C"] + (["#%d" % idx] if mem else [])
        else:
            ok = ["0"] + (["1"] if mem else [])
        return lambda tok: tok if tok in ok else "one of " + "/".join(ok)
    if kind == "cast":
        _, obj, tgt = op
        if obj == "x":
            if "Cast" in decl and decl["Cast"][1] & 1:
                return "k"
            return "s" if tgt == "self" else "V"
        if obj == "rt" or obj.startswith("o:"):
            return "s" if tgt == "Type" else "V"          # a type object is an object of type Type
        return "s" if tgt == obj[2:] else "V"
    if kind == "tname":
        return "name=" + case["name"]
    if kind == "tsize":
        if "Size" in decl and decl["Size"][1] & 1:
            return "size=4242 traps=1"
        return "size=%d traps=0" % case["size"]
    if kind in ("sq", "oq"):
        e = op[1]

        def rel(tok):
            parts = tok.split(",")
            if kind == "oq":
                if len(parts) != 4 or not parts[3].startswith("v="):
                    return "<malformed>"
                if e == "O":
                    return "s," + ",".join(parts[1:])
            if len(parts) != (3 if kind == "sq" else 4) or not parts[1].startswith("d=") or not parts[2].startswith("m="):
                return "<malformed>"
            d, m = parts[1] == "d=1", parts[2] == "m=1"
            if e in "IT":
                r = "s" if d else "n"
            elif e in "PQ":
                r = "1" if d else "0"
            elif e in "MN":
                r = "s" if d and m else "C"
            else:
                r = "1" if d and m else "0"
            return ",".join([r] + parts[1:])
        return rel
    raise HarnessBug("op " + repr(op))


def _describe(case, op):
    if op[0] == "redeclare":
        return "construct_with(<same type object>, %s, %d, <%d instances>)" % (op[1], op[2], len(op[3]))
    if op[0] == "q":
        return "%s(<run-time type %s, %d instances>, %s, member %d)" % (ENTRY_NAME[op[1]], case["name"], len(case["inst"]), op[2], op[3])
    if op[0] == "sq":
        return "%s(%s, %s, member %d)" % (ENTRY_NAME[op[1]], op[2], op[3], op[4])
    if op[0] == "oq":
        return "%s(<the type object %s itself>, %s, member %d)" % ("type_of" if op[1] == "O" else ENTRY_NAME[op[1]], op[2], op[3], op[4])
    if op[0] == "fb":
        return "%s() on an object of run-time type %s (%s member %d, which has a default)" % (FB_NAME[(op[1], op[2])], case["name"], op[1], op[2])
    if op[0] == "aq":
        return "%s(<run-time type %s, %d instances>, <another class object named %s>, member %d)" % (ENTRY_NAME[op[1]], case["name"], len(case["inst"]), op[2], op[3])
    if op[0] == "api":
        return "public call dispatching to %s member %d on an object of run-time type %s" % (op[1], op[2], case["name"])
    if op[0] == "cast":
        what = {"x": "object of run-time type", "rt": "<the run-time type object itself>"}.get(op[1])
        if what is None:
            what = ("object of " if op[1][0] == "s" else "<the type object itself> ") + op[1][2:]
        return "cast(%s, %s)" % (what, op[2])
    return op[0]


def encode(case):
    lines = ["rt %s %d" % (case["name"], case["size"])]
    for n, nm, how in case["fdefs"]:
        lines.append("f %s %d %s" % (n, nm, how))
    for c, mask in case["inst"]:
        lines.append("i %s %x" % (c, mask))
    nsetup = len(lines)
    if case["kind"] == "rt":
        lines.append("mk")
        for op in case["ops"]:
            if op[0] == "redeclare":
                for c, mask in op[3]:
                    lines.append("ri %s %x" % (c, mask))
                lines.append("redeclare %s %d" % (op[1], op[2]))
            else:
                lines.append(" ".join(str(x) for x in op))
    else:
        for op in case["ops"]:
            lines.append("tq " + " ".join(str(x) for x in op))
        lines.append("threads %d %d" % (case["n"], case["rot"]))
    return lines, nsetup


def _infra(ex, obs):
    for l in obs:
        if l.startswith("HARNESS-BUG"):
            ex.close()
            raise HarnessBug(l)


def _died(ex, obs):
    for l in obs:
        if l.startswith("died") or l.startswith("CRASH") or l == "HANG":
            extra = ""
            try:
                extra = " " + crash_summary(ex._stderr_tail())
            except Exception:
                pass
            return l + extra
    return None


_FBEV = {"k": "fb:declared-member-called", "f": "fb:default-taken", "skip": "fb:not-executed"}


def _run_rt(ctx, case):
    cfg = case.get("cfg", "asan")
    if cfg not in CFGS:
        raise HarnessBug("configuration " + repr(cfg))
    ex = ctx.executor(CFGS[cfg])
    decl = _decl(case)
    lines, nsetup = encode(case)
    obs = ex.run("\n".join(lines))
    _infra(ex, obs)
    n = len(case["inst"])
    thr = case["kind"] == "threads"
    ev = [case["kind"], "inst:%s" % ("0" if n == 0 else "1-19" if n < 20 else "20-199" if n < 200 else "200-256"), "cfg:" + cfg]
    kinds = {op[0] for op in case["ops"]}
    ev += ["op:" + k for k in sorted(kinds & {"fb", "aq", "api", "oq"})]
    if any(op[0] == "cast" and (op[1] == "rt" or op[1].startswith("o:")) for op in case["ops"]):
        ev.append("op:cast-of-a-type-object")
    nre = sum(1 for op in case["ops"] if op[0] == "redeclare")
    if nre:
        if thr:
            raise HarnessBug("redeclare in a thread case")
        ev.append("redeclare:%d" % nre)
    nt = thr or n >= 20 or any(op[0] == "redeclare" and len(op[3]) >= 20 for op in case["ops"])
    d = _died(ex, obs)
    if d:
        return Result("child executing the case died: %s (after %d answered ops)" % (d, len([o for o in obs if not o.startswith("died")])), nt, ev, obs)
    if len(obs) != len(lines):
        return Result("executor stopped early: %s" % (obs[-1] if obs else "no output"), nt, ev, obs)
    for i in range(nsetup):
        if obs[i] != "ok":
            return Result("setup op failed: %s -> %s" % (lines[i], obs[i]), nt, ev, obs)
    if not thr:
        if obs[nsetup] != "ok":
            return Result("new(Type, name, size, <%d instances>) -> %s" % (n, obs[nsetup]), nt, ev, obs)
        state = {"name": case["name"], "size": case["size"], "inst": case["inst"]}
        pos = nsetup + 1
        for j, op in enumerate(case["ops"]):
            if op[0] == "redeclare":
                for k in range(len(op[3]) + 1):
                    if obs[pos + k] != "ok":
                        return Result("op %d: %s -> %s" % (j, _describe(state, op), obs[pos + k]), nt, ev, obs)
                pos += len(op[3]) + 1
                state = {"name": op[1], "size": op[2], "inst": op[3], "redeclared": state.get("redeclared", 0) + 1}
                decl = _decl(state)
                continue
            got = obs[pos]
            pos += 1
            want = _expect(state, decl, op)
            if callable(want):
                want = want(got)
            if op[0] == "fb" and got in _FBEV and _FBEV[got] not in ev:
                ev.append(_FBEV[got])
            if op[0] == "oq" and got.endswith(",v=1"):
                if "first-touch-of-a-type-object" not in ev:
                    ev.append("first-touch-of-a-type-object")
                nt = True
            if got != want:
                hist = (" (declaration %d of the same type object; old = instance of an earlier declaration, STALE = "
                        "call reached a function of an earlier declaration)" % (state["redeclared"] + 1)) if state.get("redeclared") else ""
                return Result("lookup %d: %s answered %s, the type declares %s%s" % (j, _describe(state, op), got, want, hist), nt, ev, obs)
        return Result(None, nt, ev, obs)
    exp = [_expect(case, decl, op) for op in case["ops"]]
    for i in range(nsetup, len(lines) - 1):
        if obs[i] != "ok":
            return Result("setup op failed: %s -> %s" % (lines[i], obs[i]), nt, ev, obs)
    last = obs[-1].split(" ")
    if last[0] != "threads" or len(last) != 2 + case["n"]:
        return Result("thread phase did not complete: %s" % obs[-1][:300], nt, ev, obs)
    ev.append("threads:%d" % case["n"])
    for k in range(case["n"]):
        pre = "t%d=" % k
        if not last[2 + k].startswith(pre):
            raise HarnessBug("thread answer format: " + last[2 + k][:80])
        toks = last[2 + k][len(pre):].split("|")
        if len(toks) != len(case["ops"]):
            return Result("thread %d answered %d of %d lookups" % (k, len(toks), len(case["ops"])), nt, ev, obs)
        for j, op in enumerate(case["ops"]):
            want = exp[j](toks[j]) if callable(exp[j]) else exp[j]
            if toks[j] != want:
                return Result("thread %d of %d, lookup %d: %s answered %s, the type declares %s" %
                              (k, case["n"], j, _describe(case, op), toks[j], want), nt, ev, obs)
    return Result(None, nt, ev, obs)


def _run_static(ctx, case, ex=None):
    tname, order = case["type"], case["order"]
    if tname not in _BUILTIN or order not in ORDERS:
        raise HarnessBug("static case " + repr(case))
    if ex is None:
        ex = ctx.executor("ex_type" if order == "warm" else "ex_type_plain")
    obs = ex.run("static %s order=%s" % (tname, order))
    _infra(ex, obs)
    ev = ["static:" + order]
    nt = order != "warm"
    d = _died(ex, obs)
    if d:
        return Result("child executing the case died: %s" % d, nt, ev, obs)
    if len(obs) != 1:
        return Result("executor stopped early: %s" % (obs[-1] if obs else "no output"), nt, ev, obs)
    secs = obs[0].split(" | ")
    head = secs[0].split(" ")
    if head[:3] != ["static", tname, "order=" + order] or len(head) != 5:
        raise HarnessBug("static answer header: " + secs[0][:100])
    if head[3] != "typeof=1":
        return Result("type_of(%s) is not Type (%s)" % (tname, head[3]), nt, ev, obs)
    excluded = 0
    if tname == "Terminal" and head[4].startswith("cast=s"):
        excluded += 2                                    # known finding: message would have to name Terminal
    elif head[4] != "cast=sVV":
        return Result("cast of an object of type %s to (own type, another type, a third type) gave %s, expected "
                      "s(ame object),V(alueError),V(alueError)" % (tname, head[4]), nt, ev, obs)
    body = secs[1:]
    if order == "warm":
        if body and body[-1] == "DIED":
            return Result("warm lookups on %s: child died" % tname, nt, ev, obs)
        if not body or body[-1] != "rec=1":
            return Result("type record of %s (names/instances of its triples) changed during lookups: %s" % (tname, body[-1] if body else ""), nt, ev, obs)
        body = body[:-1]
    if len(body) != len(CLASSES):
        raise HarnessBug("static answer has %d class sections" % len(body))
    nlook = ndecl = 0
    for (cname, nm), sec in zip(CLASSES, body):
        f = sec.split(" ")
        if f[0] != cname:
            raise HarnessBug("class section order: %s" % sec[:60])
        kv = dict(x.split("=", 1) for x in f[1:])
        d = kv["d"] == "1"
        mask = int(kv["k"], 16)
        if (not d and mask) or mask >> nm:
            raise HarnessBug("oracle mask inconsistent: " + sec[:80])
        ndecl += d
        want = {"I": "s" if d else "n", "T": "s" if d else "n", "P": "1" if d else "0", "Q": "1" if d else "0"}
        if order == "warm":
            want["W"] = want["I"]
        for e in ("M", "N"):
            want[e] = "".join("s" if d and (mask >> m) & 1 else "C" for m in range(nm))
        for e in ("R", "S"):
            want[e] = "".join("1" if d and (mask >> m) & 1 else "0" for m in range(nm))
        for e, w in want.items():
            g = kv.get(e)
            if g is None or len(g) != len(w):
                raise HarnessBug("static answer field %s: %s" % (e, sec[:80]))
            nlook += len(w)
            if tname == "Terminal" and e in "MN":        # failing paths name the type in the message: known finding
                excluded += sum(1 for a in w if a == "C")
                g = "".join(b if b == "C" else a for a, b in zip(g, w))
            if g != w:
                m = next(i for i in range(len(w)) if g[i] != w[i])
                legend = "s=declared instance n=NULL o=other pointer C=ClassError E=other exception D=process died 0/1=bool"
                return Result("%s on type %s, class %s%s, order %s: answered %s, raw type record says %s (%s; declared=%d members=%x)" %
                              (ENTRY_NAME[e], tname, cname, (" member %d" % m) if e in "MNRS" else "", order, g[m], w[m], legend, d, mask),
                              nt, ev, obs)
    res = Result(None, nt, ev, obs)
    res.obs = {"lookups": nlook, "declared": ndecl, "excluded": excluded}
    return res


def run_case(ctx, case):
    if case.get("kind") == "static":
        return _run_static(ctx, case)
    if case.get("kind") in ("rt", "threads"):
        return _run_rt(ctx, case)
    raise HarnessBug("case kind " + repr(case.get("kind")))


def SAMPLE(case):
    if case.get("kind") == "static":
        return case
    short = [op if op[0] != "redeclare" else op[:3] + ["<%d instances>" % len(op[3])] + op[3][:4] for op in case["ops"]]
    s = {"kind": case["kind"], "name": case["name"], "size": case["size"], "instances": len(case["inst"]),
         "inst_head": case["inst"][:5], "inst_tail": case["inst"][-2:], "nops": len(case["ops"]), "ops_head": short[:8],
         "redeclare": [x for x in short if x[0] == "redeclare"][:2]}
    s["cfg"] = case.get("cfg", "asan")
    if case["kind"] == "threads":
        s["n"] = case["n"]
        s["rot"] = case["rot"]
    return s


# ---- enumerated part ------------------------------------------------------------------------------------

def _boundary_cases():
    """Run-time types at the size boundaries with one interesting class first / last, all 30 classes probed."""
    out = []
    probes = []
    for c in CN:
        probes += [["q", e, c, 0] for e in "ITPQ"] + [["q", e, c, m] for e in "MNRS" for m in range(NMEM[c])]
    tail = [["cast", "x", "self"], ["cast", "x", "twin"], ["cast", "x", "Int"], ["cast", "s:Int", "Int"],
            ["cast", "s:Int", "self"], ["cast", "rt", "Type"], ["cast", "rt", "self"], ["cast", "o:File", "Type"],
            ["cast", "o:File", "File"], ["cast", "o:UT1", "Type"], ["cast", "s:UT1", "UT1"], ["cast", "s:UT1", "UT0"],
            ["tname"], ["tsize"]]
    fbs = [["fb", c, m] for c in FB_CLASSES for m in FB[c]]
    for n in (0, 1, 2, 19, 20, 255, 256):
        for cls in ("Size", "Cmp", "Pointer", "Show", "Doc", "Mark"):
            for where in ("first", "last"):
                if n == 0 and (cls != "Size" or where != "first"):
                    continue
                fd, inst = [], []
                for i in range(max(0, n - 1)):
                    nme, nm, mask = _filler(i, n)
                    fd.append([nme, nm, "h"])
                    inst.append([nme, mask])
                if n:
                    b = [cls, (1 << NMEM[cls]) - 1 if where == "first" else ((1 << NMEM[cls]) - 1) & 0x55]
                    inst.insert(0 if where == "first" else len(inst), b)
                fd.append(["U0", 2, "r"])
                ops = probes + [["q", "I", "U0", 0], ["q", "M", "U0", 1]]
                if inst:
                    ops += [["q", "I", inst[-1][0], 0], ["q", "T", inst[0][0], 0]]
                ops = ops + probes[:40] + tail
                ops += [["api", c, m] for c in API_CLASSES for m in API[c]] + fbs
                ops += [x for c in ("Cmp", "Size", "Doc") for x in (["aq", "I", c, 0], ["q", "I", c, 0], ["aq", "M", c, 0], ["q", "M", c, 0])]
                out.append({"kind": "rt", "name": "B%d" % n, "size": 16, "fdefs": fd, "inst": inst, "ops": ops})
    # all 30 classes declared, together with 226 fillers, in both orders; also from 16 threads
    for rev in (False, True):
        fd, inst = [], []
        for i in range(226):
            nme, nm, mask = _filler(i, 3)
            fd.append([nme, nm, "h"])
            inst.append([nme, mask])
        bl = [[c, (1 << NMEM[c]) - 1] for c in (reversed(CN) if rev else CN)]
        inst = (bl + inst) if rev else (inst + bl)
        out.append({"kind": "rt", "name": "Full", "size": 8, "fdefs": fd, "inst": inst, "ops": probes + probes[::-1] + tail})
        tops = [p for p in probes if p[1] in "ITMN"][::3] + [["sq", "I", t, c, 0] for t in ("Int", "Array", "Table") for c in CACHED]
        tops = tops[:150] + [["api", c, API[c][0]] for c in API_CLASSES] + fbs + [["oq", "I", t, "Cmp", 0] for t in ("File", "UT1", "Mutex")]
        out.append({"kind": "threads", "name": "Full", "size": 8, "fdefs": fd, "inst": inst, "ops": tops[:200], "n": 16, "rot": 5})
    # in-place re-declaration of the same type object with warm caches: every class declared and looked up through
    # every entry point, then re-declared as (nothing | same classes, new instance objects | reversed, every other
    # class dropped, remaining ones with fewer members | only uncached classes | back to all), probed again each time
    full = [[c, (1 << NMEM[c]) - 1] for c in CN]
    half = [[c, ((1 << NMEM[c]) - 1) & 0x5b] for c in reversed(CN[::2])]
    unc = [[c, (1 << NMEM[c]) - 1] for c in CN if c not in CACHED]
    apis = [["api", c, m] for c in API_CLASSES for m in API[c]]
    for fill in (0, 200):
        fd, finst = [], []
        for i in range(fill):
            nme, nm, mask = _filler(i, 5)
            fd.append([nme, nm, "h"])
            finst.append([nme, mask])
        ops = probes + apis + fbs
        for k, new in enumerate(([], full, half, unc + finst[:50], finst + full, [])):
            ops = ops + [["redeclare", "Re" if k % 2 else "Full", 8 + k, new]] + probes + apis + fbs + tail
        out.append({"kind": "rt", "name": "Full", "size": 8, "fdefs": fd, "inst": full + finst, "ops": ops})
    out.append({"kind": "threads", "name": "Empty", "size": 0, "fdefs": [], "inst": [],
                "ops": [["q", "I", c, 0] for c in CN] + [["q", "M", c, 0] for c in CN], "n": 16, "rot": 3})
    return out


def extra_phase(ctx, tier, stats, sample_fn):
    if os.environ.get("VERIF_C08_ENUM", "1") == "0":     # sensitivity experiments on the generated part only
        return {"fails": [], "extra": {"static_matrix_exhaustive": False, "enumerated_part": "skipped (VERIF_C08_ENUM=0)"}}
    fails = []
    cases = [{"kind": "static", "type": t, "order": o} for o in ORDERS for t in TYPES]
    nw = 8
    pool_ex = {(cfg, i): ctx.executor(cfg, args=("w%d" % i,)) for cfg in ("ex_type", "ex_type_plain") for i in range(nw)}
    chunks = [cases[i::nw] for i in range(nw)]

    def work(i):
        out = []
        for c in chunks[i]:
            ex = pool_ex[("ex_type" if c["order"] == "warm" else "ex_type_plain", i)]
            out.append((c, _run_static(ctx, c, ex)))
        return out

    with cf.ThreadPoolExecutor(nw) as tp:
        results = [r for chunk in tp.map(work, range(nw)) for r in chunk]
    nlook = ndecl = nexcl = 0
    for c, res in results:
        stats.add(c, res, sample_fn)
        if res.fail:
            fails.append((c, res.fail))
        elif isinstance(res.obs, dict):
            nlook += res.obs["lookups"]
            nexcl += res.obs["excluded"]
            if c["order"] == "cold":
                ndecl += res.obs["declared"]
    if not fails and ndecl < 200:
        raise HarnessBug("raw-record oracle found only %d declared (type, class) pairs" % ndecl)
    nb = 0
    for c in _boundary_cases():
        if len(fails) >= MAX_REPORTED:
            break
        res = run_case(ctx, c)
        stats.add(c, res, sample_fn)
        nb += 1
        if res.fail:
            fails.append((c, res.fail))
    extra = {"static_matrix_pairs": len(TYPES) * len(CLASSES), "static_matrix_types": len(TYPES),
             "static_matrix_classes": len(CLASSES), "static_matrix_entry_points": 8, "static_matrix_orders": ORDERS,
             "static_matrix_lookups": nlook, "static_matrix_declared_pairs": ndecl,
             "static_matrix_exhaustive": not fails, "enumerated_failures": len(fails),
             "excluded_known_finding_terminal-in-throw-args": nexcl, "boundary_runtime_type_cases": nb}
    return {"fails": fails[:MAX_REPORTED], "extra": extra}


# throw() packs its arguments into a Terminal-terminated tuple, so a dispatch failure whose message has to name the
# Terminal object (cast(x, Terminal); any failing lookup on an object whose type is Terminal) raises FormatError
# ("Not enough arguments to Format String!") from inside exception_throw instead of ValueError / ClassError.
# Excluded by construction: Terminal is never a cast target, never the type of the object in a failing path.
MAX_REPORTED = 5       # a broken dispatcher fails hundreds of enumerated cases; each report is re-run 3x by the core

KNOWN = [{"key": "terminal-in-throw-args",
          "case": {"kind": "rt", "name": "K", "size": 8, "fdefs": [], "inst": [], "ops": [["cast", "s:Int", "Terminal"]]},
          "what": "cast(<Int object>, Terminal) raises FormatError instead of ValueError: throw()'s argument tuple is cut at the Terminal object"}]
