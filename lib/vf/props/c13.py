"""C13 - threads are isolated from each other; join publishes; Mutex excludes.

Case (JSON):
  {"cfg": "asan"|"plain",        which build of harness/ex_thr.c runs it
   "T": 2..16,                   number of workloads = number of threads in the concurrent phase
   "main": 0|1,                  workload 0 is executed by the main thread (its collector/TLS/exception record)
   "gcthr": 0|1,                 Thread objects are made with new() (collected by main) instead of new_raw()
   "barrier": 0|1,               workloads wait for a common start signal
   "nmutex": 1..3,
   "w": [{"ops": ["cp 0 5 50", ...], "ys": [[opidx, kind, count], ...]}, ...]   workload i = w[i % len(w)]
   "joins": [[len, seed, dkind, dcount, mid, nint, slen, nalloc], ...]          join programs run by main
   "clones": [[j, mode, src, at], ...]   optional: workload j runs in a Thread object cloned from the RUNNING worker
                                 src just before src's op <at>: 1 src does assign(new_raw(Thread), current(Thread)) +
                                 call, joins after its ops; 2 src does copy(current(Thread)) + call + join; 3 main does
                                 assign(new_raw(Thread), src's Thread) + call while src waits; 4 main does copy(...)
                                 5 src makes new(Thread, fn), hands over the gifts of j, collects, call + join
   "gifts": [[j, ngc, churn, [[key, id], ...]], ...]   optional: before workload j is started its parent (main; the
                                 worker src for a mode-5 line; main in every alone-run) stores fresh collector-managed
                                 objects referenced from nowhere else in the thread-local storage of the not-yet-started
                                 managed Thread object (set(thread, "g<key>", obj)), clears its stack, forces ngc
                                 collections and allocates churn garbage objects, then call()s; the child checks each
                                 gift before and after its workload and mixes the ids into its digest
   "restarts": [[j, i], ...]     optional: workload j runs after everything else was joined, by call() on the finished
                                 Thread object of workload i (gifts handed over in between)
   "rep": n}                     optional: run the whole case n times, fail if any run fails (stress cases)

The op language is documented in harness/ex_thr.c (do_op).  The executor first runs every workload alone
(one Cello Thread at a time), then all of them at once, and prints both digests; this module compares them.
"""
import os
import re
from hypothesis import strategies as st
from .. import build
from ..core import Result, HarnessBug

ID = "C13"
LEVEL = "exploration"
BUDGET = {"quick": 300, "thorough": 90000}
WORKERS = {"quick": 4, "thorough": 8}
CONFIRM = (1, 20)
RECYCLE = 300          # the executor leaves after 400 cases; start a fresh one before that

RULE = ("case = T in 2..16 workloads (thread i runs w[i mod len(w)], so some cases give every thread the same program) "
        "over a small op language: container work on Array/List/Table/Tree of Int/String (push/set/rem/get incl. failing "
        "ones/sort/copy/iterate), chains of instrumented objects kept in stack slots + allocation churn (threshold "
        "collections) + forced collections + explicit del, exception trees (nested try/throw/catch with filters of 0..2 "
        "kinds, library-thrown errors, allocation and yields inside try bodies), objects whose destructor allocates "
        "1..3 further collected objects (two more generations, optional spin between births; left as garbage or kept "
        "until the thread ends), thread-local set/get/rem on "
        "current(Thread) with key names shared by all threads, lock sections (lock/unlock, trylock, with-block on 1..3 "
        "mutexes in ascending order, non-atomic counter increment with a generated spin between read and write, "
        "in-section flag; in two of three sections the owner also calls trylock - directly or through a helper - on "
        "mutexes it holds (must report busy) and on one it does not hold (a section of its own if it succeeds; must "
        "succeed when run alone)), join programs (in main and inside workloads: worker writes bytes, Array pushes, a String, "
        "after generated delays), plus a per-workload yield schedule (sched_yield / spin / short sleep before chosen ops), "
        "start barrier on/off, main thread taking part or not, Thread objects collected or raw, ASan or gcc -O0 build; "
        "in about a third of the cases 1..3 workloads run in Thread objects cloned from a running worker (by the worker "
        "itself with assign into new_raw(Thread) and running on beside it, or with copy(current(Thread)) + call + join; "
        "or by the main thread with assign/copy of the worker's Thread object while the worker waits) and are judged "
        "like every other workload; in about a third of the cases 1..3 workloads are started on a collector-managed "
        "Thread object into whose thread-local storage the parent (main, or a worker that then joins at once) has put "
        "1..4 fresh objects it no longer references, followed by forced collections and/or allocation churn in the "
        "parent before call(); some of them on a finished Thread object that is started again; the child must find "
        "every such object alive and identical before and after its workload (ids are part of its digest). "
        "Each workload is first run alone; per-thread result digest and exception-trace digest must be equal in the "
        "concurrent run; ledger: no finalisation on a thread other than the allocator, none twice, nothing reachable "
        "from a slot finalised; when join returns every object a spawned thread allocated (also those born in "
        "destructors) has been finalised exactly once; thread-local values read back are the thread's own; exception depth 0 after every op; "
        "counter == number of increments and flag never seen set; joiner sees every write and the done mark. "
        "non-trivial = measured (global op counter stamped at every op): >= 2 workloads whose [first op, last op] "
        "intervals intersect AND >= 1 collection (forced, or a finaliser run by a threshold collection) or throw whose "
        "stamp lies strictly inside another workload's interval. distinct = distinct case JSON. extra phase: 48 fixed "
        "stress programs (dtoralloc / gift / clone / lock / exception / churn / thread-local / join heavy; T in "
        "2,4,8,16; both builds), each run 3 times.")

ASSUMPTIONS = [
    "every workload is bounded (no waits except the start signal given by main after all call()s returned, and "
    "lock() on mutexes acquired in ascending order and always released): a 60 s silence (HANG) can only be a "
    "deadlock/livelock inside the library and is treated as a failure (and must recur in the 20 re-runs)",
    "the harness samples interleavings (OS scheduler + injected yields); it does not enumerate them",
    "results are compared between 'alone' and 'concurrent' runs of the same build, so behaviour that is wrong in both "
    "(C07's stale 'active' flag, C01/C05 matters) is invisible here by design",
    "objects must stay reachable from the thread's own stack slots: values only reachable from thread-local storage "
    "are not relied on (C01 territory)",
    "while the main thread allocates (main=1) Thread objects are created with new_raw: a collection in main would "
    "otherwise walk the running threads' thread-local tables through Thread_Mark (unsynchronised read of another "
    "thread's Table; see report) - that input class is excluded by construction",
    "data races without an observable wrong result (Type cache fills) are not failures; TSan is not used",
    "completeness of finalisation at join (every object of a spawned thread, incl. those born in destructors, "
    "finalised once by its own thread) is a failure condition: the teardown in Thread_Init_Run sweeps until nothing "
    "is left and the alone-run finalises all of them; not asserted for the main thread's own workload (its collector "
    "lives on)",
    "cloned threads: Thread_Assign copies the source's thread-local table; nothing is asserted about the inherited "
    "user entries (the clone removes them from its own copy before its workload, never dereferencing them); the main "
    "thread only copies a worker's Thread object while that worker waits (an unsynchronised read of a table that is "
    "being rehashed would be the known finding again); a clone made with copy() is collector-managed, so the copying "
    "thread does not allocate while such a clone runs (self-copy: call+join at once; main copy: main=0, gcthr=0, once)",
    "gifts: values are stored in another Thread object's thread-local storage only while that thread is not running "
    "(before call(), or after join() for a restart), and the parent does not allocate while the managed Thread object "
    "runs (main-parent gifts and restarts only with main=0 and without a main copy() clone; a worker parent joins at "
    "once) - otherwise the known finding gc-marks-running-thread-tls would be hit; clearing the parent's stack of "
    "stale references is best effort (a stale register/stack word can keep a gift alive by accident: that can only "
    "hide a defect, never raise an alarm)",
]

NCONT, NOBJ, NKEY = 6, 4, 6

# Known finding gc-marks-running-thread-tls: a collection walks the thread-local Table of every running Thread
# object it can reach (GC_Recurse -> Thread_Mark -> Table_Mark) while the owner rehashes it.  The class
# "main allocates while collected Thread objects of running threads are reachable" is therefore not generated.
# Set to False once /repo is repaired.
EXCLUDE_MAIN_GCTHR = True

# the collector scans the real thread stacks: ASan must not move locals to its fake stack
EXEC_ENV = {"ASAN_OPTIONS": "detect_leaks=0:abort_on_error=0:allocator_may_return_null=1:handle_segv=1:"
                            "detect_stack_use_after_return=0"}
KNOWN_KEY = "gc-marks-running-thread-tls"


def prepare(tier):
    return {"asan": build.executor("asan", "ex_thr"), "plain": build.executor("plain", "ex_thr")}


# ---- exception trees from bytes ----------------------------------------------------------------

def tree_tokens(data, max_nodes=28):
    """Recursive-descent decoding of a byte string into a prefix-notation tree (always well formed)."""
    pos = [0]
    nodes = [0]

    def nxt():
        if pos[0] < len(data):
            b = data[pos[0]]
            pos[0] += 1
            return b
        return 0

    def leaf(b):
        k = b % 8
        if k in (0, 1):
            return ["M", str(b // 8 % 8)]
        if k in (2, 3):
            return ["X", str(b // 8 % 4)]
        if k == 4:
            return ["F", str(1 + b // 8 % 5)]
        if k == 5:
            return ["A", str(1 + (b // 8) * 7 % 120)]
        if k == 6:
            return ["G"] if b // 8 % 4 == 0 else ["Y", str((b // 8 % 4) * 2)]            # sched_yield x n
        return ["Y", str(((1 + b // 8) * 97 % 3000) * 2 + 1)]                               # spin

    def node(depth):
        nodes[0] += 1
        b = nxt()
        if depth >= 4 or nodes[0] >= max_nodes or pos[0] >= len(data):
            return leaf(b)
        sel = b % 4
        if sel == 0:
            return leaf(b // 4)
        if sel == 1:
            n = 2 + (b // 4) % 3
            out = ["S", str(n)]
            for _ in range(n):
                out += node(depth + 1)
            return out
        nf = (b // 4) % 3
        f0 = (b // 12) % 4
        out = ["T", str(nf)] + [str((f0 + i) % 4) for i in range(nf)]
        out += node(depth + 1)
        out += node(depth + 1)
        return out

    return node(0)


# ---- op decoding -------------------------------------------------------------------------------

OPN = ["cn", "cp", "cr", "cg", "cs", "cd", "cc", "cx", "ob", "ch", "ow", "od", "gc", "ex", "ts", "tg", "tr", "lk", "jw", "sb", "da"]

PROFILES = {
    "mixed":  "cn cn cp cp cp cr cg cs cd cc cx ob ch ch ow ow od gc ex ex ts tg tg tr lk lk sb jw da".split(),
    "cont":   "cn cn cp cp cp cp cr cg cg cs cd cd cc cx sb ch gc".split(),
    "churn":  "ob ob ch ch ch ow ow ow od gc gc cn cp cd da".split(),
    "dtor":   "da da da da gc gc ch ow od ob".split(),
    "exc":    "ex ex ex ex ex cg cr ch ow ob gc".split(),
    "tls":    "ts ts tg tg tg tr ch ex gc ow ob".split(),
    "lock":   "lk lk lk lk lk ch cp cn ex".split(),
}


def spin_arg(v):
    """spin encoding used by lk: low bit 1 = busy loop count, 0 = sched_yield count"""
    if v % 4 == 0:
        return (v // 4 % 4) * 2
    return ((v // 4) * 53 % 4000) * 2 + 1


def decode_op(name, a, b, xb, nmutex, maxchurn):
    s = a % NCONT
    if name == "cn":
        return "cn %d %d %d" % (s, (a // NCONT) % 4, b % 2)
    if name == "cp":
        return "cp %d %d %d" % (s, b % 23 - 3, b)
    if name == "cr":
        return "cr %d %d" % (s, b % 23 - 3)
    if name == "cg":
        return "cg %d %d" % (s, b % 25 - 3)
    if name in ("cs", "cd", "cx"):
        return "%s %d" % (name, s)
    if name == "cc":
        return "cc %d %d" % (s, (a // NCONT) % NCONT)
    if name == "ob":
        return "ob %d %d" % (a % NOBJ, 1 + b % 40)
    if name == "ch":
        return "ch %d" % (1 + (b * 37) % maxchurn)
    if name in ("ow", "od"):
        return "%s %d" % (name, a % NOBJ)
    if name == "gc":
        return "gc"
    if name == "ex":
        return "ex " + " ".join(tree_tokens(xb))
    if name == "ts":
        return "ts %d %d" % (a % NKEY, b)
    if name in ("tg", "tr"):
        return "%s %d" % (name, a % NKEY)
    if name == "lk":
        mask = 1 + a % (2 ** nmutex - 1)
        ms = [m for m in range(nmutex) if mask >> m & 1]
        modes = [(a // 8 // (3 ** i)) % 3 for i in range(len(ms))]
        base = "lk %d %d %s" % (spin_arg(b), len(ms), " ".join("%d %d" % (m, md) for m, md in zip(ms, modes)))
        if b % 3 == 0:
            return base
        # same-thread re-entry: trylock (directly / through a helper) on held mutexes (mask) and on one other mutex;
        # never a second blocking lock() or nested with() by the owner - that deadlocks by definition
        remask = 1 + (b // 3) % (2 ** len(ms) - 1)
        other = (b // 5) % (nmutex + 1) - 1
        return base + " %d %d %d" % (remask, (b // 11) % 2, other)
    if name == "jw":
        dk = a % 3
        dc = b % 4 if dk == 0 else ((b * 13) % 3000 if dk == 1 else b % 150)
        return "jw %d %d %d %d %d %d %d %d" % (1 + b % 64, a % 50, dk, dc, b % 5, b % 7, b % 30, a % 9)
    if name == "sb":
        return "sb %d %d" % (a % 20, b)
    if name == "da":
        # da mode n k spin slot: n objects whose destructor allocates k objects of the next generation (two more
        # generations); mode 1 keeps them (chain in an object slot, usually until the thread ends)
        return "da %d %d %d %d %d" % (a % 3 == 0, 5 + b % 36, 1 + (a // 3) % 3, spin_arg(b // 7) if a % 2 else 0, (a // 9) % NOBJ)
    raise HarnessBug("op " + name)


@st.composite
def _workload(draw, nmutex, maxops, maxchurn):
    prof = draw(st.sampled_from(["mixed", "mixed", "cont", "churn", "exc", "tls", "lock", "dtor"]))
    names = PROFILES[prof]
    raw = draw(st.lists(st.tuples(st.sampled_from(names), st.integers(0, 4000), st.integers(0, 4000)),
                        min_size=6, max_size=maxops))
    ops = []
    for (nm, a, b) in raw:
        xb = draw(st.binary(min_size=2, max_size=20)) if nm == "ex" else b""
        ops.append(decode_op(nm, a, b, xb, nmutex, maxchurn))
    n = len(ops)
    ys = draw(st.lists(st.tuples(st.integers(0, n - 1), st.integers(0, 9), st.integers(0, 4000)), max_size=min(12, n)))
    yl = []
    for (at, k, cnt) in sorted(ys):
        if k < 4:
            yl.append([at, 0, 1 + cnt % 5])
        elif k < 9:
            yl.append([at, 1, 10 + cnt * 5])
        else:
            yl.append([at, 2, 1 + cnt % 80])
    return {"ops": ops, "ys": yl}


@st.composite
def _case(draw, tier):
    quick = tier == "quick"
    T = draw(st.sampled_from([2, 2, 3, 3, 4, 4, 5, 6, 8, 8, 12, 16]))
    nmutex = draw(st.integers(1, 3))
    maxops = 40 if quick else draw(st.sampled_from([40, 40, 80, 200]))
    maxchurn = 300 if quick else draw(st.sampled_from([300, 300, 2000]))
    nw = draw(st.sampled_from([1, 1, 2, 3, T, T])) if T > 4 else draw(st.sampled_from([1, T, T, T]))
    nw = min(nw, T)
    w = [draw(_workload(nmutex, maxops, maxchurn)) for _ in range(nw)]
    main = draw(st.sampled_from([0, 0, 1]))
    gcthr = draw(st.integers(0, 1))
    if main and EXCLUDE_MAIN_GCTHR:
        gcthr = 0
    joins = draw(st.lists(st.tuples(st.integers(1, 96), st.integers(0, 50), st.integers(0, 2), st.integers(0, 3000),
                                    st.integers(0, 5), st.integers(0, 8), st.integers(0, 40), st.integers(0, 12)),
                          max_size=2))
    jl = []
    for (ln, seed, dk, dc, mid, nint, slen, nalloc) in joins:
        if dk == 0:
            dc = dc % 4
        elif dk == 2:
            dc = dc % 150
        jl.append([ln, seed, dk, dc, mid, nint, slen, nalloc])
    clones = []
    first = 1 if main else 0
    if T - first >= 2 and draw(st.integers(0, 2)) == 0:
        ncl = draw(st.integers(1, min(3, T - first - 1)))
        used4 = False
        for k in range(ncl):
            j = T - 1 - k
            src = draw(st.integers(first, T - 1 - ncl))
            nops = len(w[src % len(w)]["ops"])
            mode = draw(st.sampled_from([1, 1, 2, 3, 4]))
            if mode == 4 and (main or gcthr or used4):
                mode = 3
            used4 = used4 or mode == 4
            clones.append([j, mode, src, draw(st.integers(0, nops))])
    gifts, restarts = [], []
    taken = set(c[0] for c in clones)

    def gift(j):
        keys = draw(st.lists(st.integers(0, 9), min_size=1, max_size=4, unique=True))
        ngc = draw(st.integers(0, 2))
        churn = draw(st.sampled_from([0, 40, 300, 900]))
        if ngc == 0 and churn == 0:
            ngc = 1
        return [j, ngc, churn, [[k, draw(st.integers(1, 999))] for k in keys]]

    if draw(st.integers(0, 2)) == 0:
        free = [i for i in range(first, T) if i not in taken and not any(c[2] == i for c in clones)]
        srcs = [i for i in range(first, T) if i not in taken]
        # (a) a worker is the parent (mode 5): allowed in every configuration
        if len(free) >= 2 and draw(st.booleans()):
            j = free.pop()
            src = draw(st.sampled_from([i for i in srcs if i != j]))
            nops = len(w[src % len(w)]["ops"])
            clones.append([j, 5, src, draw(st.integers(0, nops))])
            taken.add(j)
            gifts.append(gift(j))
        # (b) main is the parent: main must stay idle while managed Thread objects run
        if not main and not any(c[1] == 4 for c in clones):
            normal = [i for i in range(T) if i not in taken]
            for j in draw(st.lists(st.sampled_from(normal), max_size=3, unique=True)) if normal else []:
                gifts.append(gift(j))
            # (c) restart of a finished Thread object, with gifts
            cand = [i for i in range(T) if i not in taken and not any(c[2] == i for c in clones)]
            if len(cand) >= 2 and draw(st.booleans()):
                j = cand[-1]
                i = draw(st.sampled_from(cand[:-1]))
                restarts.append([j, i])
                if not any(g[0] == j for g in gifts):
                    gifts.append(gift(j))
    return {"cfg": draw(st.sampled_from(["asan", "plain"])), "T": T, "main": main, "gcthr": gcthr,
            "barrier": draw(st.sampled_from([0, 1, 1, 1])), "nmutex": nmutex, "w": w, "joins": jl, "clones": clones,
            "gifts": gifts, "restarts": restarts}


def strategy(tier):
    return _case(tier)


def SAMPLE(case):
    return {"cfg": case["cfg"], "T": case["T"], "main": case["main"], "gcthr": case["gcthr"], "barrier": case["barrier"],
            "nmutex": case["nmutex"], "workloads": len(case["w"]), "ops_per_workload": [len(x["ops"]) for x in case["w"]],
            "first_ops": case["w"][0]["ops"][:6], "yields": case["w"][0]["ys"][:4], "joins": case["joins"],
            "clones": case.get("clones", []), "gifts": case.get("gifts", []), "restarts": case.get("restarts", [])}


# ---- running -----------------------------------------------------------------------------------

def encode(case):
    T = case["T"]
    lines = ["cfg %d %d %d %d %d" % (T, case["main"], case["gcthr"], case["nmutex"], case["barrier"])]
    for i in range(T):
        w = case["w"][i % len(case["w"])]
        lines.append("t %d" % i)
        for o in w["ops"]:
            lines.append("o " + o)
        for (at, k, cnt) in w["ys"]:
            lines.append("y %d %d %d" % (at, k, cnt))
    for j in case.get("joins", []):
        lines.append("j " + " ".join(str(x) for x in j))
    for c in case.get("clones", []):
        lines.append("s " + " ".join(str(x) for x in c))
    for (j, ngc, churn, ent) in case.get("gifts", []):
        lines.append("g %d %d %d %d %s" % (j, ngc, churn, len(ent), " ".join("%d %d" % (k, i) for k, i in ent)))
    for (j, i) in case.get("restarts", []):
        lines.append("r %d %d" % (j, i))
    return "\n".join(lines)


_THR = re.compile(r"^thr (\d+) sdig=(\w+) sxdig=(\w+)(?: cdig=(\w+) cxdig=(\w+) allocs=(\d+) sfins=(\d+) cfins=(\d+) tryfail=(\d+))? sbad=(.*?) ;cbad=(.*)$")


def _judge(case, obs):
    """-> (fail, nontrivial, events)"""
    ev = ["cfg=" + case["cfg"], "T=%d" % case["T"]]
    if case["main"]:
        ev.append("main-thread-takes-part")
    if case["gcthr"]:
        ev.append("thread-objects-collected")
    for c in case.get("clones", []):
        ev.append("clone-mode-%d" % c[1])
    if case.get("gifts"):
        ev.append("gifts-in-thread-local-storage")
    if case.get("restarts"):
        ev.append("finished-thread-started-again")
    if not obs:
        return "executor produced no output", False, ev
    last = obs[-1]
    if last.startswith("HARNESS-BUG") or any(o.startswith("HARNESS-BUG") for o in obs):
        raise HarnessBug("; ".join(o for o in obs if o.startswith("HARNESS-BUG")))
    if last.startswith("CRASH"):
        return "executor died during the case: " + last, False, ev + ["crash"]
    if last == "HANG":
        return "no answer within the case timeout (every workload is bounded: deadlock/livelock in the library): HANG", False, ev + ["hang"]
    fail = None
    nthr = 0
    nt = False
    for o in obs:
        m = _THR.match(o)
        if m:
            nthr += 1
            i, sd, sx, cd, cx, allocs, sf, cf, tryfail, sbad, cbad = m.groups()
            if sbad != "-" and not fail:
                fail = "workload %s run alone: %s" % (i, sbad)
            if cbad != "-" and not fail:
                fail = "workload %s in the concurrent run: %s" % (i, cbad)
            if cd is None:
                continue
            if sx != cx and not fail:
                fail = ("workload %s: exception trace digest %s in the concurrent run, %s when run alone "
                        "(control flow diverted)" % (i, cx, sx))
            if sd != cd and not fail:
                fail = "workload %s: result digest %s in the concurrent run, %s when run alone" % (i, cd, sd)
            if int(tryfail):
                ev.append("trylock-found-mutex-busy")
            if not (case["main"] and i == "0") and (int(cf) != int(allocs) or int(sf) != int(allocs)) and not fail:
                fail = ("workload %s: %s objects allocated, %s finalised when joined in the concurrent run, %s when run "
                        "alone" % (i, allocs, cf, sf))
        elif o.startswith("lock "):
            f = dict(x.split("=") for x in o.split()[2:])
            if f["counter"] != f["expect"] and not fail:
                fail = "mutex %s: shared counter is %s after %s guarded increments" % (o.split()[1], f["counter"], f["expect"])
            if f.get("reentered", "0") != "0" and not fail:
                fail = ("mutex %s: trylock by the thread that already holds it reported success %s time(s): two critical "
                        "sections on one Mutex open at once" % (o.split()[1], f["reentered"]))
            if f["flagseen"] != "0" and not fail:
                fail = "mutex %s: in-section flag seen set on entry %s time(s)" % (o.split()[1], f["flagseen"])
            if int(f["expect"]):
                ev.append("guarded-increments")
        elif o.startswith("join "):
            if o.split(" ", 2)[2] != "ok" and not fail:
                fail = "join program %s: %s" % (o.split()[1], o.split(" ", 2)[2])
            ev.append("join-program")
        elif o.startswith("ovl "):
            f = dict((k, int(v)) for k, v in (x.split("=") for x in o.split()[1:]))
            ev.append("maxpar=%d" % f["maxpar"])
            if f["pairs"]:
                ev.append("overlap-measured")
            if f["gc_in"]:
                ev.append("collection-inside-overlap")
            if f["thr_in"]:
                ev.append("throw-inside-overlap")
            nt = f["pairs"] >= 1 and (f["gc_in"] + f["thr_in"]) >= 1
        elif o.startswith("bad "):
            if not fail:
                fail = o[4:]
        else:
            raise HarnessBug("unparsed executor line: " + o)
    if nthr != case["T"] and not fail:
        fail = "executor reported %d of %d workloads" % (nthr, case["T"])
    return fail, nt, sorted(set(ev))


_FAILED_BEFORE = [False]     # per process: has run_case already reported a failure?


def _once(ctx, case, text):
    ex = ctx.executor(case["cfg"], env=EXEC_ENV)
    n = getattr(ex, "_c13n", 0) + 1
    fresh = n >= RECYCLE or ex.p is None
    ex._c13n = 1 if fresh else n
    obs = ex.run(text, fresh=fresh)
    fail, nt, ev = _judge(case, obs)
    if fail:
        ex.close()                        # the executor leaves after reporting a failed check
    return Result(fail, nt, ev, obs)


def run_case(ctx, case):
    """One execution per repetition.  On a tree where the property holds no execution ever fails, so what
    follows a failure cannot raise a false alarm: the first failure a process sees is reported as it is;
    afterwards (Hypothesis is shrinking then) a case only counts as failing if it fails in at least 2 of up
    to 5 executions, so that the shrinker does not walk into a variant that fails once in a thousand runs
    and cannot be confirmed.  Confirmation (core, fresh process) is again 'fails at least once in 20'."""
    text = encode(case)
    res = None
    for _ in range(int(case.get("rep", 1))):
        r = _once(ctx, case, text)
        if r.fail:
            if not _FAILED_BEFORE[0]:
                _FAILED_BEFORE[0] = True
                return r
            again = 0
            for _k in range(4):
                if _once(ctx, case, text).fail:
                    again += 1
                    break
            if again:
                return r
            r = Result(None, r.nontrivial, r.events + ["failed-once-not-again-while-shrinking"], r.obs)
        if res is None or (r.nontrivial and not res.nontrivial):
            res = r
    return res


# ---- fixed stress programs ----------------------------------------------------------------------

def _stress(kind, T, cfg):
    nm = 2
    if kind == "lock":
        ops = []
        for r in range(12):
            ops += ["lk %d 1 0 %d %d %d %d" % (2 * (300 + 170 * r) + 1, r % 3, 1, r % 2, (r % 3) if r % 3 else -1),
                    "lk %d 2 0 %d 1 %d %d %d %d" % ((r % 3) * 2, (r + 1) % 3, r % 3, 1 + r % 3, (r + 1) % 2, 2 if r % 2 else -1),
                    "lk 1 1 1 %d" % ((r + 2) % 3)]
        w = [{"ops": ops, "ys": [[3, 0, 1], [9, 1, 500], [20, 0, 2]]}]
    elif kind == "exc":
        ops = []
        for r in range(10):
            ops += ["ex T 0 S 4 M 1 T 1 %d S 3 Y %d A 15 X %d M 2 Y 2 M 3 M 7" % (r % 4, 2 * (100 + 90 * r) + 1, (r + 1) % 4),
                    "ex T 2 0 1 S 3 T 0 S 2 Y 2 F 3 S 2 M 4 X %d M 5 M 6 M 8" % (r % 4),
                    "cg %d 30" % (r % NCONT), "ch 40"]
        w = [{"ops": ops, "ys": [[1, 0, 2], [7, 1, 900], [15, 0, 1], [30, 1, 2000]]}]
    elif kind == "churn":
        ops = ["cn 0 0 0", "cn 1 2 1"]
        for r in range(8):
            ops += ["ob %d %d" % (r % NOBJ, 5 + 4 * r), "ch 150", "ow %d" % (r % NOBJ), "cp 0 %d 1" % r, "cp 1 %d %d" % (r, r * 7),
                    "gc", "ow %d" % ((r + 1) % NOBJ), "cd 0", "cd 1", "od %d" % (r % NOBJ), "sb 6 %d" % r]
        ops = [o.replace("ch 150", "ch 80") for o in ops]
        w = [{"ops": ops, "ys": [[4, 0, 1], [12, 1, 1500], [40, 0, 3]]}]
    elif kind == "tls":
        ops = []
        for r in range(12):
            ops += ["ts %d %d" % (r % NKEY, r), "tg %d" % (r % NKEY), "ts %d %d" % ((r + 1) % NKEY, 100 + r), "tg %d" % ((r + 1) % NKEY),
                    "tr %d" % (r % NKEY), "tg %d" % (r % NKEY), "ch 20"]
        w = [{"ops": ops, "ys": [[2, 0, 1], [10, 1, 800], [33, 0, 2]]}]
    elif kind == "dtoralloc":
        # every thread: a kept chain of objects with allocating destructors (finalised by the teardown sweeps at
        # thread exit) + rounds of such garbage finalised by forced and threshold collections; all threads run the
        # same program from a common start so that their sweeps and teardowns overlap
        ops = ["da 1 20 3 %d 0" % (2 * 60 + 1)]
        for r in range(8):
            ops += ["da 0 %d 3 %d 0" % (24 + 4 * (r % 4), 2 * (40 + 30 * r) + 1 if r % 2 else 0), "gc", "ch 25", "ow 0"]
        ops += ["da 1 30 2 0 1", "da 0 40 3 0 0"]
        w = [{"ops": ops, "ys": [[3, 0, 1], [9, 1, 400], [17, 0, 2], [25, 1, 900]]},
             {"ops": ops[:13] + ["ch 60"] + ops[13:], "ys": [[5, 1, 300], [21, 0, 1]]}]
        return {"cfg": cfg, "T": T, "main": 0, "gcthr": 0, "barrier": 1, "nmutex": 1, "w": w, "joins": [], "rep": 3}
    elif kind == "gift":
        # every workload gets 3 gifts; parents: main (even workloads), the preceding worker (odd workloads, mode 5);
        # the last workload runs on the finished Thread object of workload 0
        ops = ["ob 0 8", "ch 120"]
        for r in range(6):
            ops += ["ow 0", "ch 150", "gc" if r % 2 else "ch 30", "ts 1 %d" % r, "tg 1"]
        w = [{"ops": ops, "ys": [[4, 0, 1], [11, 1, 700]]}]
        gifts = [[j, 1 + j % 2, [0, 400, 1200][j % 3], [[(j + q) % 10, 100 * j + q + 1] for q in range(3)]] for j in range(T)]
        clones = [[j, 5, j - 1, 2 + j % 7] for j in range(1, T - 1, 2)]
        restarts = [[T - 1, 0]]
        return {"cfg": cfg, "T": T, "main": 0, "gcthr": 0, "barrier": 1, "nmutex": 1, "w": w, "joins": [], "clones": clones,
                "gifts": gifts, "restarts": restarts, "rep": 3}
    elif kind == "clone":
        # worker 0 keeps a chain alive and churns; the other workloads run in clones of it, keep chains alive
        # and keep walking them while worker 0 (and they) collect
        src = ["ts 1 5", "ob 0 12", "ch 200"]
        for r in range(10):
            src += ["ow 0", "ch 250", "tg 1", "gc" if r % 3 == 0 else "ch 60"]
        cl = ["ob 1 20", "tg 1"]
        for r in range(10):
            cl += ["ow 1", "ch 40", "ex T 0 S 2 A 10 X %d M 1" % (r % 4), "ow 1", "ts 1 %d" % r, "tg 1"]
        ys = [[k, 1, 1500] for k in range(3, len(cl), 4)]
        w = [{"ops": src, "ys": [[5, 0, 1], [20, 1, 800]]}] + [{"ops": cl, "ys": ys}]
        # even workloads are sources, every odd workload j runs in a clone of worker j-1
        modes = [1, 2, 3, 4 if cfg == "plain" else 1, 1, 3, 2, 1]
        clones = [[j, modes[(j // 2) % len(modes)], j - 1, 3 + (j // 2) % 5] for j in range(1, T, 2)]
        return {"cfg": cfg, "T": T, "main": 0, "gcthr": 0, "barrier": 1, "nmutex": 1, "w": w, "joins": [], "clones": clones, "rep": 3}
    else:  # join
        ops = ["jw 48 7 1 2500 3 5 20 4", "ch 60", "jw 16 9 0 3 1 2 0 0", "ow 0", "jw 64 11 2 60 0 6 33 8"]
        w = [{"ops": ops, "ys": []}]
    joins = [[64, 3, 1, 2999, 4, 6, 25, 6], [32, 4, 2, 120, 0, 3, 10, 2]] if kind == "join" else []
    main = 1 if kind in ("exc", "churn") and T in (4, 16) else 0
    return {"cfg": cfg, "T": T, "main": main, "gcthr": 0 if main else (1 if T == 8 else 0), "barrier": 1, "nmutex": 3 if kind == "lock" else nm,
            "w": w, "joins": joins, "rep": 3}


STRESS_SHAPES = [(2, "asan"), (2, "plain"), (4, "asan"), (8, "plain"), (16, "asan"), (16, "plain")]


def extra_phase(ctx, tier, stats, sample_fn):
    """Fixed stress programs.  core confirms extra-phase failures 3/3, which a schedule-dependent failure
    cannot promise, so every stress case carries its own repetition count ("rep")."""
    fails = []
    n = 0
    if os.environ.get("VERIF_C13_NOSTRESS"):          # sensitivity experiments: generated cases only
        return {"fails": [], "extra": {"stress_programs": 0}}
    for kind in ("dtoralloc", "gift", "clone", "lock", "exc", "churn", "tls", "join"):
        for (T, cfg) in STRESS_SHAPES:
            case = _stress(kind, T, cfg)
            res = run_case(ctx, case)
            stats.add(case, res, sample_fn)
            n += 1
            if res.fail:
                fails.append((case, "[stress %s T=%d %s] %s" % (kind, T, cfg, res.fail)))
                break
        if fails:
            break
    return {"fails": fails, "extra": {"stress_programs": n}}


def known_case(cfg="plain"):
    """main (workload 0) allocates 12000 objects; 2 threads whose Thread objects were made with new() store and
    remove 6 thread-local values 25 times.  Expected on a healthy library: digests equal.  Observed: main's
    allocation raises ValueError (type_of: bad magic number) / ASan: out-of-bounds read in Table_Mark."""
    tl = []
    for r in range(25):
        tl += ["ts %d %d" % (k, r) for k in range(NKEY)] + ["tr %d" % k for k in range(NKEY)]
    return {"cfg": cfg, "T": 3, "main": 1, "gcthr": 1, "barrier": 0, "nmutex": 1,
            "w": [{"ops": ["ch 300"] * 40, "ys": []}, {"ops": tl, "ys": []}, {"ops": tl, "ys": []}], "joins": [], "rep": 40}


# The reproduction is only active when known_findings.txt lists the key (core reports an unlisted failing
# reproduction as a VIOLATION); until then it is available as known_case() / regress-style replay file.
KNOWN = []
try:
    from ..core import load_known as _lk
    if KNOWN_KEY in _lk().get(ID, {}):
        KNOWN = [{"key": KNOWN_KEY, "case": known_case(),
                  "what": "a collection in one thread walks the thread-local Table of running Thread objects it can reach"}]
except Exception:
    KNOWN = []
