"""C20 - File streams round-trip data and refuse use when closed.

A case is a list of abstract *requests*; `plan()` turns it deterministically into a concrete, valid
stdio op list (inserting the seek/flush the C standard demands between writes and reads on update
streams, clipping offsets into the file, allocating File objects on first use ...) and, with a
Python byte-string model of every path and stream, into the expected observation of every op.
Because any request list is made valid this way, Hypothesis can shrink freely.

harness/ex_file.c applies every op to the Cello File and to a twin plain-stdio FILE* on a second
temp file and prints both results; fopen/fclose of the library are interposed (-Wl,--wrap).

Oracles (all three must agree):
  Cello vs twin   - return values, bytes, stell/ftell, seof/feof, final file contents
  Cello vs model  - same, plus: ops on a File that is not open raise IOError and call neither fopen
                    nor fclose; open/close accounting per op and in total
  twin vs model   - a disagreement is a defect of this harness: HarnessBug (exit 3), never a VIOLATION
"""
import os, shutil, hashlib, tempfile
from hypothesis import strategies as st
from .. import build, core
from ..core import Result, HarnessBug

ID = "C20"
ALT_BUILD = True          # a quarter of the workers run the gcc -O0 build (core.py)
LEVEL = "exploration"
BUDGET = {"quick": 1500, "thorough": 300000}
WORKERS = {"quick": 4, "thorough": 16}
BUFSIZ = 8192          # glibc BUFSIZ (reported by the executor and cross-checked)
BLK = 4096             # st_blksize = the buffer size glibc really uses for regular files
MAXFILE = 65536
MAXOPS = 60
SENT = 0xAA
NF, NP = 2, 3

RULE = ("case = <= 60 requests over 2 File objects and 3 temp paths (open via sopen on a heap File, new(File,path,mode), "
        "sopen on a stack-class $(File, NULL), or a stack-class File around a stream the caller opened, in r w a "
        "r+ w+ a+ and b variants, swrite 0..3*BUFSIZ bytes biased to 0,1,4095..4097,8191..8193,24576, sread, sseek "
        "(3 origins; targets inside the file biased to chunk boundaries, beyond the end up to 2^40 with reads (EOF) "
        "and writes (zero gap, file <= 64 KiB) there, and before the start, which fails), stell, seof, sflush, "
        "print_to/scan_from records of Int (%$, %li, and %hhd / %hd with signed char / short values)/String(<= 100 chars)/Float, one scan_from over two adjacent records, "
        "sclose, reopen, with blocks (nested <= 2), del (stack-class Files: sclose), every op on closed Files), "
        "made valid stdio by plan(); executed on the Cello File and a stdio twin. non-trivial = (>= 2 non-empty "
        "writes with a seek or (re)open between them and a read-back of >= 2 bytes strictly spanning a boundary "
        "between two write chunks) or (an op applied to an existing File that is not open). distinct = distinct case JSON.")
ASSUMPTIONS = ["glibc stdio: fopen(a) reports ftell = size, fopen(a+) starts reading at 0; fread/fwrite on a stream "
               "opened without that direction fail with the error flag (mirrored from the twin)",
               "two File objects never have the same path open at the same time (excluded by construction)",
               "print_to/scan_from use value classes that round-trip by specification of Show/Look: Int via %$ and "
               "%li, %hhd (signed char values) and %hd (short values), String via %$ (no escape characters) and %s (no white space), Float k/64 via %$, %f, %lf; other "
               "formats belong to C15",
               "after output on an update stream a flush or seek precedes input and vice versa (C11 7.21.5.3p7); "
               "sflush is only issued on streams whose last operation was not input",
               "a seek to a negative position fails in the C library and leaves the stream unchanged; sseek may report it "
               "(IOError) or not - only the agreement of stell/seof with the twin afterwards is demanded",
               "stack-class Files ($(File, NULL), $(File, fp) as the library itself uses for stdout) are closed with "
               "sclose and never passed to del",
               "print_to / scan_from with an empty format on a File that is not open do not reach the File and do not "
               "raise in the pinned tree; not generated (every record has at least one conversion or literal)",
               "fclose failure (disk full) is injected through the interposed fclose (request `failclose`): the stream is "
               "gone whatever fclose returns (C11 7.21.5.1), so the File must count as not open afterwards; whether that "
               "sclose raises IOError is left open"]

_known = core.load_known().get(ID, {})
KEY_CLOSE = "sclose-on-closed"
EXCLUDE_CLOSE_ON_CLOSED = KEY_CLOSE in _known

MODES_OK = ["w", "r", "a", "w+", "r+", "a+", "wb", "rb", "ab", "w+b", "wb+", "r+b", "rb+", "a+b", "ab+"]
MODES_BAD = ["z", "q+"]


def prepare(tier):
    return {"ex_file": build.executor("asan", "ex_file",
                                      extra_ldflags=["-Wl,--wrap=fopen", "-Wl,--wrap=fclose"])}


# ---- data ------------------------------------------------------------------------------------

def gen_bytes(seed, n):
    """Deterministic byte string; seeds 0..3 are degenerate patterns, others a hash stream
    (every byte value incl. 0 occurs)."""
    if n <= 0:
        return b""
    if seed == 0:
        return bytes(n)
    if seed == 1:
        return b"\xff" * n
    if seed == 2:
        return b"\n" * n
    if seed == 3:
        return bytes((i & 0xff) for i in range(n))
    out = bytearray()
    ctr = 0
    while len(out) < n:
        out += hashlib.blake2b(b"%d:%d" % (seed, ctr), digest_size=64).digest()
        ctr += 1
    return bytes(out[:n])


def _hex(b):
    return b.hex() if b else "-"


def _unhex(s):
    return b"" if s == "-" else bytes.fromhex(s)


# ---- model -------------------------------------------------------------------------------------

class MPath:
    def __init__(self):
        self.exists = False
        self.content = bytearray()
        self.chunks = []       # list of (start, end, write-id) in final layout, non-overlapping, sorted
        self.records = {}      # offset -> (items, nbytes)

    def truncate(self):
        self.exists = True
        self.content = bytearray()
        self.chunks = []
        self.records = {}

    def put(self, pos, data, wid):
        n = len(data)
        if n == 0:
            return
        end = pos + n
        if pos > len(self.content):
            # writing after a seek beyond the end: the gap reads as zero bytes (a chunk of its own, id 0)
            gap = (len(self.content), pos, 0)
            self.content.extend(bytes(pos - len(self.content)))
            self.chunks.append(gap)
        self.content[pos:end] = data
        new = []
        for (a, b, w) in self.chunks:
            if b <= pos or a >= end:
                new.append((a, b, w))
            else:
                if a < pos:
                    new.append((a, pos, w))
                if b > end:
                    new.append((end, b, w))
        new.append((pos, end, wid))
        new.sort()
        self.chunks = new
        for off in list(self.records):
            ln = self.records[off][1]
            if off < end and off + ln > pos:
                del self.records[off]

    def bounds(self):
        """offsets where two different write chunks meet"""
        out = []
        for i in range(1, len(self.chunks)):
            if self.chunks[i - 1][1] == self.chunks[i][0] and self.chunks[i - 1][2] != self.chunks[i][2]:
                out.append(self.chunks[i][0])
        return out


class MStream:
    def __init__(self, pid, mode):
        base = mode.replace("b", "")
        self.pid = pid
        self.mode = mode
        self.readable = base in ("r", "r+", "w+", "a+")
        self.writable = base in ("w", "a", "r+", "w+", "a+")
        self.append = base[0] == "a"
        self.update = "+" in base
        self.pos = 0
        self.eof = False
        self.last = None      # 'r' | 'w' | None  (for the read/write alternation rule)
        self.err = False      # sticky error indicator (set by I/O in a direction the stream lacks)


class Step:
    __slots__ = ("line", "kind", "f", "exc", "exp", "acct", "probe", "closed_use", "note", "data", "exc_ok")

    def __init__(self, line, kind, f=None, exc=None, exp=None, acct=(0, 0, 0), probe=None, closed_use=False, note=None,
                 data=None, exc_ok=None):
        self.line = line
        self.kind = kind
        self.f = f
        self.exc = exc          # expected exception name or None
        self.exc_ok = exc_ok    # or: the set of admissible outcomes where the statement leaves it open
        self.exp = exp or {}    # expected fields (Cello side and twin side)
        self.acct = acct        # (fo, fx, fc)
        self.probe = probe      # (pos, eof) expected after the op when the File is open
        self.closed_use = closed_use
        self.note = note
        self.data = data


class Plan:
    def __init__(self, case):
        self.paths = [MPath() for _ in range(NP)]
        self.present = [False] * NF      # False | "heap" | "stack" (a stack-class File is never del'd)
        self.stream = [None] * NF
        self.steps = []
        self.withs = []          # stack of [fi, remaining requests]
        self.wid = 0
        self.events = set()
        self.n_writes = 0
        self.sep_since_write = False     # a seek or (re)open happened since the last non-empty write
        self.writes_separated = False    # >= 2 non-empty writes with a seek/(re)open between them
        self.span_read = False
        self.closed_use = False
        self.total_open = 0
        self.total_close = 0
        self.probe = 1 if case.get("probe", True) else 0
        self.excl = EXCLUDE_CLOSE_ON_CLOSED and not case.get("known")
        self.steps.append(Step("begin %d" % self.probe, "begin"))
        for req in case["ops"][:MAXOPS]:
            self.request(req)
            self.tick()
        while self.withs:
            self.end_with()
        # final: remaining Files are deleted by the executor
        self.final_del = []
        for f in range(NF):
            if self.present[f]:
                was = self.stream[f] is not None
                self.final_del.append((f, 1 if was else 0))
                if was:
                    self.total_close += 1
                self.stream[f] = None
                self.present[f] = False

    # -- helpers --
    def add(self, *a, **k):
        s = Step(*a, **k)
        self.steps.append(s)
        return s

    def pr(self, f):
        s = self.stream[f]
        return (s.pos, s.eof) if s is not None else None

    def size(self, f):
        return len(self.paths[self.stream[f].pid].content)

    def ensure(self, f):
        if not self.present[f]:
            self.add("alloc %d" % f, "alloc", f, exp={"open": "0"})
            self.present[f] = "heap"

    def closed_step(self, line, kind, f, exp=None):
        """an op on an existing File that is not open: IOError, nothing else happens"""
        self.closed_use = True
        self.events.add("closed:" + kind)
        self.add(line, kind, f, exc="IOError", exp=exp or {}, closed_use=True)

    def in_with(self, f):
        return any(w[0] == f for w in self.withs)

    def tick(self):
        for w in self.withs:
            w[1] -= 1
        while self.withs and self.withs[-1][1] <= 0:
            self.end_with()

    def end_with(self):
        f, _ = self.withs.pop()
        if self.stream[f] is not None:
            self.events.add("with-exit-closes")
            self.stream[f] = None
            self.total_close += 1
            self.add("endwith", "endwith", f, acct=(0, 0, 1))
        else:
            self.closed_use = True
            self.events.add("closed:endwith")
            self.add("endwith", "endwith", f, exc="IOError", closed_use=True)

    def sync_for_read(self, f, how):
        s = self.stream[f]
        if s.last == "w":
            if how:
                self.do_flush(f)
            else:
                self.do_seek(f, 1, s.pos)

    def sync_for_write(self, f):
        s = self.stream[f]
        if s.last == "r" and not s.eof:
            self.do_seek(f, 1, s.pos)

    # -- concrete ops on an open stream --
    def do_seek(self, f, origin, target, clip=True):
        s = self.stream[f]
        size = self.size(f)
        if clip:
            target = max(0, min(size, target))
        base = 0 if origin == 0 else s.pos if origin == 1 else size
        if target < 0:
            # fseek to a negative position fails and leaves the stream as it was (C library); whether sseek
            # reports that is not stated: no exception or IOError.  What must hold is the agreement of
            # stell / seof with the twin afterwards (probe).
            self.events.add("seek-negative")
            return self.add("sseek %d %d %d" % (f, target - base, origin), "sseek", f, exp={"tr": "-1"},
                            probe=self.pr(f), exc_ok=(None, "IOError"))
        if target > size:
            self.events.add("seek-beyond-end" if target < 2 ** 31 else "seek-beyond-2^31")
        s.pos = target
        s.eof = False
        s.last = None
        self.sep_since_write = True
        self.add("sseek %d %d %d" % (f, target - base, origin), "sseek", f, exp={"tr": "0"}, probe=self.pr(f))

    def do_flush(self, f):
        s = self.stream[f]
        s.last = None
        sz = str(self.size(f))
        self.add("sflush %d" % f, "sflush", f, exp={"tr": "0", "sz": sz, "tsz": sz}, probe=self.pr(f))

    def do_write_bytes(self, f, data):
        """model effect of writing data at the stream position; returns nothing"""
        s = self.stream[f]
        p = self.paths[s.pid]
        if not data:
            return                 # fwrite(buf, 0, 1, f) does not touch the stream
        if s.append:
            s.pos = len(p.content)
        elif s.pos > len(p.content):
            self.events.add("write-leaves-gap")
        self.wid += 1
        p.put(s.pos, data, self.wid)
        s.pos += len(data)
        s.last = "w"
        if data:
            self.n_writes += 1
            if self.n_writes >= 2 and self.sep_since_write:
                self.writes_separated = True
            self.sep_since_write = False

    # -- requests --
    def request(self, req):
        op = req[0]
        getattr(self, "rq_" + op)(*req[1:])

    def rq_open(self, f, pid, mode, how):
        other = 1 - f
        busy = self.stream[other].pid if self.stream[other] is not None else None
        if pid == busy:
            pid = [p for p in range(NP) if p != busy][pid % (NP - 1)]
        if how in ("new", "stack", "adopt") and self.in_with(f):
            how = "sopen"
        p = self.paths[pid]
        base = mode.replace("b", "")
        ok = mode in MODES_OK and (base[0] != "r" or p.exists)
        if how == "adopt" and not ok:
            how = "stack"                    # nothing to adopt: a closed stack-class File, then a failing sopen
        if how in ("new", "stack", "adopt"):
            if self.present[f]:
                self.rq_del(f)
            if how == "stack":
                self.add("salloc %d" % f, "salloc", f, exp={"open": "0"})
                self.present[f] = "stack"
                self.events.add("stack-file")
                how = "sopen"
        else:
            self.ensure(f)
        if self.excl and not ok and self.in_with(f):
            return self.rq_tell(f)           # would leave the with block on a closed File (known finding)
        fc = 0
        if self.stream[f] is not None:       # reopen closes the previous stream first
            fc = 1
            self.total_close += 1
            self.stream[f] = None
            self.events.add("reopen")
        self.sep_since_write = True
        line = "%s %d %d %s" % (how if how in ("new", "adopt") else "sopen", f, pid, mode)
        if ok:
            if base[0] == "w":
                p.truncate()
            p.exists = True
            s = MStream(pid, mode)
            if base == "a":
                s.pos = len(p.content)        # glibc: ftell reports the end for "a", 0 for "a+"
            self.stream[f] = s
            self.present[f] = "stack" if how == "adopt" else (self.present[f] or "heap")
            self.total_open += 1
            self.events.add("mode:" + base)
            if how == "adopt":
                self.events.add("adopted-stream")
            exp = {"open": "1", "topen": "1"}
            if how not in ("new", "adopt"):
                exp["ret"] = "self"
            self.add(line, how, f, exp=exp, acct=(1, 0, fc), probe=self.pr(f))
        else:
            self.events.add("open-fails")
            exp = {"open": "0", "topen": "0"}
            if how != "new":
                exp["ret"] = "-"
            # new(File, ..) that throws never hands the object out: the slot stays empty
            self.add(line, how, f, exc="IOError", exp=exp, acct=(0, 1, fc))

    def rq_write(self, f, n, seed, wrongdir):
        self.ensure(f)
        s = self.stream[f]
        if s is None:
            data = gen_bytes(seed, min(n, 64))
            return self.closed_step("swrite %d %s" % (f, _hex(data)), "swrite", f, {"r": "0", "tr": "-"})
        if not s.writable:
            if not wrongdir:
                return self.rq_tell(f)
            data = gen_bytes(seed, min(n, 16))
            self.events.add("wrong-direction")
            s.err = s.err or bool(data)
            return self.add("swrite %d %s" % (f, _hex(data)), "swrite", f, exc="IOError" if data else None,
                            exp={"r": "0", "tr": "0"}, probe=self.pr(f))
        self.sync_for_write(f)
        start = len(self.paths[s.pid].content) if s.append else s.pos
        n = max(0, min(n, MAXFILE - start))
        data = gen_bytes(seed, n)
        self.do_write_bytes(f, data)
        r = "1" if n else "0"
        self.add("swrite %d %s" % (f, _hex(data)), "swrite", f, exp={"r": r, "tr": r}, probe=self.pr(f))

    def rq_writehex(self, f, hx):
        data = bytes.fromhex(hx)
        self.ensure(f)
        s = self.stream[f]
        if s is None:
            return self.closed_step("swrite %d %s" % (f, _hex(data)), "swrite", f, {"r": "0", "tr": "-"})
        if not s.writable:
            return self.rq_tell(f)
        self.sync_for_write(f)
        start = len(self.paths[s.pid].content) if s.append else s.pos
        data = data[:max(0, MAXFILE - start)]
        self.do_write_bytes(f, data)
        r = "1" if data else "0"
        self.add("swrite %d %s" % (f, _hex(data)), "swrite", f, exp={"r": r, "tr": r}, probe=self.pr(f))

    def rq_read(self, f, n, wrongdir, how=0):
        self.ensure(f)
        s = self.stream[f]
        if s is None:
            return self.closed_step("sread %d %d" % (f, min(n, 64)), "sread", f,
                                    {"r": "0", "tr": "-", "data": bytes([SENT]) * min(n, 64)})
        if not s.readable:
            if not wrongdir:
                return self.rq_tell(f)
            n = min(n, 16)
            self.events.add("wrong-direction")
            s.err = s.err or bool(n)
            return self.add("sread %d %d" % (f, n), "sread", f, exc="IOError" if n else None,
                            exp={"r": "0", "tr": "0", "terr": "1" if s.err else "0", "teof": "1" if s.eof else "0",
                                 "data": bytes([SENT]) * n}, probe=self.pr(f))
        self.sync_for_read(f, how)
        self.do_read(f, n)

    def do_read(self, f, n):
        s = self.stream[f]
        p = self.paths[s.pid]
        start = s.pos
        got = bytes(p.content[start:start + n])
        s.pos += len(got)
        if len(got) < n:
            s.eof = True
        if n:
            s.last = "r"           # fread(buf, 0, 1, f) does not touch the stream
        if len(got) >= 2:
            for b in p.bounds():
                if start < b < start + len(got):
                    self.span_read = True
                    self.events.add("span-read")
                    break
        r = "1" if (n and len(got) == n) else "0"
        self.add("sread %d %d" % (f, n), "sread", f,
                 exp={"r": r, "tr": r, "terr": "1" if s.err else "0", "teof": "1" if s.eof else "0",
                      "data": got + bytes([SENT]) * (n - len(got))}, probe=self.pr(f))

    def _target(self, f, sel):
        s = self.stream[f]
        size = self.size(f)
        k = sel[0]
        if k == "abs":
            t = sel[1]
        elif k == "end":
            t = size - sel[1]
        elif k == "cur":
            t = s.pos + sel[1]
        elif k == "bound":
            bs = self.paths[s.pid].bounds()
            t = (bs[sel[1] % len(bs)] + sel[2]) if bs else sel[1]
        elif k == "far":                   # beyond the end of the file (allowed: reads see EOF, writes leave a gap)
            return size + sel[1] if sel[1] < 2 ** 20 else sel[1]
        elif k == "neg":                   # before the start of the file: the seek fails
            return -sel[1]
        else:
            raise HarnessBug("selector " + str(sel))
        return max(0, min(size, t))

    def rq_seek(self, f, origin, sel):
        self.ensure(f)
        s = self.stream[f]
        if s is None:
            off = sel[1] if sel[0] in ("abs", "cur") else 0
            return self.closed_step("sseek %d %d %d" % (f, off, origin), "sseek", f, {"tr": "-"})
        self.do_seek(f, origin, self._target(f, sel), clip=sel[0] not in ("far", "neg"))

    def rq_span(self, f, j, before, after):
        """read-back spanning a chunk boundary"""
        self.ensure(f)
        s = self.stream[f]
        if s is None or not s.readable:
            return self.rq_read(f, before + after, False)
        bs = self.paths[s.pid].bounds()
        if not bs:
            return self.rq_read(f, before + after, False)
        b = bs[j % len(bs)]
        self.do_seek(f, 0, b - before)
        self.do_read(f, before + after)

    def rq_tell(self, f):
        self.ensure(f)
        s = self.stream[f]
        if s is None:
            return self.closed_step("stell %d" % f, "stell", f, {"r": "-7", "tr": "-"})
        self.add("stell %d" % f, "stell", f, exp={"r": str(s.pos), "tr": str(s.pos)}, probe=self.pr(f))

    def rq_eof(self, f):
        self.ensure(f)
        s = self.stream[f]
        if s is None:
            return self.closed_step("seof %d" % f, "seof", f, {"r": "0", "tr": "-"})
        e = "1" if s.eof else "0"
        self.add("seof %d" % f, "seof", f, exp={"r": e, "tr": e}, probe=self.pr(f))

    def rq_flush(self, f):
        self.ensure(f)
        s = self.stream[f]
        if s is None:
            return self.closed_step("sflush %d" % f, "sflush", f, {"tr": "-"})
        if not s.writable or s.last == "r":
            return self.rq_tell(f)
        self.do_flush(f)

    # print/scan items: ["i", v] ["d", v] ["h", v] (%hhd) ["H", v] (%hd) ["q", hex] ["s", hex] ["f", k] ["g", k] ["G", k] ["l", hex] ["p"]
    @staticmethod
    def _render(items):
        out = bytearray()
        words = []
        for it in items:
            k = it[0]
            if k == "l":
                b = bytes.fromhex(it[1])
                out += b
                words.append("l:" + it[1])
            elif k == "p":
                out += b"%"
                words.append("p")
            elif k in ("i", "d", "h", "H"):
                out += b"%d" % it[1]
                words.append("%s:%d" % (k, it[1]))
            elif k == "q":
                out += b'"' + bytes.fromhex(it[1]) + b'"'
                words.append("q:" + it[1])
            elif k == "s":
                out += bytes.fromhex(it[1])
                words.append("s:" + it[1])
            elif k in ("f", "g", "G"):
                x = it[1] / 64.0
                out += ("%f" % x).encode()
                import struct
                bits = struct.unpack("<Q", struct.pack("<d", x))[0]
                words.append("%s:%016x" % ("f" if k == "f" else "g", bits))
            else:
                raise HarnessBug("item " + str(it))
        return bytes(out), words

    @staticmethod
    def _scan_words(items):
        import struct
        words, vals = [], []
        for it in items:
            k = it[0]
            if k == "l":
                words.append("l:" + it[1])
            elif k == "p":
                words.append("p")
            elif k in ("i", "d", "h", "H"):
                words.append(k)
                vals.append("i%d" % it[1])
            elif k in ("q", "s"):
                words.append(k)
                vals.append("s" + (it[1] if it[1] else "-"))
            else:
                words.append(k)
                vals.append("f%016x" % struct.unpack("<Q", struct.pack("<d", it[1] / 64.0))[0])
        return words, vals

    def rq_print(self, f, items):
        self.ensure(f)
        s = self.stream[f]
        items = [list(i) for i in items] + [["l", "0a"]]
        data, words = self._render(items)
        line = "print %d %s" % (f, " ".join(words))
        if s is None:
            return self.closed_step(line, "print", f, {"r": "0", "tr": "-"})
        if not s.writable:
            return self.rq_tell(f)
        self.sync_for_write(f)
        start = len(self.paths[s.pid].content) if s.append else s.pos
        if start + len(data) > MAXFILE:
            return self.rq_tell(f)
        self.do_write_bytes(f, data)
        self.paths[s.pid].records[start] = (items[:-1], len(data))
        self.events.add("print")
        self.add(line, "print", f, exp={"r": str(len(data)), "tr": str(len(data))}, probe=self.pr(f))

    def rq_scan(self, f, which, how=0):
        self.ensure(f)
        s = self.stream[f]
        if s is None:
            return self.closed_step("scan %d %s" % (f, ["i", "l:20 d", "q", "s", "f"][which % 5]), "scan", f, None)
        recs = self.paths[s.pid].records
        if not s.readable or not recs:
            return self.rq_tell(f)
        off = sorted(recs)[which % len(recs)]
        items, ln = recs[off]
        if how and (off + ln) in recs:
            # two records written one after the other, read back by one scan_from call: the newline that ends
            # the first one is a white-space directive of the format
            items2, ln2 = recs[off + ln]
            items = list(items) + [["l", "0a"]] + list(items2)
            ln += ln2
            self.events.add("scan-two-records")
        self.do_seek(f, 0, off)
        words, vals = self._scan_words(items)
        s.pos = off + ln - 1
        s.last = "r"
        self.events.add("scan")
        v = ",".join(vals)
        self.add("scan %d %s" % (f, " ".join(words)), "scan", f, exp={"v": v, "tv": v, "tfail": "-1"}, probe=self.pr(f))

    def rq_close(self, f):
        self.ensure(f)
        if self.excl and (self.stream[f] is None or self.in_with(f)):
            return self.rq_tell(f)
        if self.stream[f] is None:
            return self.closed_step("sclose %d" % f, "sclose", f, {"open": "0"})
        self.stream[f] = None
        self.total_close += 1
        self.events.add("sclose")
        self.add("sclose %d" % f, "sclose", f, exp={"open": "0"}, acct=(0, 0, 1))

    def rq_failclose(self, f):
        """fault injection (see ASSUMPTIONS): the C library reports a failure from the fclose that
        sclose performs.  The stream is gone whatever fclose returns (C11 7.21.5.1), so the File must count as not
        open afterwards; whether sclose raises is left open."""
        self.ensure(f)
        if self.stream[f] is None or self.in_with(f):
            return self.rq_tell(f)
        self.add("failclose", "failclose")
        self.stream[f] = None
        self.total_close += 1
        self.events.add("fclose-fails")
        self.add("sclose %d" % f, "sclose", f, exp={"open": "0"}, acct=(0, 0, 1), exc_ok=(None, "IOError"))

    def rq_del(self, f):
        if self.in_with(f):
            return self.rq_close(f)
        self.ensure(f)
        if self.present[f] == "stack":
            # never del'd: closed with sclose when open, then dropped by the executor
            if self.stream[f] is not None:
                self.stream[f] = None
                self.total_close += 1
                self.events.add("sclose")
                self.add("sclose %d" % f, "sclose", f, exp={"open": "0"}, acct=(0, 0, 1))
            self.present[f] = False
            return self.add("forget %d" % f, "forget", f, exp={"open": "0"})
        fc = 0
        if self.stream[f] is not None:
            fc = 1
            self.total_close += 1
            self.stream[f] = None
            self.events.add("del-closes")
        self.present[f] = False
        self.add("del %d" % f, "del", f, acct=(0, 0, fc))

    def rq_with(self, f, k):
        if len(self.withs) >= 2:
            return self.rq_tell(f)
        self.ensure(f)
        if self.excl and (self.stream[f] is None or self.in_with(f)):
            return self.rq_tell(f)           # the block would be left on a closed File (known finding)
        self.add("with %d" % f, "with", f, exp={"h": "self"})
        self.withs.append([f, k + 1])     # +1: the tick() after this request consumes one


# ---- running -------------------------------------------------------------------------------

def _parse(line):
    toks = line.split(" ")
    d = {"_flags": []}
    if toks[0] == "ok":
        d["_exc"] = None
        rest = toks[1:]
    elif toks[0] == "exc":
        d["_exc"] = toks[1]
        rest = toks[2:]
    else:
        d["_exc"] = "?"
        rest = toks
    for t in rest:
        if "=" in t:
            k, v = t.split("=", 1)
            d[k] = v
        elif t:
            d["_flags"].append(t)
    return d


def _short(s, n=80):
    s = str(s)
    return s if len(s) <= n else s[:n] + "...(%d chars)" % len(s)


def _listing(steps, upto):
    out = []
    for s in steps[1:upto + 1]:
        out.append(_short(s.line, 60))
    return "; ".join(out)


def run_case(ctx, case):
    # one scratch directory per evaluation, removed whatever happens to the executor (core re-runs
    # a crashing case in a second child, so the executor cannot be trusted to clean up itself)
    tmpdir = tempfile.mkdtemp(prefix="vfc20-", dir="/tmp")
    try:
        return _run_case(ctx, case, tmpdir)
    finally:
        shutil.rmtree(tmpdir, ignore_errors=True)


def _run_case(ctx, case, tmpdir):
    plan = Plan(case)
    steps = plan.steps
    ex = ctx.executor("ex_file")
    # a fresh executor every 1500 cases bounds its memory (sanitizer quarantine); the executor never
    # exits by itself, which would race with the next case being written
    n = getattr(ex, "vf_cases", 0) + 1
    fresh = n > 1500
    ex.vf_cases = 1 if fresh else n
    obs = ex.run("\n".join([steps[0].line + " " + tmpdir] + [s.line for s in steps[1:]]), fresh=fresh)
    ev = sorted(plan.events)
    nontrivial = bool((plan.writes_separated and plan.span_read) or plan.closed_use)

    def fail(i, msg):
        where = "op #%d `%s`" % (i, _short(steps[i].line, 70)) if i is not None else "end of case"
        return Result("%s: %s  [ops: %s]" % (where, msg, _listing(steps, i if i is not None else len(steps) - 1)),
                      nontrivial, ev, None)

    # the executor died or hung?
    if obs and (obs[-1].startswith("CRASH") or obs[-1] == "HANG"):
        i = len(obs) - 1
        if i < len(steps):
            return fail(i, "executor %s" % _short(obs[-1], 300))
        return fail(None, "executor %s while finishing the case" % _short(obs[-1], 300))
    for o in obs:
        if o.startswith("HARNESS-BUG"):
            raise HarnessBug("ex_file: %s (case %s)" % (o, [s.line for s in steps]))
    if len(obs) < len(steps):
        raise HarnessBug("short answer from ex_file: %d lines for %d ops" % (len(obs), len(steps)))

    b0 = _parse(obs[0])
    if b0.get("bufsiz") != str(BUFSIZ):
        raise HarnessBug("BUFSIZ is %s, strategy assumes %d" % (b0.get("bufsiz"), BUFSIZ))

    for i in range(1, len(steps)):
        s = steps[i]
        o = _parse(obs[i])
        # -- twin against model: the harness must be self-consistent
        for k in ("tr", "terr", "teof", "topen", "tv", "tfail", "tsz"):
            if k in s.exp and o.get(k) != s.exp[k]:
                raise HarnessBug("twin disagrees with model at op #%d `%s`: %s=%s, model says %s (case %s)" %
                                 (i, _short(s.line), k, _short(o.get(k)), _short(s.exp[k]), [x.line for x in steps[:i + 1]]))
        if "data" in s.exp and o.get("tdata") not in ("x",):
            want = s.exp["data"]
            td = o.get("tdata")
            cd = _unhex(o.get("data", "-"))
            tw = cd if td == "=" else _unhex(td)
            if tw != want:
                raise HarnessBug("twin read differs from model at op #%d `%s` (case %s)" % (i, s.line, [x.line for x in steps[:i + 1]]))
        if s.probe is not None and "p" in o and not o["p"].startswith("exc"):
            pp = o["p"].split(",")
            if (int(pp[1]), int(pp[3])) != (s.probe[0], 1 if s.probe[1] else 0):
                raise HarnessBug("twin ftell/feof %s,%s differ from model %s at op #%d `%s` (case %s)" %
                                 (pp[1], pp[3], s.probe, i, _short(s.line), [_short(x.line) for x in steps[:i + 1]]))
        # -- Cello against model and twin
        if s.exc_ok is not None:
            if o["_exc"] not in s.exc_ok:
                return fail(i, "expected one of %s, observed %s" % (sorted(str(x) for x in s.exc_ok), o["_exc"]))
        elif o["_exc"] != s.exc:
            if s.closed_use:
                return fail(i, "File is not open: expected IOError, observed %s" % (o["_exc"] or "no exception"))
            return fail(i, "expected %s, observed %s" % (s.exc or "no exception", o["_exc"] or "no exception"))
        if o.get("bad", "0") != "0":
            return fail(i, "fclose was called on a %s handle (%s time(s))" % (o.get("badk", "?"), o["bad"]))
        acct = (int(o.get("fo", 0)), int(o.get("fx", 0)), int(o.get("fc", 0)))
        if acct != tuple(s.acct):
            return fail(i, "fopen ok/failed, fclose calls during the op = %s, expected %s" % (acct, tuple(s.acct)))
        if o["_flags"] and any(fl in ("OVERRUN", "STILL-OPEN-AFTER-WITH", "probe-touched-fopen-fclose") for fl in o["_flags"]):
            return fail(i, "executor flag %s" % o["_flags"])
        if "depth" in o:
            return fail(i, "exception depth %s after the op" % o["depth"])
        for k in ("r", "open", "ret", "h", "v", "sz"):
            if k in s.exp and o.get(k) != s.exp[k]:
                if k == "r" and s.kind == "scan":
                    continue
                return fail(i, "%s=%s, expected %s (twin: %s)" % (k, _short(o.get(k)), _short(s.exp[k]),
                                                                 _short(o.get("t" + k, "n/a"))))
        if "data" in s.exp:
            cd = _unhex(o.get("data", "-"))
            if cd != s.exp["data"]:
                want = s.exp["data"]
                j = next((x for x in range(min(len(cd), len(want))) if cd[x] != want[x]), min(len(cd), len(want)))
                return fail(i, "bytes read differ from the bytes written at offset %d of the read: got %s expected %s" %
                            (j, cd[j:j + 8].hex(), want[j:j + 8].hex()))
        if s.probe is not None and plan.probe:
            p = o.get("p")
            if p is None:
                return fail(i, "File should be open after the op but the handle is closed")
            if p.startswith("exc"):
                return fail(i, "stell/seof on the open File raised %s" % p[4:])
            pp = p.split(",")
            if pp[0] != pp[1] or int(pp[0]) != s.probe[0]:
                return fail(i, "after the op stell=%s, ftell(twin)=%s, model=%d" % (pp[0], pp[1], s.probe[0]))
            if pp[2] != pp[3]:
                return fail(i, "after the op seof=%s, feof(twin)=%s" % (pp[2], pp[3]))

    # -- end of case
    tail = obs[len(steps):]
    ti = 0
    for (f, fc) in plan.final_del:
        if ti >= len(tail) or not tail[ti].startswith(("ok final del %d" % f, "exc ")):
            raise HarnessBug("missing final del line: %s" % tail)
        o = _parse(tail[ti])
        ti += 1
        if o["_exc"] is not None:
            return fail(None, "final del (stack-class File: sclose) of File %d raised %s" % (f, o["_exc"]))
        if o.get("bad", "0") != "0":
            return fail(None, "final del (stack-class File: sclose) of File %d called fclose on a %s handle" % (f, o.get("badk")))
        if int(o.get("fc", 0)) != fc or int(o.get("fo", 0)) != 0:
            return fail(None, "final del (stack-class File: sclose) of File %d (%s): %s fclose calls, expected %d" % (f, "open" if fc else "closed", o.get("fc"), fc))
    if ti >= len(tail) or not tail[ti].startswith("final acct"):
        raise HarnessBug("missing final acct line: %s" % tail)
    a = _parse(tail[ti])
    ti += 1
    if (int(a["opens"]), int(a["closes"]), int(a["still_open"]), int(a["bad"])) != (plan.total_open, plan.total_close, 0, 0):
        return fail(None, "stream accounting: opens=%s closes=%s still_open=%s bad=%s, expected opens=%d closes=%d still_open=0 bad=0" %
                    (a["opens"], a["closes"], a["still_open"], a["bad"], plan.total_open, plan.total_close))
    for pid in range(NP):
        if ti >= len(tail) or not tail[ti].startswith("final file %d" % pid):
            raise HarnessBug("missing final file line: %s" % [_short(t) for t in tail])
        o = _parse(tail[ti])
        ti += 1
        p = plan.paths[pid]
        c, t = o["c"], o["t"]
        tw = c if t == "=" else t
        want = bytes(p.content).hex() if p.exists else "absent"
        if p.exists and not p.content:
            want = "-"
        if tw != want:
            raise HarnessBug("twin file %d differs from the model (case %s)" % (pid, [_short(x.line) for x in steps]))
        if c != want:
            if c == "absent" or want == "absent":
                return fail(None, "file %d: %s but expected %s" % (pid, "absent" if c == "absent" else "present", "absent" if want == "absent" else "present"))
            cb, wb = _unhex(c), _unhex(want)
            j = next((x for x in range(min(len(cb), len(wb))) if cb[x] != wb[x]), min(len(cb), len(wb)))
            return fail(None, "final contents of file %d differ from twin and model: length %d vs %d, first difference at offset %d" %
                        (pid, len(cb), len(wb), j))
    return Result(None, nontrivial, ev, None)


def SAMPLE(case):
    try:
        return [s.line if len(s.line) < 50 else s.line[:50] + "..." for s in Plan(case).steps[1:]]
    except Exception:
        return case


# ---- strategy --------------------------------------------------------------------------------

_FI = st.sampled_from([0, 0, 0, 1])
_PID = st.integers(0, NP - 1)
_EDGE = [0, 1, 2, BLK - 1, BLK, BLK + 1, BUFSIZ - 1, BUFSIZ, BUFSIZ + 1, 2 * BUFSIZ, 3 * BUFSIZ, BLK - 3, BLK - 9, BUFSIZ - 5]
_SIZE = st.one_of(st.sampled_from(_EDGE), st.integers(0, 64), st.integers(0, 3 * BUFSIZ))
_SEED = st.one_of(st.integers(4, 255), st.integers(0, 3))
_MODE_W = st.sampled_from(["w+", "w+", "w", "wb", "w+b", "wb+", "a+", "a", "ab+"])
_MODE_R = st.sampled_from(["r", "r", "rb", "r+", "r+b", "rb+", "a+"])
_MODE = st.one_of(st.sampled_from(MODES_OK), _MODE_W, st.sampled_from(MODES_BAD))
_HOW = st.sampled_from(["sopen", "sopen", "new", "new", "stack", "adopt"])
_SEL = st.one_of(
    st.tuples(st.just("abs"), st.one_of(st.sampled_from(_EDGE), st.integers(0, MAXFILE))),
    st.tuples(st.just("end"), st.one_of(st.sampled_from([0, 0, 1, BLK, BUFSIZ]), st.integers(0, 3 * BUFSIZ))),
    st.tuples(st.just("cur"), st.one_of(st.sampled_from([0, -1, 1, -BLK, BLK, -BUFSIZ, BUFSIZ]), st.integers(-64, 64))),
    st.tuples(st.just("bound"), st.integers(0, 7), st.sampled_from([0, 0, -1, 1, -2])),
    st.tuples(st.just("far"), st.one_of(st.sampled_from([1, 2, BLK, BUFSIZ, 2 ** 31 - 1, 2 ** 31, 2 ** 32 + 5, 2 ** 40]),
                                        st.integers(1, 3 * BUFSIZ))),
    st.tuples(st.just("neg"), st.sampled_from([1, 1, 2, BLK, 2 ** 31, 2 ** 32 + 1])),
).map(list)

_SEL_OUT = st.one_of(
    st.tuples(st.just("far"), st.sampled_from([1, BLK, 2 ** 31 - 1, 2 ** 31, 2 ** 32 + 5, 2 ** 40])),
    st.tuples(st.just("neg"), st.sampled_from([1, 2, 2 ** 31, 2 ** 32 + 1]))).map(list)

_QCH = [c for c in range(0x20, 0x7f) if chr(c) not in '"\\\'?'] + [0x80, 0xe9, 0xff]
_SCH = [c for c in range(0x21, 0x7f) if chr(c) not in '"\\\'?%'] + [0x80, 0xff]
_LIT_FIRST = st.sampled_from(["", "", "78203d20", "3a"])                 # "", "x = ", ":"
_SEP_ANY = st.sampled_from(["20", "0a", "2c20", "20697320", "3a20", "09", "P"])   # " " "\n" ", " " is " ": " "\t" %
_SEP_WS = st.sampled_from(["20", "0a", "20697320", "09"])
_INTV = st.one_of(st.integers(-20, 20), st.sampled_from([2**31 - 1, -2**31, 2**31, 2**63 - 1, -2**63, 10**18]),
                  st.integers(-2**63, 2**63 - 1))


def _LONGTXT(alphabet):
    """texts of 30..100 characters (the twin's scan buffer holds 100), lengths around 64 preferred; two draws
    (length, seed) instead of one per character keep generation cheap"""
    n = st.one_of(st.sampled_from([63, 64, 65, 100]), st.integers(30, 100))

    def text(t):
        raw = gen_bytes(4 + t[1], t[0])
        return bytes(alphabet[c % len(alphabet)] for c in raw).hex()
    return st.tuples(n, st.integers(0, 50)).map(text)


def _value():
    return st.one_of(
        st.tuples(st.sampled_from(["i", "d"]), _INTV),
        # the narrow integer conversions: %hhd with a signed char value, %hd with a short value
        st.tuples(st.just("h"), st.one_of(st.integers(-128, 127), st.sampled_from([-128, -1, 127]))),
        st.tuples(st.just("H"), st.one_of(st.integers(-32768, 32767), st.sampled_from([-32768, -129, -1, 128, 32767]))),
        st.tuples(st.just("q"), st.lists(st.sampled_from(_QCH), max_size=12).map(lambda l: bytes(l).hex())),
        st.tuples(st.just("s"), st.lists(st.sampled_from(_SCH), min_size=1, max_size=12).map(lambda l: bytes(l).hex())),
        st.tuples(st.just("q"), _LONGTXT(_QCH)),
        st.tuples(st.just("s"), _LONGTXT(_SCH)),
        st.tuples(st.sampled_from(["f", "g", "G"]), st.integers(-2**20, 2**20)),
    ).map(list)


@st.composite
def _record(draw):
    items = []
    lit = draw(_LIT_FIRST)
    if lit:
        items.append(["l", lit])
    n = draw(st.integers(1, 4))
    for i in range(n):
        v = draw(_value())
        items.append(v)
        if i + 1 < n:
            sep = draw(_SEP_WS if v[0] == "s" else _SEP_ANY)
            items.append(["p"] if sep == "P" else ["l", sep])
    return items


def _req():
    return st.one_of(
        st.tuples(st.just("write"), _FI, _SIZE, _SEED, st.booleans()),
        st.tuples(st.just("write"), _FI, _SIZE, _SEED, st.booleans()),
        st.tuples(st.just("writehex"), _FI, st.binary(max_size=6).map(lambda b: b.hex())),
        st.tuples(st.just("read"), _FI, _SIZE, st.booleans(), st.integers(0, 1)),
        st.tuples(st.just("read"), _FI, _SIZE, st.booleans(), st.integers(0, 1)),
        st.tuples(st.just("span"), _FI, st.integers(0, 7), st.sampled_from([1, 1, 2, 7, BLK, BUFSIZ]), st.sampled_from([1, 1, 3, BLK + 1, 2 * BUFSIZ])),
        st.tuples(st.just("span"), _FI, st.integers(0, 7), st.integers(1, 64), st.integers(1, 64)),
        st.tuples(st.just("seek"), _FI, st.integers(0, 2), _SEL),
        st.tuples(st.just("seek"), _FI, st.integers(0, 2), _SEL),
        st.tuples(st.just("tell"), _FI),
        st.tuples(st.just("eof"), _FI),
        st.tuples(st.just("flush"), _FI),
        st.tuples(st.just("print"), _FI, _record()),
        st.tuples(st.just("scan"), _FI, st.integers(0, 7), st.integers(0, 1)),
        st.tuples(st.just("close"), _FI),
        st.tuples(st.just("failclose"), _FI),
        st.tuples(st.just("open"), _FI, _PID, _MODE, _HOW),
        st.tuples(st.just("open"), _FI, _PID, _MODE_R, _HOW),
        st.tuples(st.just("with"), _FI, st.integers(0, 5)),
        st.tuples(st.just("del"), _FI),
    ).map(list)


def _closed_req(f):
    """one op of every kind, for use after close"""
    return st.one_of(
        st.just(["write", f, 3, 7, False]), st.just(["write", f, 0, 7, False]),
        st.just(["read", f, 4, False, 0]), st.just(["read", f, 0, False, 0]),
        st.tuples(st.just("seek"), st.just(f), st.integers(0, 2), st.just(["abs", 0])).map(list),
        st.just(["tell", f]), st.just(["eof", f]), st.just(["flush", f]),
        st.tuples(st.just("print"), st.just(f), _record()).map(list),
        st.tuples(st.just("scan"), st.just(f), st.integers(0, 4), st.just(0)).map(list),
        st.just(["close", f]), st.just(["with", f, 0]), st.just(["with", f, 1]),
    )


def _flat(ll):
    return [x for l in ll for x in l]


def _chunk(f, pid):
    """one write (or print) followed by an optional separator: seek, close+open, flush, reopen"""
    w = st.one_of(
        st.tuples(st.just("write"), st.just(f), _SIZE, _SEED, st.just(False)).map(list),
        st.tuples(st.just("write"), st.just(f), _SIZE, _SEED, st.just(False)).map(list),
        st.tuples(st.just("write"), st.just(f), _SIZE, _SEED, st.just(False)).map(list),
        st.tuples(st.just("print"), st.just(f), _record()).map(list))
    amode = st.sampled_from(["a", "a+", "r+", "ab", "r+b"])
    sep = st.one_of(
        st.just([]),
        st.tuples(st.just("seek"), st.just(f), st.integers(0, 2), _SEL).map(lambda t: [list(t)]),
        st.just([["seek", f, 2, ["end", 0]]]),
        st.tuples(st.integers(0, 2), st.sampled_from([1, 2, 7, BLK, BUFSIZ + 1])).map(
            lambda t: [["seek", f, t[0], ["far", t[1]]]]),            # the next write leaves a gap of zero bytes
        st.tuples(amode, _HOW).map(lambda t: [["close", f], ["open", f, pid, t[0], t[1]]]),
        st.just([["flush", f]]),
        amode.map(lambda m: [["open", f, pid, m, "sopen"]]))          # reopen while open
    one = st.tuples(w, sep).map(lambda t: [t[0]] + t[1])
    # two records one after the other (read back later by one scan_from call), or a write ending just before a
    # stdio block boundary followed by a record that straddles it
    two = st.tuples(_record(), _record()).map(lambda t: [["print", f, t[0]], ["print", f, t[1]]])
    edge = st.tuples(st.sampled_from([BLK - 3, BLK - 9, BUFSIZ - 5, 2 * BLK - 2]), _SEED, _record()).map(
        lambda t: [["write", f, t[0], t[1], False], ["print", f, t[2]]])
    return st.one_of(one, one, one, two, edge)


def _back(f, pid):
    """get back to the data: seek to the start, close + open for reading (same or other File object), reopen, with"""
    return st.one_of(
        st.just((f, [["seek", f, 0, ["abs", 0]]])),
        st.tuples(_MODE_R, _HOW).map(lambda t: (f, [["close", f], ["open", f, pid, t[0], t[1]]])),
        _MODE_R.map(lambda m: (f, [["open", f, pid, m, "sopen"]])),
        st.tuples(_MODE_R, _HOW).map(lambda t: (1 - f, [["close", f], ["open", 1 - f, pid, t[0], t[1]]])),
        st.integers(0, 3).map(lambda k: (f, [["seek", f, 0, ["abs", 0]], ["with", f, k]])))


def _readop(f):
    return st.one_of(
        st.tuples(st.just("read"), st.just(f), _SIZE, st.just(False), st.integers(0, 1)),
        st.tuples(st.just("span"), st.just(f), st.integers(0, 7), st.sampled_from([1, 2, 5, BLK, BUFSIZ]), st.sampled_from([1, 3, 9, BLK + 1, 2 * BUFSIZ])),
        st.tuples(st.just("span"), st.just(f), st.integers(0, 7), st.integers(1, 64), st.integers(1, 64)),
        st.tuples(st.just("scan"), st.just(f), st.integers(0, 7), st.integers(0, 1)),
        st.tuples(st.just("scan"), st.just(f), st.integers(0, 7), st.integers(0, 1)),
        st.tuples(st.just("write"), st.just(f), st.integers(0, 8), _SEED, st.just(True)),     # wrong direction on read-only streams
        st.tuples(st.just("seek"), st.just(f), st.integers(0, 2), _SEL_OUT),
        st.sampled_from([("tell", f), ("eof", f)]),
        st.tuples(st.just("seek"), st.just(f), st.integers(0, 2), _SEL)).map(list)


@st.composite
def _roundtrip(draw):
    """open for writing - chunks (with seeks / reopen in between) - go back - chunked read-back - close - use after close.
    Every part may be empty so that the shrinker can delete it."""
    f = draw(st.sampled_from([0, 1]))
    pid = draw(_PID)
    ops = [["open", f, pid, draw(_MODE_W), draw(_HOW)]]
    ops += _flat(draw(st.lists(_chunk(f, pid), max_size=5)))
    f, b = draw(_back(f, pid))
    ops += b
    ops += draw(st.lists(_readop(f), max_size=6))
    end = draw(st.integers(0, 3))
    if end == 1:
        ops.append(["del", f])
    elif end >= 2:
        ops.append(["close", f])
        ops += draw(st.lists(_closed_req(f), max_size=4))
    return ops


@st.composite
def _case(draw):
    # kind 0 is the free form: the shrinker ends there
    kind = draw(st.integers(0, 9))
    if kind <= 2:
        ops = draw(st.lists(_req(), max_size=MAXOPS))
        if draw(st.booleans()):
            ops = [["open", 0, draw(_PID), draw(_MODE_W), draw(_HOW)]] + ops
    elif kind == 3:
        f = draw(st.sampled_from([0, 1]))
        ops = draw(st.lists(_closed_req(f), max_size=6))      # never opened at all
        ops += draw(st.lists(_req(), max_size=10))
    elif kind <= 7:
        ops = draw(_roundtrip())
        ops += draw(st.lists(_req(), max_size=12))
    else:
        ops = draw(_roundtrip()) + draw(_roundtrip())
    return {"probe": draw(st.sampled_from([True, True, True, False])), "ops": ops[:MAXOPS]}


def strategy(tier):
    return _case()


KNOWN = []
if EXCLUDE_CLOSE_ON_CLOSED:
    KNOWN.append({"key": KEY_CLOSE,
                  "case": {"probe": True, "known": True, "ops": [["close", 0]]},
                  "what": "sclose (or leaving a with block) on a File that is not open calls fclose(NULL)"})
