"""Helper for building ex_vm programs together with their expected observations."""


def lit_repr(lit):
    """'i:5' -> 'i5' (the VM prints values without the colon)."""
    return lit.replace(":", "", 1)


def expect_ok(payload=None):
    def chk(o):
        if not o.startswith("ok"):
            return "expected ok, got '%s'" % o
        if payload is not None and o != ("ok " + payload).rstrip() and o != "ok " + payload:
            return "expected 'ok %s', got '%s'" % (payload, o)
        return None
    return chk


def expect_exc(*names):
    def chk(o):
        if not o.startswith("exc "):
            return "expected exception %s, got '%s'" % ("/".join(names), o)
        nm = o.split()[1]
        if names and nm not in names:
            return "expected exception %s, got %s" % ("/".join(names), nm)
        if len(o.split()) > 2:
            return "exception raised but state leaked: '%s'" % o
        return None
    return chk


def any_outcome(o):
    return None


class Prog:
    def __init__(self):
        self.lines = []
        self.checks = []
        self.tags = []

    def add(self, line, check=None, tag=None):
        self.lines.append(line)
        self.checks.append(check if check is not None else expect_ok())
        self.tags.append(tag)
        return len(self.lines) - 1

    def run(self, ex, fresh=False):
        """-> (fail message or None, obs lines)"""
        obs = ex.run("\n".join(self.lines), fresh=fresh)
        n = min(len(obs), len(self.lines))
        for i in range(n):
            o = obs[i]
            if o.startswith("CRASH") or o == "HANG" or o.startswith("HARNESS-BUG"):
                break
            if self.checks[i] is not any_outcome and (" depth=" in o or " inv=" in o):
                return "op %d `%s`: %s" % (i, self.lines[i], o), obs
            m = self.checks[i](o)
            if m:
                return "op %d `%s`: %s" % (i, self.lines[i], m), obs
        if len(obs) != len(self.lines):
            last = obs[-1] if obs else "no output"
            at = len(obs) - 1 if obs and (obs[-1].startswith("CRASH") or obs[-1] == "HANG") else len(obs)
            line = self.lines[at] if 0 <= at < len(self.lines) else "?"
            if last.startswith("HARNESS-BUG"):
                from .core import HarnessBug
                raise HarnessBug("%s at `%s`" % (last, line))
            return "executor died at op %d `%s`: %s" % (at, line, last), obs
        return None, obs
