/* C06 candidate (gap review g6): a destructor that allocates managed objects while a sweep is finalising its pending list.
 *
 * GC_Sweep moves every unreachable entry to gc->freelist, sets mitems = nitems + nitems/2 + 1 from the (now small) count
 * and only then runs the destructors.  A destructor that calls new() goes through GC_Set; as soon as nitems > mitems this
 * starts a nested GC_Mark + GC_Sweep, which does  gc->freelist = realloc(gc->freelist, ...); gc->freenum = 0;  and at its
 * end  free(gc->freelist); gc->freelist = NULL; gc->freenum = 0;  - the outer sweep's loop then sees freenum == 0 and stops:
 * every object still pending in the outer list is already unregistered and is never finalised nor freed (not even at exit).
 *
 * No in-tree destructor allocates and C06's module lists "destructors that allocate" as out of contract; the documentation
 * does not forbid it.  Expected: "finalised 20 of 20".  Observed on /repo HEAD 8710ef7: "finalised 10 of 20", also after teardown (with one allocation per destructor no nested collection starts and all 20 are finalised).
 *
 *   gcc -std=gnu99 -I/repo/include notes/C06-candidate-destructor-allocates.c <libdir>/libCello.a -lpthread -lm && ./a.out
 */
#include "Cello.h"

struct N { int64_t id; };
static int finalised[64];
static var N;
static void N_New(var self, var args) { ((struct N*)self)->id = c_int(get(args, $I(0))); }
static void N_Del(var self) {
  struct N* n = self;
  finalised[n->id]++;
  if (n->id < 20) { new(N, $I(20)); new(N, $I(21)); new(N, $I(22)); }      /* e.g. builds a log record */
}
static var N = Cello(N, Instance(New, N_New, N_Del));

static void __attribute__((noinline)) garbage(void) { for (int i = 0; i < 20; i++) { new(N, $I(i)); } }
static void __attribute__((noinline)) scrub(void) { volatile char b[20000]; for (size_t i = 0; i < sizeof b; i++) { b[i] = 0; } }

static void report(void) {
  int n = 0, twice = 0;
  for (int i = 0; i < 20; i++) { n += finalised[i] >= 1; twice += finalised[i] > 1; }
  printf("finalised %d of 20 (twice: %d)\n", n, twice);
}

int main(int argc, char** argv) {
  atexit(report);               /* registered after Cello_Exit: runs before it ... */
  garbage(); scrub();
  for (int i = 0; i < 200; i++) { new(Int, $I(i)); }      /* threshold collections */
  return 0;
}

/* ... so report once more after the collector is gone */
static void __attribute__((destructor)) final_report(void) { printf("after teardown: "); report(); }
