#include "Cello.h"
/* random heap-graph probe for C01/C06 on the fixed scratch lib: thread per case */
extern void GC_Mark(var gc); extern void GC_Sweep(var gc);
#define MAXN 400
struct Node { int64_t id; uint64_t canary; var out[4]; };
static int dtor[MAXN]; static int cur_case;
static void Node_Del(var self) { struct Node* n = self; if (n->id >= 0 && n->id < MAXN) dtor[n->id]++; n->canary = 0xDEAD; }
var Node = Cello(Node, Instance(New, NULL, Node_Del));
enum { K_NODE, K_ARR, K_LIST, K_TAB, K_TREE, K_TUP, NKIND };
struct Sh { int kind; int alive; var ptr; int edges[8]; int ne; };   /* shadow */
static struct Sh sh[MAXN]; static int nn; static unsigned seed; static int bad; static long collects, freed_total, checks;
static unsigned rnd(void) { seed = seed*1103515245u+12345u; return seed>>8; }
static int reach[MAXN];
static void dfs(int i) { if (i < 0 || !sh[i].alive || reach[i]) return; reach[i] = 1; for (int k = 0; k < sh[i].ne; k++) dfs(sh[i].edges[k]); }
static var __attribute__((noinline)) mkobj(int kind, int id) {
  switch (kind) {
    case K_NODE: { struct Node* n = alloc(Node); n->id = id; n->canary = 0xC0FFEE00 + id; return n; }
    case K_ARR: return new(Array, Ref);
    case K_LIST: return new(List, Ref);
    case K_TAB: return new(Table, Int, Ref);
    case K_TREE: return new(Tree, Int, Ref);
    default: return new(Tuple);
  }
}
static void __attribute__((noinline)) clobber(void) { volatile char b[4096]; for (int i = 0; i < 4096; i++) b[i] = 0; }
static void add_edge(int s, int d) {
  if (sh[s].ne >= 8) return;
  var sp = sh[s].ptr, dp = sh[d].ptr;
  switch (sh[s].kind) {
    case K_NODE: if (sh[s].ne >= 4) return; ((struct Node*)sp)->out[sh[s].ne] = dp; break;
    case K_ARR: case K_LIST: push(sp, dp); break;
    case K_TAB: case K_TREE: set(sp, $I(sh[s].ne), $R(dp)); break;
    case K_TUP: push(sp, dp); break;
  }
  sh[s].edges[sh[s].ne++] = d;
}
static var case_thread(var args) {
  volatile var slots[8]; int slot_id[8]; int root_ids[8]; var root_holder[8]; int nroot = 0; int tls_id = -1;
  for (int i = 0; i < 8; i++) { slots[i] = NULL; slot_id[i] = -1; }
  var gc = current(GC); nn = 0; memset(dtor, 0, sizeof dtor);
  int steps = 60 + rnd() % 120;
  for (int st = 0; st < steps && !bad; st++) {
    int op = rnd() % 10;
    if (op < 4 && nn < MAXN) { int k = rnd() % NKIND; int id = nn; var p = mkobj(k, id); sh[id].kind = k; sh[id].alive = 1; sh[id].ptr = p; sh[id].ne = 0; nn++;
      /* attach: either to a slot, or as edge from a reachable object */
      int how = rnd() % 4;
      if (how == 0 || nn == 1) { int s = rnd() % 8; slots[s] = p; slot_id[s] = id; }
      else { int s = rnd() % nn; memset(reach,0,sizeof reach); for (int i=0;i<8;i++) dfs(slot_id[i]); for (int i=0;i<nroot;i++) dfs(root_ids[i]); dfs(tls_id); if (reach[s] && s != id) add_edge(s, id); else { int sl = rnd()%8; slots[sl] = p; slot_id[sl] = id; } }
      p = NULL; }
    else if (op == 4 && nn > 1) { int s = rnd() % nn, d = rnd() % nn; memset(reach,0,sizeof reach); for (int i=0;i<8;i++) dfs(slot_id[i]); for (int i=0;i<nroot;i++) dfs(root_ids[i]); dfs(tls_id); if (reach[s] && reach[d]) add_edge(s, d); }
    else if (op == 5) { int s = rnd() % 8; slots[s] = NULL; slot_id[s] = -1; }
    else if (op == 6 && nroot < 8 && nn) { int d = rnd() % nn; memset(reach,0,sizeof reach); for (int i=0;i<8;i++) dfs(slot_id[i]); for (int i=0;i<nroot;i++) dfs(root_ids[i]); dfs(tls_id); if (reach[d]) { root_holder[nroot] = new_root(Ref, sh[d].ptr); root_ids[nroot++] = d; } }
    else if (op == 7 && nn && tls_id < 0) { int d = rnd() % nn; memset(reach,0,sizeof reach); for (int i=0;i<8;i++) dfs(slot_id[i]); for (int i=0;i<nroot;i++) dfs(root_ids[i]); if (reach[d]) { set(current(Thread), $S("probe"), sh[d].ptr); tls_id = d; } }
    else if (op >= 8) {
      clobber();
      if (rnd() % 2) { GC_Mark(gc); GC_Sweep(gc); } else { for (int i = 0; i < 300; i++) { struct Node* g = alloc(Node); g->id = -1; } }
      collects++;
      memset(reach,0,sizeof reach); for (int i=0;i<8;i++) dfs(slot_id[i]); for (int i=0;i<nroot;i++) dfs(root_ids[i]); dfs(tls_id);
      for (int i = 0; i < nn; i++) { if (sh[i].alive && dtor[i] > 0 && !reach[i]) { sh[i].alive = 0; freed_total++; }
        if (reach[i]) { checks++; if (dtor[i]) { bad++; printf("case %d: reachable node %d (kind %d) finalised\n", cur_case, i, sh[i].kind); }
          else if (!mem(gc, sh[i].ptr)) { bad++; printf("reachable not in registry\n"); }
          else if (sh[i].kind == K_NODE && ((struct Node*)sh[i].ptr)->canary != 0xC0FFEE00u + i) { bad++; printf("canary\n"); } } }
    }
  }
  if (tls_id >= 0) rem(current(Thread), $S("probe"));
  for (int i = 0; i < nroot; i++) del_root(root_holder[i]);
  return NULL;
}
int main(int argc, char** argv) {
  seed = 31337; var fn = new_raw(Function); ((struct Function*)fn)->func = case_thread;
  int leaks = 0, multi = 0;
  for (cur_case = 0; cur_case < 3000 && !bad; cur_case++) {
    var t = new_raw(Thread, fn); call(t); join(t); del_raw(t);
    for (int i = 0; i < nn; i++) { if (sh[i].kind == K_NODE) { if (dtor[i] == 0) leaks++; if (dtor[i] > 1) multi++; } }
  }
  printf("cases=%d collects=%ld checks=%ld freed-while-running=%ld bad=%d leaks-at-teardown=%d multi=%d\n", cur_case, collects, checks, freed_total, bad, leaks, multi);
  return 0;
}
