#include <rapidcheck.h>
#include <vector>
int main() {
  bool ok = rc::check("reverse twice", [](const std::vector<int>& v) {
    auto w = v; std::reverse(w.begin(), w.end()); std::reverse(w.begin(), w.end());
    RC_CLASSIFY(v.size() > 3, "long");
    RC_ASSERT(v == w);
  });
  return ok ? 0 : 1;
}
