#include "Cello.h"
/* exhaustive small-scope slice check against definition, fixed scratch lib */
static int64_t clampi(int64_t x, int64_t n) { if (x < 0) x += n; if (x > n) x = n; if (x < 0) x = 0; return x; }
static int expect(int n, int has_a, int64_t a, int has_b, int64_t b, int64_t s, int64_t* out) {
  int64_t lo = has_a ? clampi(a, n) : 0, hi = has_b ? clampi(b, n) : n; int k = 0;
  if (s > 0) for (int64_t i = lo; i < hi; i += s) out[k++] = i;
  if (s < 0) for (int64_t i = hi-1; i >= lo; i += s) out[k++] = i;
  return k;
}
int main(int argc, char** argv) {
  long cases = 0, bad = 0; const char* kn[] = {"Array","List","Tuple"};
  var ints[16]; for (int i=0;i<16;i++) ints[i] = new_raw(Int, $I(i));
  for (int kind = 0; kind < 3; kind++) for (int n = 0; n <= 7; n++) {
    var x = kind==0 ? (var)new(Array, Int) : kind==1 ? (var)new(List, Int) : (var)new(Tuple);
    for (int i = 0; i < n; i++) push(x, ints[i]);
    for (int ha = 0; ha < 2; ha++) for (int64_t a = (ha ? -9 : 0); a <= (ha ? 9 : 0); a++)
    for (int hb = 0; hb < 2; hb++) for (int64_t b = (hb ? -9 : 0); b <= (hb ? 9 : 0); b++)
    for (int64_t s = -3; s <= 3; s++) { if (s == 0) continue;
      int64_t ex[32]; int k = expect(n, ha, a, hb, b, s, ex);
      var sl = slice(x, ha ? (var)$I(a) : _, hb ? (var)$I(b) : _, $I(s));
      cases++;
      int okc = 1;
      if (len(sl) != (size_t)k) { okc = 0; }
      int i = 0, guard = 0; 
      try {
        for (var it = iter_init(sl); it isnt Terminal && guard < 40; it = iter_next(sl, it), guard++) { if (i >= k || c_int(it) != ex[i]) okc = 0; i++; }
        if (i != k) okc = 0;
        i = k-1; guard = 0;
        for (var it = iter_last(sl); it isnt Terminal && guard < 40; it = iter_prev(sl, it), guard++) { if (i < 0 || c_int(it) != ex[i]) okc = 0; i--; }
        if (i != -1) okc = 0;
        for (i = 0; i < k; i++) if (c_int(get(sl, $I(i))) != ex[i]) okc = 0;
      } catch (e) { okc = 0; }
      if (!okc) { if (bad < 8) printf("%s n=%d a=%s%ld b=%s%ld s=%ld expected %d items\n", kn[kind], n, ha?"":"_", (long)a, hb?"":"_", (long)b, (long)s, k); bad++; }
    }
  }
  printf("slice cases=%ld bad=%ld\n", cases, bad);
  return 0;
}
