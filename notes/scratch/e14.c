#include "Cello.h"
int main(int argc, char** argv) {
  /* C20 basics */
  var f = new(File, $S("/tmp/cs/x/t20.bin"), $S("w+b"));
  char buf[64] = "hello\0world!"; size_t w = swrite(f, buf, 12); printf("swrite ret=%zu tell=%ld\n", w, (long)stell(f));
  sseek(f, 0, SEEK_SET); char rb[64] = {0}; size_t r = sread(f, rb, 12); printf("sread ret=%zu same=%d eof=%d\n", r, memcmp(buf, rb, 12)==0, seof(f));
  r = sread(f, rb, 5); printf("sread past end ret=%zu eof=%d\n", r, seof(f));
  sseek(f, -3, SEEK_END); printf("tell after seek end-3: %ld\n", (long)stell(f));
  sclose(f);
  const char* ops[] = {"sread","swrite","sseek","stell","sflush","seof","print_to","scan_from"};
  for (int i=0;i<8;i++) { try { switch(i){case 0: sread(f,rb,1);break;case 1: swrite(f,rb,1);break;case 2: sseek(f,0,SEEK_SET);break;case 3: stell(f);break;case 4: sflush(f);break;case 5: seof(f);break;case 6: print_to(f,0,"x");break;case 7: {var iv=$I(0); scan_from(f,0,"%i",iv);}break;} printf("%s closed: no exc\n", ops[i]); } catch (e) { printf("%s closed: %s\n", ops[i], c_str(e)); } }
  /* with block */
  with (g in new(File, $S("/tmp/cs/x/t20.txt"), $S("w"))) { print_to(g, 0, "%li %$ %f\n", $I(-42), $S("a b\"c"), $F(2.5)); }
  var g = new(File, $S("/tmp/cs/x/t20.txt"), $S("r"));
  var i = new(Int), s = new(String), d = new(Float);
  int pos = scan_from(g, 0, "%li %$ %lf", i, s, d);
  printf("scanned: %ld [%s] %f pos=%d\n", c_int(i), c_str(s), c_float(d), pos);
  sclose(g);
  /* %$ containers */
  var out = new(String);
  var a = new(Array, Int, $I(1), $I(2)); var t = new(Table, String, Int); set(t, $S("k"), $I(7));
  print_to(out, 0, "%$|%$|%$|%$", a, t, tuple($I(1),$S("x")), new(List, Float, $F(1.5))); printf("%s\n", c_str(out));
  var tr = new(Tree, Int, String); set(tr,$I(1),$S("one")); print_to(out, 0, "%$ %$", tr, range($I(3))); printf("%s\n", c_str(out));
  return 0;
}
