#include "Cello.h"
/* C12 probe: fault matrix on sequences/maps/strings, fixed scratch lib; expects exception + unchanged dump */
static char d0[4096], d1[4096];
static void dumpseq(var c, char* out) { int p = sprintf(out, "len=%zu:", len(c)); int g=0; foreach (x in c) { p += sprintf(out+p, "%ld,", c_int(x)); if (++g>300) break; } }
static void dumpmap(var c, char* out) { int p = sprintf(out, "len=%zu:", len(c)); int64_t sum=0, xs=0; int g=0; foreach (k in c) { sum += c_int(k)*31 + c_int(get(c,k)); xs ^= c_int(k); if (++g>300) break; } sprintf(out+p, "%ld/%ld/%d", (long)sum, (long)xs, g); }
static int bad=0, cells=0;
#define FAULT(desc, dumpfn, obj, stmt, ...) do { cells++; dumpfn(obj, d0); var exc = NULL; size_t depth0 = len(current(Exception)); try { stmt; } catch (e) { exc = e; } dumpfn(obj, d1); \
  var allowed[] = { __VA_ARGS__ }; int okx = 0; for (size_t q=0;q<sizeof(allowed)/sizeof(var);q++) if (exc == allowed[q]) okx=1; \
  if (!exc) { bad++; printf("NOEXC   %-40s size=%d\n", desc, n); } else if (!okx) { bad++; printf("WRONGEXC %-40s size=%d got %s\n", desc, n, c_str(exc)); } \
  if (strcmp(d0,d1)) { bad++; printf("CHANGED %-40s size=%d  %s -> %s\n", desc, n, d0, d1); } \
  if (len(current(Exception)) != depth0) { bad++; printf("DEPTH %s\n", desc); } } while (0)
int main(int argc, char** argv) {
  int sizes[] = {0,1,5};
  var I9 = new_raw(Int, $I(9));
  for (int si=0; si<3; si++) { int n = sizes[si];
    for (int kind=0; kind<3; kind++) {
      var c = kind==0 ? (var)new(Array, Int) : kind==1 ? (var)new(List, Int) : (var)new(Tuple);
      for (int i=0;i<n;i++) push(c, new_raw(Int, $I(i+1)));
      const char* kn = kind==0?"Array":kind==1?"List":"Tuple"; char desc[80];
      #define D(x) (snprintf(desc,80,"%s %s",kn,x),desc)
      FAULT(D("get len"), dumpseq, c, get(c,$I(n)), IndexOutOfBoundsError);
      FAULT(D("get -len-1"), dumpseq, c, get(c,$I(-n-1)), IndexOutOfBoundsError);
      FAULT(D("get INT64_MAX"), dumpseq, c, get(c,$I(INT64_MAX)), IndexOutOfBoundsError);
      FAULT(D("get INT64_MIN"), dumpseq, c, get(c,$I(INT64_MIN)), IndexOutOfBoundsError);
      FAULT(D("set len"), dumpseq, c, set(c,$I(n),I9), IndexOutOfBoundsError);
      FAULT(D("set -len-1"), dumpseq, c, set(c,$I(-n-1),I9), IndexOutOfBoundsError);
      FAULT(D("pop_at len"), dumpseq, c, pop_at(c,$I(n)), IndexOutOfBoundsError);
      FAULT(D("pop_at -len-1"), dumpseq, c, pop_at(c,$I(-n-1)), IndexOutOfBoundsError);
      FAULT(D("push_at len+1"), dumpseq, c, push_at(c,I9,$I(n+1)), IndexOutOfBoundsError);
      FAULT(D("push_at -len-2"), dumpseq, c, push_at(c,I9,$I(-n-2)), IndexOutOfBoundsError);
      FAULT(D("push_at INT64_MAX"), dumpseq, c, push_at(c,I9,$I(INT64_MAX)), IndexOutOfBoundsError);
      FAULT(D("rem absent"), dumpseq, c, rem(c,$I(777)), ValueError);
      FAULT(D("get wrong-type key"), dumpseq, c, get(c,$S("x")), TypeError, ValueError, ClassError);
      FAULT(D("get NULL key"), dumpseq, c, get(c,NULL), ValueError);
      if (n==0) { FAULT(D("pop empty"), dumpseq, c, pop(c), IndexOutOfBoundsError); }
      if (kind<2) { FAULT(D("push NULL"), dumpseq, c, push(c,NULL), ValueError); FAULT(D("push wrong type"), dumpseq, c, push(c,$S("x")), TypeError, ValueError, ClassError);
                    if (n) { FAULT(D("set wrong type"), dumpseq, c, set(c,$I(0),$S("x")), TypeError, ValueError, ClassError); }
                    FAULT(D("push_at 0 wrong type"), dumpseq, c, push_at(c,$S("x"),$I(0)), TypeError, ValueError, ClassError);
                    FAULT(D("concat [bad]"), dumpseq, c, concat(c, tuple($S("x"))), TypeError, ValueError, ClassError); }
      if (kind==2) { FAULT(D("resize len+1"), dumpseq, c, resize(c,n+1), FormatError, ResourceError); }
      FAULT(D("sort on List / method absent"), dumpseq, c, if (kind==1) sort(c); else throw(ClassError,"n/a"), ClassError);
    }
    for (int kind=0; kind<2; kind++) {
      var c = kind==0 ? (var)new(Table, Int, Int) : (var)new(Tree, Int, Int); for (int i=0;i<n;i++) set(c,$I(i*5),$I(i));
      const char* kn = kind==0?"Table":"Tree"; char desc[80];
      FAULT(D("get absent"), dumpmap, c, get(c,$I(777)), KeyError);
      FAULT(D("rem absent"), dumpmap, c, rem(c,$I(777)), KeyError);
      FAULT(D("get wrong-type key"), dumpmap, c, get(c,$S("x")), TypeError, ValueError, ClassError);
      FAULT(D("mem wrong-type key"), dumpmap, c, mem(c,$S("x")), TypeError, ValueError, ClassError);
      FAULT(D("set wrong-type key"), dumpmap, c, set(c,$S("x"),$I(1)), TypeError, ValueError, ClassError);
      FAULT(D("set wrong-type val"), dumpmap, c, set(c,$I(1),$S("x")), TypeError, ValueError, ClassError);
      FAULT(D("set NULL key"), dumpmap, c, set(c,NULL,$I(1)), ValueError);
      FAULT(D("set NULL val"), dumpmap, c, set(c,$I(1),NULL), ValueError);
      FAULT(D("get NULL"), dumpmap, c, get(c,NULL), ValueError);
      if (n>1) { FAULT(D("resize 1 (<len)"), dumpmap, c, resize(c,1), FormatError, ResourceError); }
      if (kind==1) { FAULT(D("resize 7"), dumpmap, c, resize(c,7), FormatError, ResourceError); }
      FAULT(D("push (class absent)"), dumpmap, c, push(c,$I(1)), ClassError);
    }
  }
  { int n = 3; var s = new(String, $S("hello")); 
    #define dumpstr(o, out) sprintf(out, "[%s]", c_str(o))
    FAULT("String rem absent", dumpstr, s, rem(s,$S("zz")), ValueError);
    FAULT("String get (member empty)", dumpstr, s, get(s,$I(0)), ClassError);
    FAULT("String concat NULL", dumpstr, s, concat(s,NULL), ValueError);
    FAULT("String concat Int", dumpstr, s, concat(s,$I(1)), TypeError, ValueError, ClassError);
    FAULT("String assign Int", dumpstr, s, assign(s,$I(1)), TypeError, ValueError, ClassError);
    FAULT("print_to too few args", dumpstr, s, print_to(s,0,"%i %i",$I(1)), FormatError);
    FAULT("stack String resize", dumpstr, s, resize($S("lit"),10), ValueError, ResourceError);
    FAULT("len(NULL)", dumpstr, s, len(NULL), ValueError);
    FAULT("Int: len (class absent)", dumpstr, s, len($I(1)), ClassError);
    FAULT("range get len", dumpstr, s, get(range($I(5)),$I(5)), IndexOutOfBoundsError);
    FAULT("range get -6", dumpstr, s, get(range($I(5)),$I(-6)), IndexOutOfBoundsError);
    var arr = new(Array, Int, $I(1),$I(2),$I(3));
    FAULT("slice get len", dumpstr, s, get(slice(arr,$I(1)),$I(1)), IndexOutOfBoundsError);
  }
  printf("cells=%d bad=%d\n", cells, bad);
  return 0;
}
