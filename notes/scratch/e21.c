#include "Cello.h"
#include <sys/wait.h>
#include <unistd.h>
extern void GC_Mark(var gc); extern void GC_Sweep(var gc);
static var keep;
static void chain(int n) { var head = new(Tuple); for (int i = 0; i < n; i++) { head = new(Tuple, head); } keep = new_root(Ref, head); GC_Mark(current(GC)); GC_Sweep(current(GC)); printf("tuple chain %d collected ok\n", n); }
static void c10(void){chain(10);} static void c20(void){chain(20);} static void c26(void){chain(26);} static void c40(void){chain(40);}
static void selfref(void) { var t = new(Tuple); push(t, t); keep = new_root(Ref, t); GC_Mark(current(GC)); GC_Sweep(current(GC)); printf("self-referencing tuple collected ok\n"); }
static void cyc2(void) { var a = new(Tuple), b = new(Tuple); push(a,b); push(b,a); keep = new_root(Ref, a); GC_Mark(current(GC)); GC_Sweep(current(GC)); printf("2-cycle tuple ok\n"); }
static int runchild(const char* name, void (*f)(void)) { fflush(stdout); pid_t p = fork(); if (p == 0) { alarm(20); f(); fflush(stdout); _exit(0); } int st; waitpid(p, &st, 0); if (WIFSIGNALED(st)) printf("[%s] killed by signal %d\n", name, WTERMSIG(st)); else printf("[%s] exit %d\n", name, WEXITSTATUS(st)); return st; }
int main(int argc, char** argv) { runchild("chain10", c10); runchild("chain20", c20); runchild("chain26", c26); runchild("chain40", c40); runchild("selfref", selfref); runchild("cycle2", cyc2); return 0; }
