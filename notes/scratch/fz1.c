#include "Cello.h"
#undef main
static int inited = 0;
int LLVMFuzzerTestOneInput(const uint8_t* data, size_t size) {
  if (!inited) { static var bottom = NULL; (void)bottom; inited = 1; }
  var s = new_raw(String);
  char* buf = malloc(size+1); memcpy(buf, data, size); buf[size]=0;
  for (size_t i=0;i<size;i++) if (!buf[i]) buf[i]='x';
  assign(s, $S(buf));
  if (strcmp(c_str(s), buf) != 0) __builtin_trap();
  if (len(s) != size) __builtin_trap();
  del_raw(s); free(buf);
  return 0;
}
