#include "Cello.h"
struct P { int64_t id; };
static int dt[200000];
static void P_Del(var self) { struct P* p = self; dt[p->id]++; }
var P = Cello(P, Instance(New, NULL, P_Del));
extern void GC_Mark(var gc); extern void GC_Sweep(var gc);
static var th(var args) {
  var gc = current(GC);
  var keep[64]; int n=0; int bad=0;
  for (int i=0;i<5000;i++) { struct P* p = alloc(P); p->id = i; if (i%80==0) keep[n++]=p; }
  for (int i=0;i<n;i++) { if (!mem(gc, keep[i])) bad++; if (dt[((struct P*)keep[i])->id]) bad++; }
  printf("thread: kept=%d bad=%d\n", n, bad);
  var r = alloc_root(P); ((struct P*)r)->id = 100000; 
  GC_Mark(gc); GC_Sweep(gc);
  printf("root still mem=%d\n", mem(gc, r));
  del_root(r); printf("after del_root mem=%d dt=%d\n", mem(gc, r), dt[100000]);
  return NULL;
}
int main(int argc, char** argv) {
  var fn = new_raw(Function); ((struct Function*)fn)->func = th;
  var t = new_raw(Thread, fn); call(t); join(t);
  int once=0, never=0, multi=0; for (int i=0;i<5000;i++) { if (dt[i]==1) once++; else if (dt[i]==0) never++; else multi++; }
  printf("after thread teardown: once=%d never=%d multi=%d\n", once, never, multi);
  del_raw(t);
  return 0;
}
