#include "Cello.h"
static var types[] = {0};
int main(int argc, char** argv) {
  var T[] = {Alloc,Array,Assign,Box,BusyError,C_Float,C_Int,C_Str,Call,Cast,ClassError,Cmp,Concat,Copy,Current,DivisionByZeroError,Doc,Exception,File,Filter,Float,Format,FormatError,Function,GC,Get,Hash,Help,IOError,IllegalInstructionError,IndexOutOfBoundsError,Int,Iter,KeyError,Len,List,Lock,Map,Mark,Mutex,New,OutOfMemoryError,Pointer,Process,ProgramAbortedError,ProgramInterruptedError,ProgramTerminationError,Push,Range,Ref,Resize,ResourceError,SegmentationError,Show,Size,Slice,Sort,Start,Stream,String,Swap,Table,Terminal,Thread,Tree,Tuple,Type,TypeError,ValueError,Zip,_};
  var C[] = {Alloc,Assign,C_Float,C_Int,C_Str,Call,Cast,Cmp,Concat,Copy,Current,Doc,Format,Get,Hash,Help,Iter,Len,Lock,Mark,New,Pointer,Push,Resize,Show,Size,Sort,Start,Stream,Swap};
  int nt = sizeof(T)/sizeof(*T), nc = sizeof(C)/sizeof(*C), bad=0, impl=0;
  for (int pass=0; pass<2; pass++)
  for (int i=0;i<nt;i++) for (int j=0;j<nc;j++) {
    /* independent scan by name using public layout */
    struct Type* t = (struct Type*)T[i] + (CELLO_CACHE_NUM/3);
    const char* cname = ((struct Type*)C[j] + (CELLO_CACHE_NUM/3))[0].inst;
    var expect = NULL; t += 2;
    while (t->name) { if (strcmp(t->name, cname)==0) { expect = t->inst; break; } t++; }
    var got = type_instance(T[i], C[j]);
    if (got != expect) { bad++; printf("mismatch %s x %s\n", c_str(T[i]), cname); }
    if (type_implements(T[i], C[j]) != (expect != NULL)) { bad++; printf("implements mismatch\n"); }
    if (expect) impl++;
  }
  printf("types=%d classes=%d implemented pairs=%d bad=%d\n", nt, nc, impl/2, bad);
  /* ClassError on absent */
  try { len($I(1)); printf("no exc\n"); } catch (e in ClassError) { printf("len(Int) -> ClassError ok\n"); }
  try { cast($I(1), Float); printf("no exc\n"); } catch (e in ValueError) { printf("cast -> ValueError ok\n"); }
  try { get($S("x"), $I(0)); printf("no exc\n"); } catch (e in ClassError) { printf("String get (empty member) -> ClassError ok\n"); }
  return 0;
}
