#include "Cello.h"
#include <sys/mman.h>
/* arena-allocated node type with custom Alloc instance */
struct NodeA { int64_t id; uint64_t canary; var out[4]; };
#define CELL 128
static char* arena; static int used[4096]; static int next_cell = 0; static int released[4096]; static int dtor[4096];
static int want_cell = -1;
static var NodeA_Alloc(void);
static void NodeA_Dealloc(var self);
static void NodeA_Del(var self) { struct NodeA* n = self; dtor[n->id]++; }
var NodeA = Cello(NodeA, Instance(Alloc, NodeA_Alloc, NodeA_Dealloc), Instance(New, NULL, NodeA_Del));
static var NodeA_Alloc(void) {
  int c = want_cell >= 0 ? want_cell : next_cell++; want_cell = -1; used[c] = 1;
  char* cell = arena + (size_t)c * CELL; memset(cell, 0, CELL);
  return header_init(cell, NodeA, AllocHeap);
}
static void NodeA_Dealloc(var self) { size_t c = ((char*)self - arena) / CELL; released[c]++; used[c] = 0; }
/* wrap free to count */
static long nfree = 0; void __real_free(void*); void __wrap_free(void* p) { nfree++; __real_free(p); }
__attribute__((destructor)) static void after_exit(void) { int once=0,bad=0; for (int i=0;i<1000;i++) { if (dtor[i]==1 && released[i]==1) once++; else bad++; } fprintf(stderr, "destructor-attr hook: once=%d bad=%d nfree=%ld\n", once, bad, nfree); }
static void early_atexit(void) { fprintf(stderr, "atexit registered inside Cello_Main runs (LIFO) before Cello_Exit; dtor[0]=%d\n", dtor[0]); }
int main(int argc, char** argv) {
  arena = mmap(NULL, 4096*CELL, PROT_READ|PROT_WRITE, MAP_PRIVATE|MAP_ANONYMOUS, -1, 0);
  atexit(early_atexit);
  var gc = current(GC);
  for (int i=0;i<1000;i++) { struct NodeA* n = alloc(NodeA); n->id = i; if (!mem(gc, n)) printf("not registered!\n"); }
  printf("type_of ok=%d size=%zu\n", type_of(arena + sizeof(struct Header)) is NodeA, size(NodeA));
  return 0;
}
