#include "Cello.h"
#include <sys/wait.h>
#include <unistd.h>
static int runchild(const char* name, void (*f)(void)) {
  fflush(stdout);
  pid_t p = fork();
  if (p == 0) { f(); fflush(stdout); _exit(0); }
  int st; waitpid(p, &st, 0);
  if (WIFSIGNALED(st)) printf("[%s] killed by signal %d\n", name, WTERMSIG(st));
  else printf("[%s] exit %d\n", name, WEXITSTATUS(st));
  return st;
}
static void t_table_resize0(void) { var t = new(Table, Int, Int); set(t,$I(1),$I(1)); resize(t,0); printf("len=%zu\n", len(t)); set(t,$I(2),$I(2)); printf("after set len=%zu\n", len(t)); }
static void t_string_rem_absent(void) { var s = new(String, $S("hello")); rem(s, $S("zzz")); printf("s=%s\n", c_str(s)); }
static void t_string_rem_mid(void) { var s = new(String, $S("hello world")); rem(s, $S("lo ")); printf("s=[%s] expect [helworld]\n", c_str(s)); }
static void t_string_rem_all(void) { var s = new(String, $S("abc")); rem(s, $S("abc")); printf("s=[%s] expect []\n", c_str(s)); }
static void t_array_prev(void) { var a = new(Array, Int, $I(1), $I(2), $I(3)); size_t c=0; for (var x = iter_last(a); x isnt Terminal && c < 10; x = iter_prev(a, x)) { c++; } printf("array backward count=%zu expect 3\n", c); }
static void t_array_push_at_bad(void) { var a = new(Array, Int, $I(1), $I(2), $I(3)); try { push_at(a, $I(9), $I(100)); } catch (e) { printf("caught %s\n", c_str(e)); } printf("len=%zu expect 3\n", len(a)); }
static void t_tuple_last_empty(void) { var t = new(Tuple); var x = iter_last(t); printf("iter_last(empty tuple) is Terminal: %d\n", x is Terminal); }
static void t_tuple_popat_stack(void) { var t = tuple($I(1), $I(2), $I(3)); try { pop_at(t, $I(0)); } catch (e) { printf("caught %s\n", c_str(e)); } printf("len=%zu expect 3 first=%ld\n", len(t), c_int(get(t,$I(0)))); }
static void t_sclose_twice(void) { var f = new(File, $S("/tmp/cs/x/f.txt"), $S("w")); sclose(f); try { sclose(f); } catch (e) { printf("caught %s\n", c_str(e)); } printf("ok\n"); }
static void t_slice(void) { var x = new(Array, Int, $I(0),$I(1),$I(2),$I(3),$I(4),$I(5)); printf("slice(x,1,3): len=%zu items:", len(slice(x,$I(1),$I(3)))); size_t c=0; foreach (i in slice(x, $I(1), $I(3))) { printf(" %ld", c_int(i)); if (++c>10) break; } printf("\n"); 
  printf("slice(x,-10,_) len=%zu (expect 6)\n", len(slice(x,$I(-10),_))); }
static void t_slice_step(void) { var x = new(List, Int, $I(0),$I(1),$I(2),$I(3),$I(4)); size_t c=0; foreach (i in slice(x, _, _, $I(2))) { printf(" %ld", c_int(i)); if (++c>10) break; } printf("\n"); }
static void t_tuple_dup(void) { var a=$I(1), b=$I(2); var t = tuple(a,b,a,b); size_t c=0; foreach (i in t) { if (++c>20) break; } printf("tuple dup iter count=%zu expect 4\n", c); }
static void t_list_pushat_end(void) { var l = new(List, Int, $I(1),$I(2)); try { push_at(l, $I(9), $I(2)); } catch(e) { printf("caught %s\n", c_str(e)); } printf("len=%zu\n", len(l)); }
static void t_tuple_rem_absent(void) { var t = new(Tuple, $I(1)); try { rem(t, $I(5)); printf("no exception\n"); } catch(e) { printf("caught %s\n", c_str(e)); } }
static void t_zip_back(void) { var a = new(Array, Int, $I(0),$I(1),$I(2)); var b = new(Array, Int, $I(10),$I(11)); var z = zip(a,b); size_t c=0; for (var x = iter_last(z); x isnt Terminal && c<10; x = iter_prev(z,x)) { printf(" (%ld,%ld)", c_int(get(x,$I(0))), c_int(get(x,$I(1)))); c++; } printf("\n"); }
int main(int argc, char** argv) {
  runchild("table_resize0_set", t_table_resize0);
  runchild("string_rem_absent", t_string_rem_absent);
  runchild("string_rem_mid", t_string_rem_mid);
  runchild("string_rem_all", t_string_rem_all);
  runchild("array_prev", t_array_prev);
  runchild("array_push_at_bad", t_array_push_at_bad);
  runchild("tuple_last_empty", t_tuple_last_empty);
  runchild("tuple_popat_stack", t_tuple_popat_stack);
  runchild("sclose_twice", t_sclose_twice);
  runchild("slice", t_slice);
  runchild("slice_step", t_slice_step);
  runchild("tuple_dup", t_tuple_dup);
  runchild("list_pushat_end", t_list_pushat_end);
  runchild("tuple_rem_absent", t_tuple_rem_absent);
  runchild("zip_back", t_zip_back);
  return 0;
}
