#include "Cello.h"
/* random sequence ops on Array/List/Tuple of Int vs C array model (fixed scratch lib) */
#define MAXN 2000
static int64_t m[MAXN]; static int n;
static var pool[100000]; static int np=0;
static var mk(int64_t v) { var x = new_raw(Int, $I(v)); pool[np++] = x; return x; }
static int check(const char* kind, var c, int step) {
  if (len(c) != (size_t)n) { printf("%s step %d: len %zu != %d\n", kind, step, len(c), n); return 1; }
  int i = 0; foreach (x in c) { if (i >= n || c_int(x) != m[i]) { printf("%s step %d: fwd mismatch at %d\n", kind, step, i); return 1; } i++; }
  if (i != n) { printf("%s: fwd count\n", kind); return 1; }
  i = n-1; int cnt=0; for (var x = iter_last(c); x isnt Terminal; x = iter_prev(c, x)) { if (i < 0 || c_int(x) != m[i]) { printf("%s step %d: back mismatch at %d\n", kind, step, i); return 1; } i--; if (++cnt > n+2) { printf("%s: back overrun\n", kind); return 1; } }
  if (i != -1) { printf("%s step %d: back count\n", kind, step); return 1; }
  for (i = 0; i < n; i++) { if (c_int(get(c, $I(i))) != m[i] || c_int(get(c, $I(i-n))) != m[i]) { printf("%s: get mismatch\n", kind); return 1; } }
  return 0;
}
static bool gt_fn(var a, var b) { return gt(a,b); }
int main(int argc, char** argv) {
  unsigned seed = 99; int bad = 0; long ops=0;
  for (int kind = 0; kind < 3 && !bad; kind++) {
    const char* kn = kind==0?"Array":kind==1?"List":"Tuple";
    for (int round = 0; round < 200 && !bad; round++) {
      var c = kind==0 ? (var)new(Array, Int) : kind==1 ? (var)new(List, Int) : (var)new(Tuple); n = 0; np = 0;
      for (int step = 0; step < 250 && !bad; step++, ops++) {
        seed = seed*1103515245+12345; int r = (seed>>8); int op = r % 12; int64_t v = (r>>4) % 20; 
        var vo = kind==2 ? mk(v) : (var)$I(v);
        switch (op) {
          case 0: case 1: case 2: if (n < MAXN-1) { push(c, vo); m[n++] = v; } break;
          case 3: if (n) { pop(c); n--; } break;
          case 4: if (n) { int i = (r>>9) % n; int neg = (r>>20)&1; if (neg && kind!=0) { /* list/tuple: -k normalises on old len */ push_at(c, vo, $I(i-n)); } else push_at(c, vo, $I(i)); memmove(&m[i+1], &m[i], sizeof(int64_t)*(n-i)); m[i]=v; n++; } break;
          case 5: if (n) { int i = (r>>9) % n; int neg = (r>>20)&1; pop_at(c, $I(neg ? i-n : i)); memmove(&m[i], &m[i+1], sizeof(int64_t)*(n-i-1)); n--; } break;
          case 6: if (n) { int i = (r>>9) % n; int neg = (r>>20)&1; if (kind==2) set(c, $I(neg? i-n : i), vo); else set(c, $I(neg ? i-n : i), vo); m[i]=v; } break;
          case 7: { int found=-1; for (int i=0;i<n;i++) if (m[i]==v) { found=i; break; } if (mem(c, $I(v)) != (found>=0)) { bad++; printf("%s mem mismatch\n", kn); } if (found>=0) { rem(c, $I(v)); memmove(&m[found], &m[found+1], sizeof(int64_t)*(n-found-1)); n--; } } break;
          case 8: if (n < MAXN-10) { var o = new(Array, Int, $I(7), $I(8), $I(9)); if (kind==2) { var a7=mk(7),a8=mk(8),a9=mk(9); concat(c, tuple(a7,a8,a9)); } else concat(c, o); m[n++]=7; m[n++]=8; m[n++]=9; } break;
          case 9: if ((r>>12)%4==0) { if (kind != 1) { int desc = (r>>15)&1; if (desc) sort_by(c, gt_fn); else sort(c); for (int i=0;i<n;i++) for (int j=i+1;j<n;j++) if (desc ? m[j]>m[i] : m[j]<m[i]) { int64_t t=m[i]; m[i]=m[j]; m[j]=t; } } } break;
          case 10: if ((r>>12)%8==0) { int k = n ? (r>>16)%(n+1) : 0; if (kind==2) { if (k < n) { resize(c, k); n = k; } } else if (kind==0) { resize(c, k); if (k < n) n = k; } else { resize(c, k); if (k<n) n=k; } } break;
          case 11: if ((r>>12)%16==0) { var d = copy(c); del(c); c = d; } break;
        }
        bad += check(kn, c, step);
      }
      if (kind != 2) del(c); else { del(c); for (int i=0;i<np;i++) del_raw(pool[i]); }
    }
  }
  printf("ops=%ld bad=%d\n", ops, bad);
  return 0;
}
