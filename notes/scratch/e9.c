#include "Cello.h"
#include <sys/wait.h>
#include <unistd.h>
static int runchild(const char* name, void (*f)(void)) {
  fflush(stdout); pid_t p = fork();
  if (p == 0) { f(); fflush(stdout); _exit(0); }
  int st; waitpid(p, &st, 0);
  if (WIFSIGNALED(st)) printf("[%s] killed by signal %d\n", name, WTERMSIG(st)); else printf("[%s] exit %d\n", name, WEXITSTATUS(st));
  return st;
}
static void dumpA(var a) { printf(" len=%zu [", len(a)); foreach (x in a) printf("%ld ", c_int(x)); printf("]\n"); }
static void t_array_push_null(void) { var a = new(Array, Int, $I(1), $I(2)); try { push(a, NULL); } catch (e) { printf("caught %s;", c_str(e)); } dumpA(a); }
static void t_array_push_wrong(void) { var a = new(Array, Int, $I(1), $I(2)); try { push(a, $S("x")); } catch (e) { printf("caught %s;", c_str(e)); } dumpA(a); }
static void t_array_concat_wrong(void) { var a = new(Array, Int, $I(1), $I(2)); try { concat(a, tuple($I(3), $S("x"), $I(5))); } catch (e) { printf("caught %s;", c_str(e)); } dumpA(a); }
static void t_list_push_wrong(void) { var a = new(List, Int, $I(1), $I(2)); try { push(a, $S("x")); } catch (e) { printf("caught %s;", c_str(e)); } dumpA(a); }
static void t_table_set_wrong(void) { var t = new(Table, Int, Int); set(t,$I(1),$I(1)); try { set(t, $S("x"), $I(2)); } catch (e) { printf("caught %s;", c_str(e)); } try { set(t, $I(3), $S("y")); } catch (e) { printf("caught %s;", c_str(e)); } printf(" len=%zu\n", len(t)); }
static void t_get_wrongkey(void) { var a = new(Array, Int, $I(1)); try { get(a, $S("x")); } catch (e) { printf("caught %s\n", c_str(e)); } }
static void t_null_obj(void) { try { len(NULL); } catch (e) { printf("len(NULL) caught %s\n", c_str(e)); } try { get(new(Array,Int), NULL); } catch (e) { printf("get(a,NULL) caught %s\n", c_str(e)); } }
static void t_iters(void) {
  var l = new(List, Int, $I(1),$I(2),$I(3)); int c=0; for (var x=iter_last(l); x isnt Terminal && c<10; x=iter_prev(l,x)) { printf("%ld ", c_int(x)); c++; } printf("| list back c=%d\n", c);
  var t = new(Table, Int, Int); for (int i=0;i<7;i++) set(t,$I(i*3),$I(i)); c=0; int f=0; foreach(k in t) f++; for (var x=iter_last(t); x isnt Terminal && c<20; x=iter_prev(t,x)) c++; printf("table fwd=%d back=%d\n", f, c);
  var tu = new(Tuple, $I(1),$I(2),$I(3)); c=0; for (var x=iter_last(tu); x isnt Terminal && c<10; x=iter_prev(tu,x)) { printf("%ld ", c_int(x)); c++; } printf("| tuple back c=%d\n", c);
  var r = range($I(2), $I(11), $I(3)); c=0; foreach (i in r) { printf("%ld ", c_int(i)); } printf("| range(2,11,3) len=%zu\n", len(r));
  c=0; for (var x=iter_last(r); x isnt Terminal && c<10; x=iter_prev(r,x)) { printf("%ld ", c_int(x)); c++; } printf("| back\n");
  var rn = range($I(2), $I(11), $I(-3)); foreach (i in rn) { printf("%ld ", c_int(i)); } printf("| range(2,11,-3) len=%zu get0=%ld\n", len(rn), c_int(get(rn,$I(0))));
}
static var even(var x) { return c_int(x) % 2 == 0 ? x : NULL; }
static var dbl(var x) { static struct Int* r; r = new(Int, $I(c_int(x)*2)); return r; }
static void t_views(void) {
  var a = new(Array, Int, $I(1),$I(2),$I(3),$I(4),$I(5));
  var f = new(Filter, a, $(Function, even)); foreach (x in f) printf("%ld ", c_int(x)); printf("| filter fwd; back: "); int c=0; for (var x=iter_last(f); x isnt Terminal && c<10; x=iter_prev(f,x)) { printf("%ld ", c_int(x)); c++; } printf("\n");
  var m = new(Map, a, $(Function, dbl)); foreach (x in m) printf("%ld ", c_int(x)); printf("| map len=%zu get(1)=%ld\n", len(m), c_int(get(m,$I(1))));
  var l2 = new(List, Int, $I(10),$I(20),$I(30)); foreach (p in zip(a, l2)) printf("(%ld,%ld) ", c_int(get(p,$I(0))), c_int(get(p,$I(1)))); printf("| zip len=%zu\n", len(zip(a,l2)));
  foreach (p in enumerate(l2)) printf("(%ld,%ld) ", c_int(get(p,$I(0))), c_int(get(p,$I(1)))); printf("| enumerate\n");
  var lr = new(List, Int, $I(1),$I(2),$I(3),$I(4)); foreach (x in reverse(lr)) printf("%ld ", c_int(x)); printf("| reverse(list)\n");
}
int main(int argc, char** argv) {
  runchild("array_push_null", t_array_push_null);
  runchild("array_push_wrong", t_array_push_wrong);
  runchild("array_concat_wrong", t_array_concat_wrong);
  runchild("list_push_wrong", t_list_push_wrong);
  runchild("table_set_wrong", t_table_set_wrong);
  runchild("get_wrongkey", t_get_wrongkey);
  runchild("null_obj", t_null_obj);
  runchild("iters", t_iters);
  runchild("views", t_views);
  return 0;
}
