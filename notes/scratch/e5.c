#include "Cello.h"
int main(int argc, char** argv) {
  var s = new(String);
  char ref[512];
  const char* fi[] = {"%d","%5d","%-5d|","%05d","%+d","% d","%ld","%lld","%hhd","%hd","%x","%#x","%X","%o","%#o","%u","%lu","%i","%li","%c","%5c","%.3d","%zd","%jd", "a%db", "%d%d"};
  int64_t vals[] = {0, 1, -1, 42, 255, 65, 1LL<<40, INT64_MAX, INT64_MIN, -12345};
  int bad = 0, tot = 0;
  for (size_t a = 0; a < sizeof(fi)/sizeof(*fi); a++) for (size_t b = 0; b < 10; b++) {
    if (strstr(fi[a], "%d%d")) { int p = print_to(s, 0, fi[a], $I(vals[b]), $I(vals[b])); int q = snprintf(ref, 512, fi[a], (int)vals[b], (int)vals[b]); tot++; if (p != q || strcmp(ref, c_str(s))) { bad++; printf("MISMATCH fmt=%s v=%ld cello=[%s]/%d c=[%s]/%d\n", fi[a], vals[b], c_str(s), p, ref, q);} continue; }
    int p = print_to(s, 0, fi[a], $I(vals[b]));
    int q;
    if (strchr(fi[a], 'c')) q = snprintf(ref, 512, fi[a], (int)vals[b]);
    else if (strstr(fi[a], "ll") || strstr(fi[a],"l") || strchr(fi[a],'z') || strchr(fi[a],'j')) q = snprintf(ref, 512, fi[a], (long long)vals[b]);
    else q = snprintf(ref, 512, fi[a], (int)vals[b]);
    tot++;
    if (p != q || memcmp(ref, c_str(s), q+1)) { bad++; printf("MISMATCH fmt=%s v=%ld cello=[%s]/%d c=[%s]/%d\n", fi[a], vals[b], c_str(s), p, ref, q); }
  }
  const char* ff[] = {"%f","%.2f","%10.3f","%-10.1f|","%e","%E","%g","%G","%a","%.0f","%#.0f","%+f","%F"};
  double dv[] = {0.0, -0.0, 1.5, -2.25, 1e10, 1e-10, 1e300, 123456.789, INFINITY, -INFINITY};
  for (size_t a = 0; a < sizeof(ff)/sizeof(*ff); a++) for (size_t b = 0; b < 10; b++) {
    int p = print_to(s, 0, ff[a], $F(dv[b])); int q = snprintf(ref, 512, ff[a], dv[b]); tot++;
    if (p != q || strcmp(ref, c_str(s))) { bad++; printf("MISMATCH fmt=%s v=%g cello=[%s]/%d c=[%s]/%d\n", ff[a], dv[b], c_str(s), p, ref, q); }
  }
  const char* fs[] = {"%s","%10s","%-10s|","%.2s","%5.1s","x%sy%%z"};
  const char* sv[] = {"", "a", "hello world", "100%", "\xff\x80"};
  for (size_t a = 0; a < sizeof(fs)/sizeof(*fs); a++) for (size_t b = 0; b < 5; b++) {
    int p = print_to(s, 0, fs[a], $S((char*)sv[b])); int q = snprintf(ref, 512, fs[a], sv[b]); tot++;
    if (p != q || strcmp(ref, c_str(s))) { bad++; printf("MISMATCH fmt=%s v=%s cello=[%s]/%d c=[%s]/%d\n", fs[a], sv[b], c_str(s), p, ref, q); }
  }
  /* positions */
  assign(s, $S("0123456789"));
  int p = print_to(s, 4, "<%d>", $I(7)); printf("pos write: [%s] ret=%d (expect 0123<7> ret 7)\n", c_str(s), p);
  /* file sink */
  var f = new(File, $S("/tmp/cs/x/o.txt"), $S("w+")); int fp = print_to(f, 3, "ab%dcd%%", $I(5)); printf("file ret=%d (expect 3+6=9)\n", fp); sclose(f);
  printf("tot=%d bad=%d\n", tot, bad);
  return 0;
}
