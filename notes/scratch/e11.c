#include "Cello.h"
int main(int argc, char** argv) {
  var t = new(Table, Int, Int);
  set(t, $I(1), $I(2)); set(t, $I(2), $I(3)); set(t, $I(3), $I(4));
  var v = get(t, $I(1));
  printf("get(t, get(t,1)) = %ld (expect 3)\n", c_int(get(t, v)));
  var r = new(Tree, Int, Int);
  set(r, $I(1), $I(2)); set(r, $I(2), $I(3));
  printf("tree: get(r, get(r,1)) = %ld (expect 3)\n", c_int(get(r, get(r, $I(1)))));
  /* set using own value as key: set(t, get(t,1), 9) should set key 2 */
  set(t, get(t, $I(1)), $I(9)); printf("after set(t, get(t,1), 9): t[2]=%ld len=%zu\n", c_int(get(t,$I(2))), len(t));
  /* rem using own embedded key while iterating is out of contract; skip */
  /* copy/hash */
  var a = new(Array, Int, $I(1), $I(2)); var l = new(List, Int, $I(1), $I(2)); var tu = new(Tuple, $I(1), $I(2));
  printf("eq(a,l)=%d eq(l,tu)=%d hash eq %d %d\n", eq(a,l), eq(l,tu), hash(a)==hash(l), hash(l)==hash(tu));
  var c = copy(t); printf("copy table eq=%d hash=%d\n", eq(c,t), hash(c)==hash(t));
  var c2 = copy(tu); printf("copy tuple eq=%d\n", eq(c2, tu));
  var c3 = copy(r); printf("copy tree eq=%d hash=%d\n", eq(c3,r), hash(c3)==hash(r));
  /* tables equal by different insertion order */
  var t1 = new(Table, Int, Int), t2 = new(Table, Int, Int);
  for (int i=0;i<20;i++) set(t1,$I(i*5),$I(i)); for (int i=19;i>=0;i--) set(t2,$I(i*5),$I(i));
  printf("tables diff order: eq=%d hash eq=%d\n", eq(t1,t2), hash(t1)==hash(t2));
  return 0;
}
