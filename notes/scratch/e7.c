#include "Cello.h"
/* probe element: owns heap memory; token table */
struct Probe { int64_t tok; int64_t val; char* mem; };
static int64_t next_tok = 1; static char live[2000000]; static int64_t nlive=0; static int bad=0;
static void Probe_Assign(var self, var obj) { struct Probe* p = self; struct Probe* o = obj;
  if (p->tok == 0) { p->tok = next_tok++; live[p->tok]=1; nlive++; p->mem = malloc(8); }
  else if (!live[p->tok]) { bad++; printf("assign to dead token\n"); }
  p->val = o->val; }
static void Probe_Del(var self) { struct Probe* p = self; if (p->tok==0) return; if (!live[p->tok]) { bad++; printf("double destruct tok %ld\n", p->tok); return; } live[p->tok]=0; nlive--; free(p->mem); p->mem=NULL; }
static int Probe_Cmp(var self, var obj) { struct Probe* p=self; struct Probe* o=obj; return p->val<o->val?-1:p->val>o->val; }
static uint64_t Probe_Hash(var self) { struct Probe* p=self; return (uint64_t)p->val * 5; /* collide mod 5 */ }
var Probe = Cello(Probe, Instance(New, NULL, Probe_Del), Instance(Assign, Probe_Assign), Instance(Cmp, Probe_Cmp), Instance(Hash, Probe_Hash));
#define PV(v) $(Probe, 0, (v), NULL)
int main(int argc, char** argv) {
  unsigned seed = 777;
  var a = new(Array, Probe), l = new(List, Probe), t = new(Table, Probe, Probe), r = new(Tree, Probe, Probe);
  for (int step=0; step<200000 && !bad; step++) {
    seed = seed*1103515245+12345; int k = (seed>>16)%40; int op = (seed>>8)%16;
    switch (op) {
      case 0: push(a, PV(k)); break;
      case 1: if (len(a)) pop(a); break;
      case 2: if (len(a)) pop_at(a, $I(k % len(a))); break;
      case 3: if (len(a)) push_at(a, PV(k), $I(k % len(a))); break;
      case 4: push(l, PV(k)); break;
      case 5: if (len(l)) pop(l); break;
      case 6: if (len(l)) pop_at(l, $I(k % len(l))); break;
      case 7: if (len(l)) push_at(l, PV(k), $I(k % len(l))); break;
      case 8: case 9: set(t, PV(k), PV(step)); break;
      case 10: if (mem(t, PV(k))) rem(t, PV(k)); break;
      case 11: case 12: set(r, PV(k), PV(step)); break;
      case 13: if (mem(r, PV(k))) rem(r, PV(k)); break;
      case 14: if (k<3) { sort(a); } else if (k < 5) { var c = copy(a); del(c); } else if (k<7) { var c = copy(t); del(c);} else if (k<9) {var c=copy(r); del(c);} else if (k<10) { resize(a,0);} else if (k<11) {resize(l,0);} else if (k<12) {resize(r,0);} break;
      case 15: if (k<4) { var c = new(List, Probe); assign(c, a); del(c); } else if (k<8) { var c = new(Tree, Probe, Probe); assign(c, t); del(c);} break;
    }
    int64_t expect = len(a)+len(l)+2*len(t)+2*len(r);
    if (nlive != expect) { bad++; printf("step %d op %d k %d: live=%ld expect=%ld (a=%zu l=%zu t=%zu r=%zu)\n", step, op, k, nlive, expect, len(a),len(l),len(t),len(r)); }
  }
  del(a); del(l); del(t); del(r);
  printf("final live=%ld bad=%d\n", nlive, bad);
  return 0;
}
