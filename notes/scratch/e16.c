#include "Cello.h"
/* random Table<Int,Int> vs model with heavy collisions; black-box only */
int main(int argc, char** argv) {
  unsigned seed = 4242; int bad = 0; long ops = 0;
  int64_t M = 5LL*11*23*53*101;  /* collide mod all small sizes */
  for (int round = 0; round < 400 && !bad; round++) {
    var t = new(Table, Int, Int); int present[48] = {0}; int64_t val[48]; int n = 0;
    for (int step = 0; step < 300 && !bad; step++, ops++) {
      seed = seed*1103515245+12345; int k = (seed>>16)%48; int op = (seed>>8)%8;
      int64_t key = (k % 3 == 0) ? k * M : (k % 3 == 1 ? k*M + 4 : k);  /* families: home 0, home 4 (last slot of 5), plain */
      if (op < 4) { set(t, $I(key), $I(step)); if (!present[k]) { present[k]=1; n++; } val[k]=step; }
      else if (op < 6) { if (present[k]) { rem(t, $I(key)); present[k]=0; n--; } else { int caught=0; try { rem(t,$I(key)); } catch (e in KeyError) { caught=1; } if (!caught) { bad++; printf("rem absent no KeyError\n"); } } }
      else if (op == 6 && (seed & 0x1000)) { resize(t, 0); memset(present,0,sizeof present); n=0; }
      else if (op == 7 && (seed & 0x3000)==0) { resize(t, n + (seed>>20)%50 + 1); }
      if (len(t) != (size_t)n) { bad++; printf("round %d step %d: len %zu != %d\n", round, step, len(t), n); }
      int c = 0; foreach (kk in t) c++; if (c != n) { bad++; printf("iter count %d != %d\n", c, n); }
      for (int q = 0; q < 48 && !bad; q++) { int64_t kq = (q % 3 == 0) ? q * M : (q % 3 == 1 ? q*M + 4 : q);
        if (mem(t, $I(kq)) != present[q]) { bad++; printf("round %d step %d: mem(%d) mismatch\n", round, step, q); }
        else if (present[q] && c_int(get(t, $I(kq))) != val[q]) { bad++; printf("get mismatch\n"); } }
    }
    del(t);
  }
  printf("ops=%ld bad=%d\n", ops, bad);
  return 0;
}
