#include "Cello.h"
#include <sys/mman.h>
/* C17 probe: registry invariants under adversarial addresses (mirror of struct GC; scratch only) */
struct GCEntry { var ptr; uint64_t hash; bool root; bool marked; };
struct GCm { struct GCEntry* entries; size_t nslots, nitems, mitems; uintptr_t maxptr, minptr; var bottom; bool running; uintptr_t freenum; var* freelist; };
extern void GC_Mark(var gc); extern void GC_Sweep(var gc);
#define CELL 64
#define NCELL 200000
struct NodeA { int64_t id; var link; };
static char* arena; static unsigned char cellstate[NCELL]; /* 0 free 1 managed 2 root 3 raw(not registered) */
static int want = -1; static long dtorc[NCELL];
static var NodeA_Alloc(void); static void NodeA_Dealloc(var self);
static void NodeA_Del(var self) { size_t c = ((char*)self - arena)/CELL; dtorc[c]++; }
var NodeA = Cello(NodeA, Instance(Alloc, NodeA_Alloc, NodeA_Dealloc), Instance(New, NULL, NodeA_Del));
static var NodeA_Alloc(void) { int c = want; char* cell = arena + (size_t)c*CELL; memset(cell,0,CELL); return header_init(cell, NodeA, AllocHeap); }
static void NodeA_Dealloc(var self) { size_t c = ((char*)self - arena)/CELL; cellstate[c] = 0; }
static unsigned seed = 2718; static unsigned rnd(void) { seed = seed*1103515245u+12345u; return seed>>8; }
static var cellptr(int c) { return arena + (size_t)c*CELL + sizeof(struct Header); }
static int bad = 0; static long displaced=0, wraps=0;
static void invariants(struct GCm* g, const char* when) {
  size_t occ = 0;
  for (size_t i = 0; i < g->nslots; i++) { struct GCEntry* e = &g->entries[i]; if (!e->hash) continue; occ++;
    if (e->hash-1 != (((uintptr_t)e->ptr)>>3) % g->nslots) { bad++; printf("%s: home mismatch\n", when); return; }
    size_t d = (i + g->nslots - (e->hash-1)) % g->nslots;
    if (d > 0) { size_t p = (i + g->nslots - 1) % g->nslots; struct GCEntry* pe = &g->entries[p]; if (!pe->hash) { bad++; printf("%s: gap before displaced entry\n", when); return; } size_t pd = (p + g->nslots - (pe->hash-1)) % g->nslots; if (pd + 1 < d) { bad++; printf("%s: robin-hood order\n", when); return; } if (i == 0) wraps++; }
    if (e->marked) { bad++; printf("%s: stale mark\n", when); return; }
    if ((uintptr_t)e->ptr < g->minptr || (uintptr_t)e->ptr > g->maxptr) { bad++; printf("%s: bounds\n", when); return; }
    size_t c = ((char*)e->ptr - arena)/CELL; if ((char*)e->ptr >= arena && c < NCELL) { if (cellstate[c] != (e->root ? 2 : 1)) { bad++; printf("%s: entry for cell %zu state %d root %d\n", when, c, cellstate[c], e->root); return; } }
  }
  if (occ != g->nitems) { bad++; printf("%s: occ %zu != nitems %zu\n", when, occ, g->nitems); }
  if (g->nslots && g->nitems >= g->nslots) { bad++; printf("%s: full\n", when); }
}
static var case_thread(var args) {
  struct GCm* g = current(GC); var gc = g; memset(cellstate, 0, sizeof cellstate);
  volatile var hold[64]; int holdc[64]; for (int i=0;i<64;i++) { hold[i]=NULL; holdc[i]=-1; }
  int steps = 100 + rnd()%400; long live = 0;
  for (int st = 0; st < steps && !bad; st++) {
    int op = rnd()%10;
    if (op < 5) { /* alloc at residue r of current nslots */
      size_t ns = g->nslots ? g->nslots : 1; size_t r = (rnd()%4==0) ? ns-1 : rnd()%3; int c=-1;
      for (int tries=0; tries<4000; tries++) { int cc = rnd()%NCELL; if (cellstate[cc]) continue; if ((((uintptr_t)cellptr(cc))>>3) % ns == r % ns) { c = cc; break; } }
      if (c < 0) continue; want = c; int kind = rnd()%8; var p;
      if (kind == 0) { p = alloc_root(NodeA); cellstate[c]=2; } else if (kind == 1) { p = alloc_raw(NodeA); cellstate[c]=3; } else { p = alloc(NodeA); cellstate[c]=1; }
      ((struct NodeA*)p)->id = c; int h = rnd()%64; if (rnd()%3) { hold[h]=p; holdc[h]=c; }
    } else if (op < 7) { int h = rnd()%64; if (holdc[h] >= 0 && cellstate[holdc[h]]) { int c = holdc[h]; int stt = cellstate[c]; var p = (var)hold[h]; hold[h]=NULL; holdc[h]=-1; for (int k=0;k<64;k++) if (holdc[k]==c) { hold[k]=NULL; holdc[k]=-1; } if (stt==1) del(p); else if (stt==2) del_root(p); else del_raw(p); if (cellstate[c]) { bad++; printf("del did not release cell (state %d)\n", stt); } } }
    else if (op == 7) { int h = rnd()%64; hold[h]=NULL; holdc[h]=-1; }
    else { GC_Mark(gc); GC_Sweep(gc); }
    invariants(g, "after op");
    /* membership for all cells we know about (sampled) */
    for (int k = 0; k < 64 && !bad; k++) if (holdc[k] >= 0) { int c = holdc[k]; int expect = cellstate[c]==1 || cellstate[c]==2; if (mem(gc, cellptr(c)) != expect) { bad++; printf("mem mismatch cell %d state %d\n", c, cellstate[c]); } }
    for (int k = 0; k < 20 && !bad; k++) { int c = rnd()%NCELL; int expect = cellstate[c]==1 || cellstate[c]==2; if (mem(gc, cellptr(c)) != expect) { bad++; printf("mem mismatch random cell %d state %d\n", c, cellstate[c]); } }
  }
  /* release roots and raws so teardown is clean */
  for (int c = 0; c < NCELL; c++) { if (cellstate[c]==2) del_root(cellptr(c)); else if (cellstate[c]==3) del_raw(cellptr(c)); }
  return NULL;
}
int main(int argc, char** argv) {
  arena = mmap(NULL, (size_t)NCELL*CELL, PROT_READ|PROT_WRITE, MAP_PRIVATE|MAP_ANONYMOUS|MAP_NORESERVE, -1, 0);
  var fn = new_raw(Function); ((struct Function*)fn)->func = case_thread; int cases=0; int leftover=0;
  for (; cases < 1500 && !bad; cases++) { var t = new_raw(Thread, fn); call(t); join(t); del_raw(t); for (int c=0;c<NCELL;c++) if (cellstate[c]) leftover++; }
  printf("cases=%d bad=%d wraps=%ld leftover-after-teardown=%d\n", cases, bad, wraps, leftover);
  return 0;
}
