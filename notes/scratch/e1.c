#include "Cello.h"
int main(int argc, char** argv) {
  /* Table: update under collision */
  var t = new(Table, Int, Int);
  /* nslots sequence: 1,5,11 ... find keys colliding mod 5: Int hash = value */
  set(t, $I(5), $I(1)); set(t, $I(10), $I(2));
  printf("nslots-ish len=%zu\n", len(t));
  set(t, $I(5), $I(3));
  printf("after update len=%zu (expect 2)\n", len(t));
  size_t n=0; foreach(k in t) { printf(" key %ld -> %ld\n", c_int(k), c_int(get(t,k))); n++; }
  printf("iter count %zu\n", n);
  /* Int cmp */
  printf("cmp(0, 2^32)=%d  cmp(2^31,0)=%d cmp(INT64_MAX, -1)=%d\n", cmp($I(0), $I(1LL<<32)), cmp($I(1LL<<31), $I(0)), cmp($I(INT64_MAX), $I(-1)));
  /* Float hash */
  printf("eq(0.0,-0.0)=%d hash eq=%d\n", eq($F(0.0), $F(-0.0)), hash($F(0.0))==hash($F(-0.0)));
  /* Exception double fire */
  int outer=0, inner=0;
  try {
    try { throw(KeyError, "x"); } catch (e in KeyError) { inner++; }
  } catch (e in KeyError) { outer++; }
  printf("inner=%d outer=%d (expect 1,0) depth=%zu\n", inner, outer, len(current(Exception)));
  /* String look roundtrip */
  var s = new(String, $S("a\nb\"c\\d"));
  var out = new(String);
  int p = show_to(s, out, 0);
  var back = new(String);
  int q = look_from(back, out, 0);
  printf("shown=[%s] p=%d back=[%s] q=%d eq=%d\n", c_str(out), p, c_str(back), q, eq(s, back));
  /* Float look */
  var f = new(Float, $F(16777217.0)); var fo = new(String); show_to(f, fo, 0);
  var fb = new(Float); look_from(fb, fo, 0);
  printf("float shown=%s back=%f\n", c_str(fo), c_float(fb));
  /* Range len */
  printf("len(range(5,2))=%zu len(range(0,0,2))=%zu\n", len(range($I(5),$I(2))), len(range($I(0),$I(0),$I(2))));
  { size_t c=0; foreach(i in range($I(0),$I(9),$I(3))) c++; printf("range(0,9,3) fwd count=%zu len=%zu last=%ld\n", c, len(range($I(0),$I(9),$I(3))), c_int(iter_last(range($I(0),$I(9),$I(3))))); }
  printf("get(range(5), -10) = "); try { printf("%ld\n", c_int(get(range($I(5)), $I(-10)))); } catch(e) { printf("exc %s\n", c_str(e)); }
  return 0;
}
