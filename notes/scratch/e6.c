#include "Cello.h"
#include <assert.h>
struct Tree { var root; var ktype; var vtype; size_t ksize; size_t vsize; size_t nitems; };
static var L(var n){return *(var*)n;} static var R(var n){return *((var*)n+1);} static var P(var n){return (var)((uintptr_t)(*((var*)n+2)) & ~1UL);} static int RED(var n){ return n && ((uintptr_t)(*((var*)n+2)) & 1);} 
static int64_t KEY(var n){ return ((struct Int*)((char*)n + 3*sizeof(var) + sizeof(struct Header)))->val; }
static int bad=0;
static int chk(var n, var parent, int64_t lo, int64_t hi, int* cnt, int depth, int* maxd) {
  if (!n) return 1;
  (*cnt)++; if (depth>*maxd) *maxd=depth;
  if (P(n) != parent) { bad++; printf("parent link bad\n"); }
  int64_t k = KEY(n); if (k <= lo || k >= hi) { bad++; printf("order bad\n"); }
  if (RED(n) && (RED(L(n)) || RED(R(n)))) { bad++; printf("red-red\n"); }
  /* left holds larger keys */
  int bl = chk(L(n), n, k, hi, cnt, depth+1, maxd); int br = chk(R(n), n, lo, k, cnt, depth+1, maxd);
  if (bl != br) { bad++; printf("black height\n"); }
  return bl + (RED(n)?0:1);
}
int main(int argc, char** argv) {
  unsigned seed = 12345; 
  for (int round=0; round<300 && !bad; round++) {
    var t = new(Tree, Int, Int); char present[64]={0}; int n=0;
    for (int step=0; step<400 && !bad; step++) {
      seed = seed*1103515245+12345; int k = (seed>>16)%64; int op = (seed>>8)%3;
      if (op<2 && !(round%3==0 && op==1)) { set(t,$I(k),$I(step)); if(!present[k]){present[k]=1;n++;} }
      else if (present[k]) { rem(t,$I(k)); present[k]=0; n--; }
      if (len(t)!=(size_t)n) { bad++; printf("len mismatch\n"); }
      struct Tree* tt = (struct Tree*)t; int cnt=0, maxd=0;
      if (tt->root && RED(tt->root)) { bad++; printf("root red\n"); }
      chk(tt->root, NULL, INT64_MIN, INT64_MAX, &cnt, 1, &maxd);
      if (cnt!=n) { bad++; printf("count mismatch %d %d\n", cnt, n); }
      for (int q=0;q<64;q++) if (mem(t,$I(q)) != present[q]) { bad++; printf("mem mismatch\n"); break; }
      int64_t prev = INT64_MAX; int c=0; foreach(key in t) { if (c_int(key) >= prev) { bad++; printf("iter order\n"); } prev=c_int(key); c++; } if (c!=n) { bad++; printf("iter count\n"); }
      prev = INT64_MIN; c=0; for (var key=iter_last(t); key isnt Terminal; key=iter_prev(t,key)) { if (c_int(key) <= prev) { bad++; printf("riter order\n"); } prev=c_int(key); c++; } if (c!=n) { bad++; printf("riter count\n"); }
    }
    del(t);
  }
  printf("tree bad=%d\n", bad);
  return 0;
}
