#include "Cello.h"
static void dump(const char* tag, var a) { printf("%-34s len=%zu [", tag, len(a)); foreach (x in a) printf("%ld ", c_int(x)); printf("]\n"); }
#define TRY(tag, obj, stmt) try { stmt; dump(tag, obj); } catch (e) { printf("%-34s EXC %s; ", tag, c_str(e)); dump("", obj); }
int main(int argc, char** argv) {
  var i9 = new(Int, $I(9));
  { var a = new(Array, Int, $I(1),$I(2),$I(3)); TRY("array push_at -1", a, push_at(a,$I(9),$I(-1))); }
  { var a = new(Array, Int, $I(1),$I(2),$I(3)); TRY("array push_at -4", a, push_at(a,$I(9),$I(-4))); }
  { var a = new(Array, Int, $I(1),$I(2),$I(3)); TRY("array push_at 3(=len)", a, push_at(a,$I(9),$I(3))); }
  { var a = new(Array, Int); TRY("array(empty) push_at 0", a, push_at(a,$I(9),$I(0))); }
  { var a = new(List, Int, $I(1),$I(2),$I(3)); TRY("list push_at -1", a, push_at(a,$I(9),$I(-1))); }
  { var a = new(List, Int, $I(1),$I(2),$I(3)); TRY("list push_at -3", a, push_at(a,$I(9),$I(-3))); }
  { var a = new(List, Int, $I(1),$I(2),$I(3)); TRY("list push_at 3(=len)", a, push_at(a,$I(9),$I(3))); }
  { var a = new(List, Int); TRY("list(empty) push_at 0", a, push_at(a,$I(9),$I(0))); }
  { var a = new(Tuple, $I(1),$I(2),$I(3)); TRY("tuple push_at -1", a, push_at(a,i9,$I(-1))); }
  { var a = new(Tuple, $I(1),$I(2),$I(3)); TRY("tuple push_at 3(=len)", a, push_at(a,i9,$I(3))); }
  { var a = new(Tuple); TRY("tuple(empty) push_at 0", a, push_at(a,i9,$I(0))); }
  { var a = new(Array, Int, $I(1),$I(2),$I(3)); TRY("array resize 5", a, resize(a,5)); TRY("array resize 2", a, resize(a,2)); }
  { var a = new(List, Int, $I(1),$I(2),$I(3)); TRY("list resize 5", a, resize(a,5)); TRY("list resize 2", a, resize(a,2)); }
  { var a = new(Tuple, $I(1),$I(2),$I(3)); TRY("tuple resize 3(=len)", a, resize(a,3)); TRY("tuple resize 5", a, resize(a,5)); TRY("tuple resize 1", a, resize(a,1)); }
  { var t = new(Table, Int, Int, $I(1),$I(1),$I(2),$I(2),$I(3),$I(3)); TRY("table resize 2 (<len)", t, resize(t,2)); TRY("table resize 100", t, resize(t,100)); }
  { var t = new(Tree, Int, Int, $I(1),$I(1),$I(2),$I(2)); TRY("tree resize 5", t, resize(t,5)); TRY("tree resize 0", t, resize(t,0)); }
  { var a = new(Array, Int, $I(1),$I(2),$I(3)); TRY("array pop_at -3", a, pop_at(a,$I(-3))); TRY("array pop_at -3 again(oob)", a, pop_at(a,$I(-3))); }
  { var s = new(String, $S("abc")); try { resize(s, 6); printf("string resize 6: [%s] len=%zu\n", c_str(s), len(s)); resize(s,2); printf("string resize 2: [%s]\n", c_str(s)); } catch(e) {} }
  return 0;
}
