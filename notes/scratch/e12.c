#include "Cello.h"
int main(int argc, char** argv) {
  var t = new(Table, Int, Int);
  set(t, $I(5), $I(1)); set(t, $I(10), $I(2));
  printf("t order:"); foreach (k in t) printf(" %ld", c_int(k)); printf("\n");
  var c = copy(t);
  printf("c order:"); foreach (k in c) printf(" %ld", c_int(k)); printf("\n");
  printf("eq(copy(t), t) = %d (expect 1); hash eq=%d\n", eq(c, t), hash(c)==hash(t));
  var u = new(Table, Int, Int); assign(u, t); printf("eq(assign(u,t), t) = %d\n", eq(u,t));
  /* two tables same content different insertion order */
  var a = new(Table, Int, Int), b = new(Table, Int, Int);
  set(a,$I(5),$I(1)); set(a,$I(10),$I(2)); set(b,$I(10),$I(2)); set(b,$I(5),$I(1));
  printf("same map, different insertion order: eq=%d cmp=%d\n", eq(a,b), cmp(a,b));
  return 0;
}
