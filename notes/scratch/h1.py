import os, time
from hypothesis import given, settings, seed, strategies as st, event, HealthCheck, Phase
N=0
@seed(int(os.environ.get("VERIF_SEED","1")))
@settings(max_examples=3000, database=None, deadline=None, report_multiple_bugs=False, suppress_health_check=list(HealthCheck), phases=[Phase.generate, Phase.shrink])
@given(st.lists(st.tuples(st.sampled_from(["set","rem","get"]), st.integers(0,50), st.integers(-2**63, 2**63-1)), max_size=60))
def t(ops):
    global N; N+=1
    d={}
    for op,k,v in ops:
        if op=="set": d[k]=v
        elif op=="rem": d.pop(k,None)
    event("len>20" if len(ops)>20 else "short")
t0=time.time(); t(); print(N, "cases", time.time()-t0, "s")
