#include "Cello.h"
/* C19 probe: type_of / alloc class of obtained objects, and freeing ops on non-heap objects (fixed scratch lib) */
static int bad=0, cells=0;
static const char* an(var o) { intptr_t a = (intptr_t)header(o)->alloc; return a==AllocStatic?"static":a==AllocStack?"stack":a==AllocHeap?"heap":a==AllocData?"data":"??"; }
#define EXPECT_T(desc, obj, T, cls) do { cells++; var o_ = (obj); if (type_of(o_) != (T) || strcmp(an(o_), cls)) { bad++; printf("TYPE/CLASS %-32s type=%s alloc=%s (want %s/%s)\n", desc, c_str(type_of(o_)), an(o_), c_str(T), cls); } } while (0)
#define FREEOP(desc, obj, valexpr, stmt) do { cells++; var o_ = (obj); int64_t before = (valexpr); var exc = NULL; try { stmt; } catch (e) { exc = e; } int64_t after = (valexpr); \
  if (before != after) { bad++; printf("CHANGED  %-40s %ld -> %ld\n", desc, (long)before, (long)after); } \
  if (!exc) { printf("NOEXC    %-40s (object intact=%d)\n", desc, before==after); noexc++; } else if (exc != ResourceError && exc != ValueError) { bad++; printf("WRONGEXC %-40s %s\n", desc, c_str(exc)); } } while (0)
int main(int argc, char** argv) {
  int noexc = 0;
  var a = new(Array, Int, $I(1),$I(2)); var l = new(List, String, $S("x")); var t = new(Table, String, Int); set(t,$S("k"),$I(7)); var r = new(Tree, Int, Float); set(r,$I(3),$F(1.5));
  EXPECT_T("new Int", new(Int,$I(1)), Int, "heap"); EXPECT_T("new_raw", new_raw(Int,$I(1)), Int, "heap"); EXPECT_T("new_root", new_root(Int,$I(1)), Int, "heap"); EXPECT_T("alloc", alloc(Float), Float, "heap");
  EXPECT_T("$I", $I(1), Int, "stack"); EXPECT_T("copy($S)", copy($S("q")), String, "heap"); EXPECT_T("static Int type", Int, Type, "static"); EXPECT_T("Terminal", Terminal, Type, "static");
  EXPECT_T("array get", get(a,$I(0)), Int, "data"); EXPECT_T("array iter", iter_init(a), Int, "data"); EXPECT_T("list get", get(l,$I(0)), String, "data"); EXPECT_T("list iter_last", iter_last(l), String, "data");
  EXPECT_T("table key iter", iter_init(t), String, "data"); EXPECT_T("table get", get(t,$S("k")), Int, "data"); EXPECT_T("tree key iter", iter_init(r), Int, "data"); EXPECT_T("tree get", get(r,$I(3)), Float, "data");
  EXPECT_T("range iter", iter_init(range($I(3))), Int, "stack"); EXPECT_T("slice iter", iter_init(slice(a,$I(1))), Int, "data"); EXPECT_T("zip iter", iter_init(zip(a,a)), Tuple, "stack");
  var rt = new(Type, $S("RT"), $I(16)); EXPECT_T("runtime type", rt, Type, "heap"); EXPECT_T("obj of runtime type", new_with(rt, tuple()), rt, "heap");
  EXPECT_T("tuple()", tuple($I(1)), Tuple, "stack"); EXPECT_T("heap range value", iter_init(new(Range,$I(3))), Int, "heap");
  /* freeing ops on non-heap objects */
  var si = $I(41); var el = get(a,$I(0)); var ss = $S("lit"); var es = get(l,$I(0)); var st = tuple($I(1),$I(2),$I(3));
  FREEOP("del stack Int", si, c_int(si), del(si)); FREEOP("del_raw stack Int", si, c_int(si), del_raw(si)); FREEOP("del_root stack Int", si, c_int(si), del_root(si)); FREEOP("dealloc stack Int", si, c_int(si), dealloc(si));
  FREEOP("del embedded elem", el, c_int(el), del(el)); FREEOP("del_raw embedded elem", el, c_int(el), del_raw(el)); FREEOP("dealloc embedded elem", el, c_int(el), dealloc(el));
  FREEOP("del static type", Int, (int64_t)size(Int), del(Int)); FREEOP("dealloc static type", Int, (int64_t)size(Int), dealloc(Int)); FREEOP("del_raw Terminal", Terminal, (int64_t)(type_of(Terminal)==Type), del_raw(Terminal));
  FREEOP("destruct stack String", ss, (int64_t)strlen(c_str(ss)), destruct(ss)); FREEOP("resize stack String", ss, (int64_t)strlen(c_str(ss)), resize(ss, 10)); FREEOP("concat stack String", ss, (int64_t)strlen(c_str(ss)), concat(ss,$S("x"))); FREEOP("assign stack String", ss, (int64_t)strlen(c_str(ss)), assign(ss,$S("longer value")));
  FREEOP("print_to stack String", ss, (int64_t)strlen(c_str(ss)), print_to(ss,0,"%i",$I(12345)));
  FREEOP("push stack Tuple", st, (int64_t)len(st)*100+c_int(get(st,$I(0))), push(st,$I(4))); FREEOP("pop stack Tuple", st, (int64_t)len(st)*100+c_int(get(st,$I(0))), pop(st)); FREEOP("pop_at stack Tuple", st, (int64_t)len(st)*100+c_int(get(st,$I(0))), pop_at(st,$I(0)));
  FREEOP("push_at stack Tuple", st, (int64_t)len(st)*100+c_int(get(st,$I(0))), push_at(st,$I(4),$I(0))); FREEOP("resize stack Tuple", st, (int64_t)len(st)*100+c_int(get(st,$I(0))), resize(st,1)); FREEOP("concat stack Tuple", st, (int64_t)len(st)*100+c_int(get(st,$I(0))), concat(st,tuple($I(9)))); FREEOP("rem stack Tuple", st, (int64_t)len(st)*100+c_int(get(st,$I(0))), rem(st,$I(1)));
  FREEOP("destruct stack Tuple", st, (int64_t)len(st)*100+c_int(get(st,$I(0))), destruct(st)); FREEOP("assign stack Tuple", st, (int64_t)len(st)*100+c_int(get(st,$I(0))), assign(st, a));
  /* containers still fine */
  if (c_int(get(a,$I(0))) != 1 || len(a) != 2 || strcmp(c_str(get(l,$I(0))),"x")) { bad++; printf("container damaged\n"); }
  printf("cells=%d bad=%d noexc=%d\n", cells, bad, noexc);
  return 0;
}
