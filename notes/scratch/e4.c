#include "Cello.h"
static var work(var args) {
  int64_t id = c_int(get(args, $I(0)));
  struct Int* out = get(args, $I(1));
  int64_t acc = 0;
  var t = new(Table, Int, Int);
  for (int i = 0; i < 3000; i++) {
    set(t, $I(i % 97), $I(i + id));
    var tmp = new(Int, $I(i));  /* garbage */
    acc += c_int(tmp);
    try { if (i % 7 == 0) throw(KeyError, "k%i", $I(i)); acc += 1; } catch (e in KeyError) { acc += 3; }
    if (i % 50 == 0) { var l = new(List, Int); for (int j=0;j<20;j++) push(l, $I(j)); acc += len(l); }
  }
  foreach (k in t) { acc += c_int(get(t, k)); }
  out->val = acc;
  return NULL;
}
int main(int argc, char** argv) {
  enum { N = 16 };
  var th[N]; struct Int* res[N]; var fn = new_raw(Function); ((struct Function*)fn)->func = work;
  for (int i=0;i<N;i++) { res[i] = new_raw(Int, $I(0)); th[i] = new_raw(Thread, fn); }
  for (int i=0;i<N;i++) call(th[i], $I(0), res[i]);
  for (int i=0;i<N;i++) join(th[i]);
  int bad=0; for (int i=1;i<N;i++) if (res[i]->val != res[0]->val) bad++;
  printf("res0=%ld bad=%d\n", res[0]->val, bad);
  return 0;
}
