#include "Cello.h"
/* transcript workload: in-contract ops only; no addresses printed */
static bool gt_fn(var a, var b) { return gt(a,b); }
#ifdef CELLO_NGC
#undef main
#endif
int main(int argc, char** argv) {
  unsigned seed = 2024; uint64_t digest = 1469598103934665603ULL;
  #define MIX(x) do { digest ^= (uint64_t)(x); digest *= 1099511628211ULL; } while (0)
  var out = new_raw(String);
  for (int round = 0; round < 60; round++) {
    var a = new_raw(Array, Int), l = new_raw(List, String), t = new_raw(Table, String, Int), r = new_raw(Tree, Int, Float);
    for (int step = 0; step < 200; step++) {
      seed = seed*1103515245+12345; int x = (seed>>8); int op = x % 14; int64_t v = (x>>5) % 50; char sb[16]; snprintf(sb, 16, "k%ld", (long)v);
      switch (op) {
        case 0: case 1: push(a, $I(v)); break;
        case 2: if (len(a)) pop_at(a, $I(v % len(a))); break;
        case 3: push(l, $S(sb)); break;
        case 4: if (len(l)) { pop(l); } break;
        case 5: case 6: set(t, $S(sb), $I(step)); break;
        case 7: if (mem(t, $S(sb))) rem(t, $S(sb)); break;
        case 8: case 9: set(r, $I(v), $F(v * 0.5)); break;
        case 10: if (mem(r, $I(v))) rem(r, $I(v)); break;
        case 11: if (v < 5) sort(a); else if (v < 8) sort_by(a, gt_fn); break;
        case 12: { int c=0; try { get(t, $S("absent-key")); } catch (e in KeyError) { c=1; } MIX(c); } break;
        case 13: { int p = print_to(out, 0, "%5.2f|%-6s|%+li|%$|%x", $F(v*1.25), $S(sb), $I(v-25), $S(sb), $I(v*1000)); MIX(p); MIX(hash(out)); } break;
      }
      MIX(len(a)); MIX(len(l)); MIX(len(t)); MIX(len(r));
      if (step % 20 == 0) { foreach (i in a) MIX(c_int(i)); foreach (s in l) MIX(hash(s)); uint64_t th=0; foreach (k in t) th ^= hash(k) * 31 + c_int(get(t,k)); MIX(th); foreach (k in r) { MIX(c_int(k)); MIX((int64_t)(c_float(get(r,k))*4)); }
        foreach (p in enumerate(a)) { MIX(c_int(get(p,$I(0)))*7 + c_int(get(p,$I(1)))); } MIX(hash(a)); }
    }
    del_raw(a); del_raw(l); del_raw(t); del_raw(r);
  }
  printf("%016lx\n", (unsigned long)digest);
  return 0;
}
