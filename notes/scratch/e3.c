#include "Cello.h"
#include <sys/wait.h>
#include <unistd.h>
struct Probe { int64_t id; var link; };
static int ctor=0, dtor=0; static int dead[100000];
static void Probe_New(var self, var args) { struct Probe* p = self; p->id = c_int(get(args,$I(0))); p->link = len(args)>1 ? get(args,$I(1)) : NULL; ctor++; }
static void Probe_Del(var self) { struct Probe* p = self; dtor++; if (p->id>=0 && p->id<100000) dead[p->id]++; }
var Probe = Cello(Probe, Instance(New, Probe_New, Probe_Del));
static void mk(void) {}

/* noinline helpers so pointers don't linger on stack */
static void __attribute__((noinline)) clobber(void) { volatile char buf[8192]; for (int i=0;i<8192;i++) buf[i]=0; }
static void __attribute__((noinline)) put_tls(void) { var p = new_with(Probe, tuple($I(7))); set(current(Thread), $S("mykey"), p); }
static void __attribute__((noinline)) churn(int n) { for (int i=0;i<n;i++) { new_with(Probe, tuple($I(1000+i))); } }

static void t_tls(void) { mk(); put_tls(); clobber(); churn(2000); clobber(); printf("tls object dead? %d (expect 0) dtor=%d\n", dead[7], dtor); }
static void t_del_stopped(void) { mk(); var gc = current(GC); stop(gc); var x = new_with(Probe, tuple($I(5))); del(x); start(gc); printf("del while stopped: dead[5]=%d (expect 1)\n", dead[5]); }
static void __attribute__((noinline)) mkbox(void) { for (int i=0;i<50;i++) { var inner = new_with(Probe, tuple($I(i))); var b = new(Box, inner); (void)b; } }
static void t_box_sweep(void) { mk(); mkbox(); clobber(); churn(3000); clobber(); int once=0, never=0, twice=0; for (int i=0;i<50;i++) { if (dead[i]==1) once++; else if (dead[i]==0) never++; else twice++; } printf("box pointees: once=%d never=%d twice=%d\n", once, never, twice); }
static void __attribute__((noinline)) chain(int n, var* out) { var head = NULL; for (int i=0;i<n;i++) { head = new_with(Probe, tuple($I(i), head ? head : Terminal)); } *out = head; }
static var keep;
static void t_chain(int n) { mk(); var h; chain(n, &h); var holder = new_root(Ref, h); h = NULL; clobber(); churn(5000); printf("chain %d survived, dead[0]=%d\n", n, dead[0]); (void)holder; }
static void t_chain1e3(void){ t_chain(1000);} static void t_chain1e5(void){ t_chain(100000);} static void t_chain1e6(void){ t_chain(99999*10);} 
static int runchild(const char* name, void (*f)(void)) {
  fflush(stdout);
  pid_t p = fork();
  if (p == 0) { f(); fflush(stdout); _exit(0); }
  int st; waitpid(p, &st, 0);
  if (WIFSIGNALED(st)) printf("[%s] killed by signal %d\n", name, WTERMSIG(st));
  else printf("[%s] exit %d\n", name, WEXITSTATUS(st));
  return st;
}
int main(int argc, char** argv) {
  runchild("tls", t_tls);
  runchild("del_stopped", t_del_stopped);
  runchild("box_sweep", t_box_sweep);
  runchild("chain1e3", t_chain1e3);
  runchild("chain1e5", t_chain1e5);
  runchild("chain1e6", t_chain1e6);
  return 0;
}
