#include "Cello.h"
/* C16 random string ops vs libc model + C15 round trips, fixed scratch lib */
static unsigned seed = 555; static unsigned rnd(void) { seed = seed*1103515245u+12345u; return seed>>8; }
static char model[8192];
static void rstr(char* out, int maxlen, int alpha) { int n = rnd() % (maxlen+1); for (int i=0;i<n;i++) out[i] = alpha ? 'a' + rnd()%3 : (char)(1 + rnd()%255); out[n]=0; }
int main(int argc, char** argv) {
  long ops=0; int bad=0;
  for (int round=0; round<2000 && !bad; round++) {
    var s = new_raw(String); model[0]=0;
    for (int st=0; st<60 && !bad; st++, ops++) {
      char arg[64]; int op = rnd()%9; rstr(arg, 6, 1);
      size_t ml = strlen(model);
      switch (op) {
        case 0: assign(s, $S(arg)); strcpy(model, arg); break;
        case 1: case 2: if (ml < 4000) { concat(s, $S(arg)); strcat(model, arg); } break;
        case 3: if (ml < 4000) { append(s, $S(arg)); strcat(model, arg); } break;
        case 4: { size_t n = rnd()%(ml+8); resize(s, n); if (n < ml) model[n]=0; } break;
        case 5: { /* rem: operand derived from model half the time */ if (ml && rnd()%2) { size_t a = rnd()%ml, l = 1 + rnd()%(ml-a); memcpy(arg, model+a, l>60?60:l); arg[l>60?60:l]=0; }
                  char* p = strstr(model, arg); int raised=0; try { rem(s, $S(arg)); } catch (e in ValueError) { raised=1; }
                  if (p) { if (raised) { bad++; printf("rem present raised\n"); } memmove(p, p+strlen(arg), strlen(p+strlen(arg))+1); } else if (!raised) { bad++; printf("rem absent did not raise\n"); } } break;
        case 6: { if (ml && rnd()%2) { size_t a = rnd()%ml, l = 1 + rnd()%(ml-a); memcpy(arg, model+a, l>60?60:l); arg[l>60?60:l]=0; } if ((strstr(model,arg)!=NULL) != mem(s,$S(arg))) { bad++; printf("mem mismatch\n"); } } break;
        case 7: if (ml < 3000) { size_t pos = rnd()%(ml+1); int64_t v = (int64_t)rnd() - 8000000; int p = print_to(s, pos, "<%li|%s>", $I(v), $S(arg)); int q = snprintf(model+pos, 200, "<%li|%s>", (long)v, arg); if (p != (int)pos+q) { bad++; printf("print pos\n"); } } break;
        case 8: { int c = cmp(s, $S(arg)); int r = strcmp(model, arg); if ((c>0)-(c<0) != (r>0)-(r<0)) { bad++; printf("cmp\n"); } if (hash(s) != hash($S(model))) { bad++; printf("hash\n"); } } break;
      }
      if (strcmp(c_str(s), model) || len(s) != strlen(model)) { bad++; printf("round %d step %d op %d: [%s] vs model [%s]\n", round, st, op, c_str(s), model); }
    }
    del_raw(s);
  }
  printf("C16 ops=%ld bad=%d\n", ops, bad);
  /* C15 round trips */
  long rt=0; int bad15=0; var out = new_raw(String), back = new_raw(String), ib = new_raw(Int), fb = new_raw(Float);
  for (int i=0;i<200000 && !bad15;i++, rt++) {
    char raw[40]; rstr(raw, 30, 0);
    int p = show_to($S(raw), out, 0); int q = look_from(back, out, 0);
    if (p != q || strcmp(c_str(back), raw)) { bad15++; printf("string roundtrip fail p=%d q=%d\n", p, q); }
    int64_t v = ((int64_t)rnd() << 40) ^ ((int64_t)rnd() << 16) ^ rnd(); if (i%50==0) v = i%100 ? INT64_MIN : INT64_MAX;
    p = show_to($I(v), out, 0); q = look_from(ib, out, 0); if (p != q || c_int(ib) != v) { bad15++; printf("int roundtrip %ld -> %ld\n", (long)v, (long)c_int(ib)); }
    union { uint64_t u; double d; } u; u.u = ((uint64_t)rnd() << 40) ^ ((uint64_t)rnd() << 20) ^ rnd(); if (!isfinite(u.d)) u.d = 1.5;
    p = show_to($F(u.d), out, 0); q = look_from(fb, out, 0); double diff = fabs(c_float(fb) - u.d); double tol = 0.5e-6 + fabs(u.d) * 2.3e-16;
    if (p != q || diff > tol) { bad15++; printf("float roundtrip %a -> %a p=%d q=%d\n", u.d, c_float(fb), p, q); }
  }
  printf("C15 roundtrips=%ld bad=%d\n", rt*3, bad15);
  return 0;
}
