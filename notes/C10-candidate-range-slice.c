/* C10 candidate defect (gap review g3): Range and Slice implement Cmp but not Hash, and cannot be copied.
 *
 *   gcc -std=gnu99 -g -w -I/repo/include C10-candidate-range-slice.c <libCello.a> -lpthread -lm
 *
 * Observed on the unchanged tree (2fce51e):
 *   eq(range,range)=1 hash a=... b=...      (two different numbers: the default hash covers the `value` pointer)
 *   eq(slice,slice)=1 hash ... ...          (default hash covers the `range` pointer)
 *   copy(range) raised ValueError           (Range_Assign assigns into the NULL `value` of the fresh allocation)
 *   copy(slice) raised ValueError           (Slice_Assign likewise, `range` is NULL)
 * and at exit "Uncaught ValueError: Received NULL as value to 'type_of'": the half-built copies are registered with
 * the collector and their destructors del(NULL).
 * The same through the harness: ./check C10 --replay notes/C10-candidate-{range-eq-hash,range-copy,slice-eq-hash}.case
 */
#include "Cello.h"
int main(int argc, char** argv) {
  var a = range($I(0), $I(5));
  var b = new(Range, $I(0), $I(5));
  printf("eq(range,range)=%d hash a=%016lx b=%016lx\n", (int)eq(a,b), hash(a), hash(b));
  var xs = new(Array, Int, $I(1), $I(2), $I(3));
  var s1 = new(Slice, xs, $I(1));
  var s2 = new(Slice, xs, $I(1));
  printf("eq(slice,slice)=%d hash %016lx %016lx\n", (int)eq(s1,s2), hash(s1), hash(s2));
  try { var c = copy(b); printf("copy(range) ok eq=%d\n", (int)eq(c,b)); } catch (ex) { printf("copy(range) raised %s\n", c_str(ex)); }
  try { var c = copy(s1); printf("copy(slice) ok eq=%d\n", (int)eq(c,s1)); } catch (ex) { printf("copy(slice) raised %s\n", c_str(ex)); }
  return 0;
}
