/* ex_gc: collector histories.  Each case runs in a fresh Cello Thread (own collector, clean stack, full
 * teardown at thread exit) and is an op list over a heap graph of instrumented objects.  Used by C01
 * (reachability), C06 (finalised exactly once / everything released) and C17 (registry exactness).
 *
 * Ops (one per line): retype m | new h kind cls [target|residue|k base depth (noded: its destructor allocates k objects with ids base..)] | alloc h kind cls | copy h src | store s k t | unstore s k |
 * setat s i t | pushat s i t | popat s i | clear s | stk i h | unstk i | tls k h | untls k | del h | own h | dt h | collect | churn base n |
 * fill base max | many new base n cls | many del base n step | chain h base n how | stop | start | fin | alive h... | dump h |
 * mem h | gcchk | stat | joinlate n (first line only).
 *
 * Objects are named by small integer handles kept in a table the collector cannot see (static memory).
 * Link with -Wl,--wrap=malloc,--wrap=calloc,--wrap=realloc,--wrap=free for block accounting.
 */
#include "common.h"
#include <pthread.h>
#include <sys/mman.h>
#include <sched.h>

#define MAXOBJ 260000
#define CANARY 0xC0FFEE1234ABCDEFULL
#define DEADCAN 0xDEADDEADDEADDEADULL

enum { K_NODE, K_NODEA, K_REF, K_BOX, K_ARR, K_LST, K_TAB, K_TRE, K_TUP, K_TABR, K_ARRB,
       K_NODEB, K_NODEO, K_NODEZ, K_TRER, K_THR, K_LSTB, K_TABB, K_TREB, K_NODEM, K_NODED, K_TRE4, K_TAB4 };
enum { C_MANAGED, C_ROOT, C_RAW };
static const char* kind_names[] = { "node", "nodea", "ref", "box", "arr", "lst", "tab", "tre", "tup", "tabr", "arrb",
                                    "nodeb", "nodeo", "nodez", "trer", "thr", "lstb", "tabb", "treb", "nodem", "noded", "tre4", "tab4", NULL };
/* instrumented objects (destructor observed): plain 48-byte struct, the same from the arena, a 1 MiB struct whose last
 * two words are pointer fields, a 52-byte struct (size not a multiple of the word size), a type of size 0, a struct that
 * keeps its 4 pointer fields in a malloc'd side block and implements Mark to report them (the documented extension point),
 * a struct whose destructor allocates 0..4 managed, ledger-tracked Nodes (whenever and wherever it is finalised) */
static bool is_node(int kind) { return kind is K_NODE or kind is K_NODEA or kind is K_NODEB or kind is K_NODEO or kind is K_NODEZ or kind is K_NODEM or kind is K_NODED; }
static bool is_ptrobj(int kind) { return kind is K_REF or kind is K_BOX; }

struct Node { int64_t id; uint64_t canary; var out[4]; };
#define BIGPAD (1 << 20)
struct NodeB { int64_t id; uint64_t canary; var out[2]; char pad[BIGPAD]; var tail[2]; };
#define NODEO_SIZE 52    /* id, canary, out[4], 4 more bytes */
struct NodeM { int64_t id; uint64_t canary; var* side; };
struct NodeD { int64_t id; uint64_t canary; var out[4]; int64_t nborn; int64_t born_base; int64_t chain_base; int64_t depth; };

struct Led {
  var ptr; int kind, cls; int dtor; int released; bool used; bool explicit_del; bool unregistered; bool born_td; bool owned; long seq;
};
static volatile int in_teardown = 0;      /* the case's op list is finished: what runs now is the collector's teardown */
static long alloc_seq = 0;
static struct Led led[MAXOBJ];
static int led_hi = 0;
static int64_t finlog[MAXOBJ * 2]; static int nfin = 0, fin_reported = 0;
static char errmsg[512] = "";
/* pointer -> most recently allocated ledger id at that address (generation-stamped open addressing, no per-case clearing) */
#define PIDX (1 << 20)
static int pidx_id[PIDX]; static unsigned pidx_gen[PIDX]; static unsigned case_gen = 1;
static size_t pidx_hash(var p) { return (size_t)((((uintptr_t)p >> 3) * 0x9E3779B97F4A7C15ULL) >> 44) % PIDX; }
static void err(const char* fmt, int64_t a) { if (not errmsg[0]) { snprintf(errmsg, sizeof errmsg, fmt, (long long)a); } }
static int find_by_ptr(var p) {
  /* addresses are reused after a free: the most recently allocated object at this address is the one meant */
  size_t i = pidx_hash(p);
  for (size_t n = 0; n < PIDX; n++, i = (i + 1) % PIDX) {
    if (pidx_gen[i] isnt case_gen) { return -1; }
    if (led[pidx_id[i]].ptr is p) { return pidx_id[i]; }
  }
  return -1;
}
static void index_ptr(var p, int h) {
  size_t i = pidx_hash(p);
  for (size_t n = 0; n < PIDX; n++, i = (i + 1) % PIDX) {
    if (pidx_gen[i] isnt case_gen) { pidx_gen[i] = case_gen; pidx_id[i] = h; return; }
    if (pidx_id[i] is h or led[pidx_id[i]].ptr is p) { pidx_id[i] = h; return; }
  }
  harness_bug("pointer index full");
}
static void ledger_add(int h, var r, int kind, int cls) {
  led[h].used = true; led[h].ptr = r; led[h].kind = kind; led[h].cls = cls; led[h].dtor = 0; led[h].released = 0;
  led[h].explicit_del = false; led[h].unregistered = false; led[h].seq = ++alloc_seq;
  if (h > led_hi) { led_hi = h; }
  index_ptr(r, h);
}


/* ---- block accounting (worker thread only) -------------------------------------------- */
extern void* __real_malloc(size_t); extern void* __real_calloc(size_t, size_t);
extern void* __real_realloc(void*, size_t); extern void __real_free(void*);
static __thread int tracking = 0;
#define BSET (1 << 18)
static void* bset[BSET]; static long outstanding = 0; static long double_release = 0;
static size_t bhash(void* p) { return (size_t)(((uintptr_t)p >> 4) * 0x9E3779B97F4A7C15ULL) >> 46; }
static void bset_add(void* p) {
  size_t i = bhash(p) % BSET;
  for (size_t n = 0; n < BSET; n++, i = (i + 1) % BSET) { if (bset[i] is NULL or bset[i] is (void*)1) { bset[i] = p; outstanding++; return; } }
}
static bool bset_del(void* p) {
  size_t i = bhash(p) % BSET;
  for (size_t n = 0; n < BSET; n++, i = (i + 1) % BSET) {
    if (bset[i] is NULL) { return false; }
    if (bset[i] is p) { bset[i] = (void*)1; outstanding--; return true; }
  }
  return false;
}
/* a managed Node block must not be released before its destructor ran */
static void check_release(void* p) {
  struct Node* n = (struct Node*)((char*)p + sizeof(struct Header));
  /* only if this is a ledger object: id in range and ptr matches */
  (void)n;
}
void* __wrap_malloc(size_t n) { void* p = __real_malloc(n); if (tracking and p) { bset_add(p); } return p; }
void* __wrap_calloc(size_t a, size_t b) { void* p = __real_calloc(a, b); if (tracking and p) { bset_add(p); } return p; }
void* __wrap_realloc(void* o, size_t n) {
  bool was = false;
  if (tracking and o) { was = bset_del(o); }
  void* p = __real_realloc(o, n);
  if (tracking and p and (was or o is NULL)) { bset_add(p); }
  return p;
}
void __wrap_free(void* p) {
  if (tracking and p) { check_release(p); bset_del(p); }
  __real_free(p);
}

/* ---- Node: plain struct, no Mark instance (scanned conservatively), logging destructor - */
static void Node_New(var self, var args) {
  struct Node* n = self;
  n->id = c_int(get(args, $I(0)));
  n->canary = CANARY ^ (uint64_t)n->id;
}
static void Node_Del(var self) {
  struct Node* n = self;
  if (n->id < 0 or n->id >= MAXOBJ or not led[n->id].used or led[n->id].ptr isnt self) { err("destructor on unknown object id=%lld", n->id); return; }
  if (n->canary isnt (CANARY ^ (uint64_t)n->id)) { err("destructor sees corrupted/finalised object id=%lld", n->id); }
  led[n->id].dtor++;
  if (led[n->id].dtor > 1) { err("object finalised twice id=%lld", n->id); }
  if (nfin < MAXOBJ * 2) { finlog[nfin++] = n->id; }
  n->canary = DEADCAN;
}
static var Node = Cello(Node, Instance(New, Node_New, Node_Del));
/* same constructor / destructor (they only touch id and canary), different sizes */
static var NodeB = CelloObject(NodeB, sizeof(struct NodeB), Instance(New, Node_New, Node_Del));
static var NodeO = CelloObject(NodeO, NODEO_SIZE, Instance(New, Node_New, Node_Del));
/* size 0: the object pointer is the end of its block; identified by address */
static void NodeZ_New(var self, var args) { }
static void NodeZ_Del(var self) {
  int id = find_by_ptr(self);
  if (id < 0 or led[id].kind isnt K_NODEZ) { err("destructor on unknown zero-size object %lld", (int64_t)id); return; }
  led[id].dtor++;
  if (led[id].dtor > 1) { err("object finalised twice id=%lld", id); }
  if (nfin < MAXOBJ * 2) { finlog[nfin++] = id; }
}
static var NodeZ = CelloObject(NodeZ, 0, Instance(New, NodeZ_New, NodeZ_Del));
/* pointers live outside the struct: invisible to the conservative scan, reported through Mark */
static void NodeM_New(var self, var args) { Node_New(self, args); ((struct NodeM*)self)->side = calloc(4, sizeof(var)); }
static void NodeM_Del(var self) { struct NodeM* n = self; Node_Del(self); free(n->side); n->side = NULL; }
static void NodeM_Mark(var self, var gc, void(*f)(var,void*)) {
  struct NodeM* n = self;
  if (n->side is NULL) { return; }                 /* allocated, not constructed yet */
  for (int i = 0; i < 4; i++) { if (n->side[i] isnt NULL) { f(gc, n->side[i]); } }
}
static var NodeM = Cello(NodeM, Instance(New, NodeM_New, NodeM_Del), Instance(Mark, NodeM_Mark));
/* pointer field k of an instrumented object */
static var* field_of(int kind, var p, int64_t k) {
  if (kind is K_NODEB) { struct NodeB* b = p; return (k % 4) < 2 ? &b->out[k % 4] : &b->tail[k % 4 - 2]; }
  if (kind is K_NODEZ) { harness_bug("field of a zero-size object"); }
  if (kind is K_NODEM) { return &((struct NodeM*)p)->side[k % 4]; }
  return &((struct Node*)p)->out[k % 4];
}

/* ---- NodeA: same object, allocated from an arena at addresses chosen by the case ------ */
#define CELL 128
#define NCELL (1 << 15)
static char* arena = NULL; static unsigned char cellused[NCELL];
static int64_t want_res = -1; static uint64_t want_mod = 1;
static var NodeA;
static var NodeA_Alloc(void) {
  int64_t pick = -1;
  for (int64_t c = 0; c < NCELL; c++) {
    if (cellused[c]) { continue; }
    var obj = arena + c * CELL + sizeof(struct Header);
    if (want_res < 0 or (((uintptr_t)obj) >> 3) % want_mod is (uint64_t)want_res) { pick = c; break; }
  }
  if (pick < 0) {     /* no free cell in the requested residue class: any free cell will do (the residue is only a bias) */
    for (int64_t c = 0; c < NCELL; c++) { if (not cellused[c]) { pick = c; break; } }
  }
  if (pick < 0) { harness_bug("arena exhausted"); }
  cellused[pick] = 1;
  memset(arena + pick * CELL, 0, CELL);
  return header_init(arena + pick * CELL, NodeA, AllocHeap);
}
static void NodeA_Dealloc(var self) {
  int64_t c = ((char*)self - sizeof(struct Header) - arena) / CELL;
  struct Node* n = self;
  /* id was overwritten? the ledger entry is found by address (arena cells are never reused within a case) */
  int i = find_by_ptr(self);
  if (i >= 0 and led[i].used and led[i].kind is K_NODEA) {
    led[i].released++;
    if (led[i].released > 1) { err("arena object released twice id=%lld", i); }
    if (led[i].dtor isnt 1) { err("arena object released without being finalised id=%lld", i); }
  }
  (void)n;
  if (c < 0 or c >= NCELL or not cellused[c]) { err("release of a cell that is not in use %lld", c); return; }
  cellused[c] = 2;     /* never reused within a case: a stale registry entry would otherwise alias */
}
static var NodeA = CelloObject(NodeA, sizeof(struct Node), Instance(Alloc, NodeA_Alloc, NodeA_Dealloc), Instance(New, Node_New, Node_Del));

/* ---- CELLO_VERIF hooks ------------------------------------------------------------------ */
extern void Cello_Verif_GC_Stat(var self, size_t* nslots, size_t* nitems, size_t* mitems, uintptr_t* minptr, uintptr_t* maxptr, size_t* freenum, bool* running);
extern bool Cello_Verif_GC_Entry(var self, size_t i, var* ptr, uint64_t* home, bool* root, bool* marked);
extern void Cello_Verif_GC_Collect(var self);

/* ---- case text --------------------------------------------------------------------------- */
static char** lines = NULL; static size_t nlines = 0, clines = 0;
static FILE* out; static char* outbuf; static size_t outlen;

static int kind_of(const char* s) { for (int i = 0; kind_names[i]; i++) { if (strcmp(kind_names[i], s) is 0) { return i; } } harness_bug("kind"); return 0; }
static int hnd(const char* s) { int h = atoi(s); if (h < 0 or h >= MAXOBJ) { harness_bug("handle"); } return h; }
static var P(int h) { if (not led[h].used) { harness_bug("unused handle"); } return led[h].ptr; }

/* retype <mode>: the next container made by mk() is first constructed with scalar element types and some elements, and
 * only then becomes a container of the wanted types: 1 = assign from an empty container of those types, 2 = assign from
 * an empty Tuple (Array / List: element type becomes Ref), 3 = (managed only) it is the copy of an empty container */
static int retype_mode = 0;

/* a key type whose size is not a multiple of the pointer size (Tree does not round its key size) */
struct Tag4 { int32_t id; };
static var Tag4 = Cello(Tag4);
static var NodeD;                                   /* defined after mk(): its destructor calls mk() */
static int64_t noded_k = 0, noded_base = 0, noded_chain = 0, noded_depth = 1;      /* constructor arguments of the next noded */

static var mk(int h, int kind, int cls, var a0, var a1) {
  var type = NULL; var args = NULL;
  var t_seq_int = tuple(Int, $I(1), $I(2), $I(3)); var t_map_int = tuple(Int, Int, $I(1), $I(2), $I(3), $I(4)); var t_empty = tuple();
  /* all temporaries at function scope: $() objects die with their enclosing block */
  /* new(Ref|Box, x) dereferences x when x is itself a pointer object; wrap it so the new object points at x */
  var t_id = tuple($I(h)); var t_a0 = tuple($R(a0)); var t_ref = tuple(Ref); var t_intref = tuple(Int, Ref);
  var t_refref = tuple(Ref, Ref); var t_none = tuple(); var t_box = tuple(Box); var t_intbox = tuple(Int, Box); var t_tag4ref = tuple(Tag4, Ref);
  var t_d = tuple($I(h), $I(noded_k), $I(noded_base), $I(noded_chain), $I(noded_depth));
  switch (kind) {
    case K_NODED: type = NodeD; args = t_d; break;
    case K_NODEB: type = NodeB; args = t_id; break;
    case K_NODEO: type = NodeO; args = t_id; break;
    case K_NODEZ: type = NodeZ; args = t_id; break;
    case K_NODEM: type = NodeM; args = t_id; break;
    case K_TRER: type = Tree; args = t_refref; break;
    case K_TRE4: type = Tree; args = t_tag4ref; break;
    case K_TAB4: type = Table; args = t_tag4ref; break;     /* 4-byte keys: the value offset is the key size rounded up */      /* 4-byte keys: every value sits at an address that is 4 mod 8 */
    case K_THR: type = Thread; args = t_none; break;
    case K_LSTB: type = List; args = t_box; break;
    case K_TABB: type = Table; args = t_intbox; break;
    case K_TREB: type = Tree; args = t_intbox; break;
    case K_NODE: type = Node; args = t_id; break;
    case K_NODEA: type = NodeA; args = t_id; break;
    case K_REF: type = Ref; args = t_a0; break;
    case K_BOX: type = Box; args = t_a0; break;
    case K_ARR: type = Array; args = t_ref; break;
    case K_LST: type = List; args = t_ref; break;
    case K_TAB: type = Table; args = t_intref; break;
    case K_TABR: type = Table; args = t_refref; break;
    case K_TRE: type = Tree; args = t_intref; break;
    case K_TUP: type = Tuple; args = t_none; break;
    case K_ARRB: type = Array; args = t_box; break;
  }
  var r = NULL;
  bool seq = kind is K_ARR or kind is K_LST or kind is K_ARRB or kind is K_LSTB;
  bool map = kind is K_TAB or kind is K_TABR or kind is K_TRE or kind is K_TRER or kind is K_TABB or kind is K_TREB or kind is K_TRE4 or kind is K_TAB4;
  int mode = (seq or map) ? retype_mode : 0;
  if (seq or map) { retype_mode = 0; }
  if (mode is 3 and cls is C_MANAGED) {
    var src = new_raw_with(type, args);
    r = copy(src);
    del_raw(src);
  } else if (mode) {
    var first = seq ? t_seq_int : t_map_int;
    r = cls is C_MANAGED ? new_with(type, first) : cls is C_ROOT ? new_root_with(type, first) : new_raw_with(type, first);
    if (mode is 2 and (kind is K_ARR or kind is K_LST)) { assign(r, t_empty); }
    else { var src = new_raw_with(type, args); assign(r, src); del_raw(src); }
  } else {
    r = cls is C_MANAGED ? new_with(type, args) : cls is C_ROOT ? new_root_with(type, args) : new_raw_with(type, args);
  }
  ledger_add(h, r, kind, cls);
  return r;
}

/* ---- NodeD: a Node whose destructor allocates nborn managed objects with ledger ids born_base.. ----------------------
 * depth = number of allocating generations left: with depth > 1 the first child is again a NodeD (one child, depth - 1,
 * its child's id is chain_base, the next generation's chain_base + 1, ...), so chains are finite (at most 3 generations) */
static void NodeD_New(var self, var args) {
  struct NodeD* n = self; Node_New(self, args);
  n->nborn = c_int(get(args, $I(1))); n->born_base = c_int(get(args, $I(2)));
  n->chain_base = c_int(get(args, $I(3))); n->depth = c_int(get(args, $I(4)));
}
static long born_total = 0;
static void NodeD_Del(var self) {
  struct NodeD* n = self; int64_t k = n->nborn, base = n->born_base, chain = n->chain_base, depth = n->depth;
  Node_Del(self);
  if (led[n->id].dtor isnt 1) { return; }          /* a second finalisation (already reported) must not reuse the ids */
  for (int64_t i = 0; i < k; i++) {
    size_t ns, ni, mi, fn; uintptr_t mn, mx; bool run;
    Cello_Verif_GC_Stat(current(GC), &ns, &ni, &mi, &mn, &mx, &fn, &run);
    if (i is 0 and depth > 1 and depth <= 3) {
      noded_k = 1; noded_base = chain; noded_chain = chain + 1; noded_depth = depth - 1;
      mk((int)(base + i), K_NODED, C_MANAGED, NULL, NULL);
    } else {
      mk((int)(base + i), K_NODE, C_MANAGED, NULL, NULL);
    }
    led[base + i].unregistered = not run;
    led[base + i].born_td = in_teardown isnt 0;     /* allocated by a destructor that the teardown sweep ran */
    born_total++;
  }
}
static var NodeD = CelloObject(NodeD, sizeof(struct NodeD), Instance(New, NodeD_New, NodeD_Del));

static unsigned seen_stamp[MAXOBJ]; static unsigned stamp = 0;
static void registry_check(void) {
  var gc = current(GC);
  stamp++;
  size_t ns, ni, mi, fn; uintptr_t mn, mx; bool run;
  Cello_Verif_GC_Stat(gc, &ns, &ni, &mi, &mn, &mx, &fn, &run);
  const char* bad = NULL; size_t occ = 0, maxd = 0, disp = 0, wrap = 0;
  for (size_t i = 0; i < ns and not bad; i++) {
    var p, pp; uint64_t h, hp; bool root, marked, r2, m2;
    Cello_Verif_GC_Entry(gc, i, &p, &h, &root, &marked);
    if (h is 0) { continue; }
    occ++;
    if (h - 1 isnt (((uintptr_t)p) >> 3) % ns) { bad = "stored-home-mismatch"; break; }
    if (marked) { bad = "mark-bit-left-set"; break; }
    if ((uintptr_t)p < mn or (uintptr_t)p > mx) { bad = "outside-minptr-maxptr"; break; }
    size_t d = (i + ns - (size_t)(h - 1)) % ns;
    if (i < (size_t)(h - 1)) { wrap++; }
    if (d > maxd) { maxd = d; }
    if (d > 0) {
      disp++;
      size_t q = (i + ns - 1) % ns;
      Cello_Verif_GC_Entry(gc, q, &pp, &hp, &r2, &m2);
      if (hp is 0) { bad = "gap-in-probe-chain"; break; }
      if ((q + ns - (size_t)(hp - 1)) % ns + 1 < d) { bad = "probe-distance-order"; break; }
    }
    int id = find_by_ptr(p);
    if (id < 0) { bad = "entry-for-unknown-object"; break; }
    if (led[id].cls is C_RAW) { bad = "raw-object-registered"; break; }
    if (led[id].dtor > 0 and is_node(led[id].kind)) { bad = "finalised-object-still-registered"; break; }
    if (led[id].explicit_del) { bad = "deleted-object-still-registered"; break; }
    if (led[id].unregistered) { continue; }     /* allocated while stopped: documented as "not added", the property's wording would admit it: not asserted */
    if (root isnt (led[id].cls is C_ROOT)) { bad = "root-flag-mismatch"; break; }
    if (seen_stamp[id] is stamp) { bad = "pointer-registered-twice"; break; }
    seen_stamp[id] = stamp;
  }
  if (not bad and occ isnt ni) { bad = "occupied-ne-nitems"; }
  if (not bad and ns > 0 and occ >= ns) { bad = "no-empty-slot"; }
  /* every live managed/root ledger object must be a member, every other one must not */
  long live = 0;
  for (int i = 0; i <= led_hi and not bad; i++) {
    if (not led[i].used) { continue; }
    bool should = led[i].cls isnt C_RAW and not led[i].explicit_del and not led[i].unregistered
      and not (is_node(led[i].kind) and led[i].dtor > 0);
    if (not is_node(led[i].kind) and not led[i].explicit_del and led[i].cls isnt C_RAW) { continue; }  /* library types: finalisation not observable */
    if (led[i].unregistered and not led[i].explicit_del and led[i].dtor is 0) { continue; }              /* allocated while stopped, still alive: membership not asserted */
    bool ismem = mem(gc, led[i].ptr);
    if (should) { live++; }
    if (should and not ismem) { bad = "live-object-not-member"; fprintf(out, "id=%d ", i); }
    if (not should and ismem and not (led[i].kind is K_NODEA and led[i].released is 0 and led[i].dtor > 0)) {
      /* address reuse: a dead object's address may belong to a newer live object */
      int other = find_by_ptr(led[i].ptr);
      if (other is i or other < 0) { bad = "dead-object-still-member"; fprintf(out, "id=%d ", i); }
    }
  }
  fprintf(out, "nslots=%zu nitems=%zu occ=%zu maxd=%zu disp=%zu wrap=%zu live=%ld running=%d bad=%s", ns, ni, occ, maxd, disp, wrap, live, (int)run, bad ? bad : "-");
}

static void dump_targets(var c, int kind) {
  bool first = true;
  fputc('[', out);
  if (kind is K_THR) {
    for (int k = 0; k < 16; k++) {
      char key[32]; snprintf(key, sizeof key, "k%d", k);
      if (not mem(c, $S(key))) { continue; }
      if (not first) { fputc(',', out); } first = false;
      fprintf(out, "%d:%d", k, find_by_ptr(get(c, $S(key))));
    }
  } else if (kind is K_TAB or kind is K_TRE or kind is K_TABR or kind is K_TRER or kind is K_TABB or kind is K_TREB or kind is K_TRE4 or kind is K_TAB4) {
    size_t guard = 0;
    for (var k = iter_init(c); k isnt Terminal and guard++ < 100000; k = iter_next(c, k)) {
      var v = deref(get(c, k));
      if (not first) { fputc(',', out); } first = false;
      if (kind is K_TABR or kind is K_TRER) { fprintf(out, "%d:%d", find_by_ptr(deref(k)), find_by_ptr(v)); }
      else if (kind is K_TRE4 or kind is K_TAB4) { fprintf(out, "%d:%d", (int)((struct Tag4*)k)->id, find_by_ptr(v)); }
      else { fprintf(out, "%lld:%d", (long long)c_int(k), find_by_ptr(v)); }
    }
  } else {
    size_t guard = 0;
    for (var it = iter_init(c); it isnt Terminal and guard++ < 100000; it = iter_next(c, it)) {
      var v = kind is K_TUP ? it : deref(it);
      if (not first) { fputc(',', out); } first = false;
      fprintf(out, "%d", find_by_ptr(v));
    }
  }
  fputc(']', out);
}

static volatile var* stkroots;      /* lives in the worker's frame */
static volatile int worker_done = 0; static long joinlate = -1;

static void do_op(char** w, int n) {
  const char* op = w[0];
  #define OP(s) (strcmp(op, s) is 0)
  var gc = current(GC);
  if (OP("retype")) { retype_mode = atoi(w[1]); }
  else if (OP("new")) {                       /* new h kind cls [target | residue] */
    int h = hnd(w[1]); int kind = kind_of(w[2]); int cls = w[3][0] is 'm' ? C_MANAGED : (w[3][1] is 'o' ? C_ROOT : C_RAW);
    var a0 = NULL;
    if (is_ptrobj(kind)) { a0 = P(hnd(w[4])); }
    if (kind is K_NODED) {                     /* new h noded cls k base [depth] : children base..base+3, later generations base+4, base+5 */
      noded_k = n > 4 ? atoll(w[4]) : 0; noded_base = n > 5 ? hnd(w[5]) : 0; noded_depth = n > 6 ? atoll(w[6]) : 1; noded_chain = noded_base + 4;
    }
    if (kind is K_NODEA) {
      bool last_slot = n > 4 and strcmp(w[4], "last") is 0;
      want_res = (n > 4 and not last_slot) ? atoll(w[4]) : -1;
      size_t ns, ni, mi, fn; uintptr_t mn, mx; bool run;
      Cello_Verif_GC_Stat(gc, &ns, &ni, &mi, &mn, &mx, &fn, &run);
      /* the registry may grow on this very insertion: aim at the size it will have (only a bias for the
      ** address pattern; nothing is asserted about it) */
      {
        static const size_t primes[] = { 0, 1, 5, 11, 23, 53, 101, 197, 389, 683, 1259, 2417, 4733, 9371, 18617, 37097, 74093 };
        size_t need = (size_t)((double)(ni + 2) / 0.9), ideal = 0;
        for (size_t q = 0; q < sizeof primes / sizeof primes[0]; q++) { if (primes[q] >= need) { ideal = primes[q]; break; } }
        want_mod = ideal > ns ? ideal : ns;
        if (want_mod is 0) { want_mod = 1; }
      }
      if (n > 5) { want_mod = (uint64_t)atoll(w[5]); }
      if (last_slot) { want_res = (int64_t)want_mod - 1; }
      if (want_res >= 0) { want_res = want_res % (int64_t)want_mod; }
    }
    bool running_now = true;
    { size_t ns, ni, mi, fn; uintptr_t mn, mx; Cello_Verif_GC_Stat(gc, &ns, &ni, &mi, &mn, &mx, &fn, &running_now); }
    mk(h, kind, cls, a0, NULL);
    led[h].unregistered = not running_now and cls isnt C_RAW;
    fprintf(out, "new");
  }
  else if (OP("store")) {                /* store s k t */
    int s = hnd(w[1]); int64_t k = atoll(w[2]); var t = strcmp(w[3], "null") is 0 ? NULL : P(hnd(w[3]));
    char key[32]; snprintf(key, sizeof key, "k%lld", (long long)k);
    switch (led[s].kind) {
      case K_NODE: case K_NODEA: case K_NODEB: case K_NODEO: case K_NODEM: case K_NODED: *field_of(led[s].kind, P(s), k) = t; break;
      case K_REF: ref(P(s), t); break;
      case K_ARR: case K_LST: push(P(s), $R(t)); break;
      case K_ARRB: case K_LSTB: push(P(s), t); break;
      case K_BOX: ref(P(s), t); break;
      case K_TAB: case K_TRE: set(P(s), $I(k), $R(t)); break;
      case K_TRE4: case K_TAB4: set(P(s), $(Tag4, (int32_t)k), $R(t)); break;
      case K_TABB: case K_TREB: set(P(s), $I(k), $B(t)); break;      /* the Box element takes over the pointer */
      case K_TABR: case K_TRER: set(P(s), $R(P(hnd(w[2]))), $R(t)); break;
      case K_TUP: push(P(s), t); break;
      case K_THR: set(P(s), $S(key), t); break;
      default: harness_bug("store kind");
    }
  }
  else if (OP("unstore")) {              /* unstore s k */
    int s = hnd(w[1]); int64_t k = atoll(w[2]);
    char key[32]; snprintf(key, sizeof key, "k%lld", (long long)k);
    switch (led[s].kind) {
      case K_NODE: case K_NODEA: case K_NODEB: case K_NODEO: case K_NODEM: case K_NODED: *field_of(led[s].kind, P(s), k) = NULL; break;
      case K_REF: ref(P(s), NULL); break;
      case K_ARR: case K_LST: case K_TUP: case K_ARRB: case K_LSTB: pop(P(s)); break;
      case K_TAB: case K_TRE: case K_TABB: case K_TREB: rem(P(s), $I(k)); break;
      case K_TABR: case K_TRER: rem(P(s), $R(P(hnd(w[2])))); break;
      case K_TRE4: case K_TAB4: rem(P(s), $(Tag4, (int32_t)k)); break;
      case K_THR: rem(P(s), $S(key)); break;
      default: harness_bug("unstore kind");
    }
  }
  else if (OP("setat")) {                /* setat s i t : overwrite element i of an Array<Ref> / List<Ref> */
    var t = strcmp(w[3], "null") is 0 ? NULL : P(hnd(w[3]));
    set(P(hnd(w[1])), $I(atoll(w[2])), $R(t));
  }
  else if (OP("pushat")) {               /* pushat s i t : insert before element i (Array<Ref>, List<Ref>, heap Tuple) */
    int s = hnd(w[1]); var t = P(hnd(w[3]));
    if (led[s].kind is K_TUP) { push_at(P(s), t, $I(atoll(w[2]))); } else { push_at(P(s), $R(t), $I(atoll(w[2]))); }
  }
  else if (OP("popat")) { pop_at(P(hnd(w[1])), $I(atoll(w[2]))); }
  else if (OP("clear")) { resize(P(hnd(w[1])), 0); }
  else if (OP("stk")) { stkroots[atoi(w[1]) % 16] = P(hnd(w[2])); }
  else if (OP("unstk")) { stkroots[atoi(w[1]) % 16] = NULL; }
  else if (OP("tls")) { char key[32]; snprintf(key, sizeof key, "k%s", w[1]); set(current(Thread), $S(key), P(hnd(w[2]))); }
  else if (OP("untls")) { char key[32]; snprintf(key, sizeof key, "k%s", w[1]); rem(current(Thread), $S(key)); }
  else if (OP("del")) {
    int h = hnd(w[1]); var p = P(h);
    led[h].explicit_del = true;
    if (led[h].cls is C_MANAGED) { del(p); } else if (led[h].cls is C_ROOT) { del_root(p); } else { del_raw(p); }
    if (is_node(led[h].kind)) { fprintf(out, "dtor=%d", led[h].dtor); }
  }
  else if (OP("own")) { led[hnd(w[1])].owned = true; }     /* a root object handed to an owning Box: released by the Box's del, not by its own del_root */
  else if (OP("dt")) { fprintf(out, "dtor=%d", led[hnd(w[1])].dtor); }       /* destructor count of an instrumented object */
  else if (OP("collect")) { Cello_Verif_GC_Collect(gc); }
  else if (OP("alloc")) {                /* alloc h kind cls : alloc / alloc_root / alloc_raw without a constructor call */
    int h = hnd(w[1]); int kind = kind_of(w[2]); int cls = w[3][0] is 'm' ? C_MANAGED : (w[3][1] is 'o' ? C_ROOT : C_RAW);
    if (not is_node(kind) or kind is K_NODEM or kind is K_NODED) { harness_bug("alloc kind"); }
    var type = kind is K_NODE ? Node : kind is K_NODEA ? NodeA : kind is K_NODEB ? NodeB : kind is K_NODEO ? NodeO : NodeZ;
    want_res = -1;
    bool running_now = true;
    { size_t ns, ni, mi, fn; uintptr_t mn, mx; Cello_Verif_GC_Stat(gc, &ns, &ni, &mi, &mn, &mx, &fn, &running_now); }
    var r = cls is C_MANAGED ? alloc(type) : cls is C_ROOT ? alloc_root(type) : alloc_raw(type);
    if (kind isnt K_NODEZ) { struct Node* nd = r; nd->id = h; nd->canary = CANARY ^ (uint64_t)h; }
    ledger_add(h, r, kind, cls);
    led[h].unregistered = not running_now and cls isnt C_RAW;
  }
  else if (OP("fill")) {                 /* fill base max : short-lived Nodes until the registry holds exactly its threshold
                                         ** number of items, so that the NEXT managed allocation collects inside alloc() */
    int base = hnd(w[1]); int max = atoi(w[2]); int cnt = 0;
    while (cnt < max) {
      size_t ns, ni, mi, fn; uintptr_t mn, mx; bool run;
      Cello_Verif_GC_Stat(gc, &ns, &ni, &mi, &mn, &mx, &fn, &run);
      if (ni >= mi or not run) { break; }
      mk(base + cnt, K_NODE, C_MANAGED, NULL, NULL); cnt++;
    }
    fprintf(out, "filled=%d", cnt);
  }
  else if (OP("many")) {                 /* many new base cnt cls | many del base cnt step : bulk (de)allocation of plain Nodes;
                                         ** the registry is checked whenever its size changed and every 4096 operations */
    bool isnew = strcmp(w[1], "new") is 0; int base = hnd(w[2]); int cnt = atoi(w[3]);
    int cls = C_MANAGED; long step = 1;
    if (isnew) { cls = w[4][0] is 'm' ? C_MANAGED : (w[4][1] is 'o' ? C_ROOT : C_RAW); } else { step = atol(w[4]); }
    size_t last_ns = 0; { size_t ni, mi, fn; uintptr_t mn, mx; bool run; Cello_Verif_GC_Stat(gc, &last_ns, &ni, &mi, &mn, &mx, &fn, &run); }
    for (int i = 0; i < cnt; i++) {
      if (isnew) { mk(base + i, K_NODE, cls, NULL, NULL); }
      else {
        int h = base + (int)(((long)i * step) % cnt); var p = P(h);
        led[h].explicit_del = true;
        if (led[h].cls is C_MANAGED) { del(p); } else if (led[h].cls is C_ROOT) { del_root(p); } else { del_raw(p); }
        if (led[h].dtor isnt 1) { err("bulk del: object not finalised exactly once id=%lld", h); }
      }
      size_t ns, ni, mi, fn; uintptr_t mn, mx; bool run;
      Cello_Verif_GC_Stat(gc, &ns, &ni, &mi, &mn, &mx, &fn, &run);
      if (ns isnt last_ns or i % 4096 is 4095 or i is cnt - 1) { registry_check(); fputs(" | ", out); last_ns = ns; }
    }
  }
  else if (OP("copy")) {                 /* copy h src : the copy of an instrumented object gets its own identity in the ledger; copies of Ref and of the containers share the targets */
    int h = hnd(w[1]); int src = hnd(w[2]);
    bool running_now = true;
    { size_t ns, ni, mi, fn; uintptr_t mn, mx; Cello_Verif_GC_Stat(gc, &ns, &ni, &mi, &mn, &mx, &fn, &running_now); }
    var r = copy(P(src));
    if (is_node(led[src].kind) and led[src].kind isnt K_NODEZ) { struct Node* nd = r; nd->id = h; nd->canary = CANARY ^ (uint64_t)h; }
    if (led[src].kind is K_NODED) { ((struct NodeD*)r)->nborn = 0; }     /* the ids of the source's offspring are not reused */
    ledger_add(h, r, led[src].kind, C_MANAGED);
    led[h].unregistered = not running_now;
  }
  else if (OP("churn")) {                /* churn base n : n short-lived Nodes with ids base.. */
    int base = hnd(w[1]); int cnt = atoi(w[2]);
    for (int i = 0; i < cnt; i++) { mk(base + i, K_NODE, C_MANAGED, NULL, NULL); }
  }
  else if (OP("chain")) {                /* chain h base n how : h -> base -> base+1 ... (how: 0 field, 1 via Ref objects, 2 via one-element Lists) */
    int h = hnd(w[1]); int base = hnd(w[2]); int cnt = atoi(w[3]); int how = atoi(w[4]);
    var prev = P(h); int pk = led[h].kind;
    for (int i = 0; i < cnt; i++) {
      var nd = mk(base + 2 * i, K_NODE, C_MANAGED, NULL, NULL);
      if (how is 0) { *field_of(pk, prev, 0) = nd; }
      else if (how is 1) { var r = mk(base + 2 * i + 1, K_REF, C_MANAGED, nd, NULL); *field_of(pk, prev, 0) = r; }
      else { var l = mk(base + 2 * i + 1, K_LST, C_MANAGED, NULL, NULL); push(l, $R(nd)); *field_of(pk, prev, 0) = l; }
      prev = nd; pk = K_NODE;
    }
  }
  else if (OP("stop")) { stop(gc); }
  else if (OP("start")) { start(gc); }
  else if (OP("fin")) {
    fputs("fin", out);
    for (; fin_reported < nfin; fin_reported++) { fprintf(out, " %lld", (long long)finlog[fin_reported]); }
  }
  else if (OP("alive")) {                /* alive id... : must be not finalised, canary intact, registered */
    const char* bad = NULL; int badid = -1;
    for (int i = 1; i < n and not bad; i++) {
      int h = hnd(w[i]);
      if (not led[h].used) { harness_bug("alive of unknown"); }
      if (is_node(led[h].kind)) {
        if (led[h].dtor isnt 0) { bad = "finalised"; badid = h; break; }
        struct Node* nd = led[h].ptr;
        if (led[h].kind isnt K_NODEZ and (nd->canary isnt (CANARY ^ (uint64_t)h) or nd->id isnt h)) { bad = "canary"; badid = h; break; }
      }
      if (led[h].cls isnt C_RAW and not led[h].unregistered and not mem(gc, led[h].ptr)) { bad = "not-registered"; badid = h; break; }
      if (is_ptrobj(led[h].kind)) { (void)deref(led[h].ptr); }
      else if (led[h].kind is K_THR) { (void)mem(led[h].ptr, $S("k0")); }
      else if (not is_node(led[h].kind)) { (void)len(led[h].ptr); }
    }
    if (bad) { fprintf(out, "BAD id=%d %s", badid, bad); } else { fputs("alive", out); }
  }
  else if (OP("dump")) { int h = hnd(w[1]); dump_targets(P(h), led[h].kind); }
  else if (OP("mem")) { fprintf(out, "%d", (int)mem(gc, P(hnd(w[1])))); }
  else if (OP("gcchk")) { registry_check(); }
  else if (OP("stat")) {
    size_t ns, ni, mi, fn; uintptr_t mn, mx; bool run;
    Cello_Verif_GC_Stat(gc, &ns, &ni, &mi, &mn, &mx, &fn, &run);
    fprintf(out, "nslots=%zu nitems=%zu mitems=%zu", ns, ni, mi);
  }
  else { harness_bug("unknown op"); }
  #undef OP
}

/* overwrite dead frames below the worker so that stale copies of object pointers do not keep garbage alive
** (only makes collections more productive; correctness of the checks never depends on it) */
static void __attribute__((noinline)) scrub(void) {
  volatile char buf[24576];
  for (size_t i = 0; i < sizeof buf; i++) { buf[i] = 0; }
}
static void __attribute__((noinline)) collect_now(void) {
  Cello_Verif_GC_Collect(current(GC));
}

static var worker(var args) {
  volatile var roots[16];
  for (int i = 0; i < 16; i++) { roots[i] = NULL; }
  stkroots = roots;
  tracking = 1;
  char* w[MAXW];
  for (size_t li = 0; li < nlines; li++) {
    int n = split(lines[li], w, MAXW);
    if (n is 0) { continue; }
    if (strcmp(w[0], "joinlate") is 0) { fputc('\n', out); continue; }     /* handled by the main thread */
    var volatile exc = NULL;
    if (strcmp(w[0], "collect") is 0) {
      scrub();
      try { collect_now(); } catch (e) { exc = e; }
    } else {
      try { do_op(w, n); } catch (e) { exc = e; }
    }
    if (exc) { fprintf(out, " exc %s", c_str(exc)); }
    if (exc_depth() isnt 0) { fprintf(out, " depth=%d", exc_depth()); }
    if (errmsg[0]) { fprintf(out, " err=[%s]", errmsg); errmsg[0] = 0; }
    fputc('\n', out);
  }
  for (int i = 0; i < 16; i++) { roots[i] = NULL; }
  stkroots = NULL;
  in_teardown = 1;
  worker_done = 1;
  return NULL;
}

static struct Function worker_fn_body;

static bool main_mode = false; static long main_managed = 0;
static void __attribute__((destructor)) main_mode_report(void) {
  if (not main_mode) { return; }
  /* runs after the atexit handlers, i.e. after Cello_Exit tore the main collector down */
  long bad_m = 0, bad_r = 0, n_m = 0, first_bad = -1, born_td = 0, born_td_left = 0;
  for (int i = 0; i <= led_hi; i++) {
    if (not led[i].used or not is_node(led[i].kind)) { continue; }
    if (led[i].born_td) { born_td++; if (led[i].dtor is 0) { born_td_left++; } }
    int want = 1;
    if (led[i].cls isnt C_MANAGED or led[i].unregistered) { want = (led[i].explicit_del or led[i].owned) ? 1 : 0; }
    if (led[i].cls is C_MANAGED) { n_m++; }
    if (led[i].dtor isnt want) { if (led[i].cls is C_MANAGED) { bad_m++; } else { bad_r++; } if (first_bad < 0) { first_bad = i; } }
  }
  printf("teardown managed=%ld wrong_managed=%ld wrong_rootraw=%ld first=%ld outstanding=na born_td=%ld born_td_left=%ld err=[%s]\n", n_m, bad_m, bad_r, first_bad, born_td, born_td_left, errmsg);
  printf("done\n"); fflush(stdout);
}

int main(int argc, char** argv) {
  if (argc > 1 and strcmp(argv[1], "--main") is 0) {
    /* one case, executed in the main thread under the collector set up by Cello's main macro;
    ** teardown = Cello_Exit through atexit, reported by the destructor above */
    arena = mmap(NULL, (size_t)NCELL * CELL, PROT_READ | PROT_WRITE, MAP_PRIVATE | MAP_ANONYMOUS, -1, 0);
    while (true) {
      char* line = rd_line();
      if (line is NULL or strcmp(line, "end") is 0) { break; }
      if (nlines is clines) { clines = clines ? clines * 2 : 256; lines = __real_realloc(lines, clines * sizeof(char*)); }
      lines[nlines++] = strdup(line);
    }
    memset(led, 0, sizeof led);
    out = stdout;
    main_mode = true;
    worker(NULL);
    tracking = 0;
    fflush(stdout);
    return 0;
  }
  arena = mmap(NULL, (size_t)NCELL * CELL, PROT_READ | PROT_WRITE, MAP_PRIVATE | MAP_ANONYMOUS, -1, 0);
  if (arena is MAP_FAILED) { harness_bug("mmap"); }
  var fn = header_init(__real_calloc(1, sizeof(struct Header) + sizeof(struct Function)), Function, AllocStack);
  ((struct Function*)fn)->func = worker;
  while (true) {
    char* line = rd_line();
    if (line is NULL) { break; }
    if (strcmp(line, "end") isnt 0) {
      if (nlines is clines) { clines = clines ? clines * 2 : 256; lines = __real_realloc(lines, clines * sizeof(char*)); }
      lines[nlines++] = strdup(line);
      continue;
    }
    /* run the case */
    memset(led, 0, sizeof(struct Led) * (size_t)(led_hi + 1)); led_hi = 0; nfin = 0; fin_reported = 0; errmsg[0] = 0;
    case_gen++; retype_mode = 0; in_teardown = 0;
    memset(cellused, 0, sizeof cellused);
    memset(bset, 0, sizeof bset); outstanding = 0;
    out = open_memstream(&outbuf, &outlen);
    var thr = new_raw(Thread, fn);
    worker_done = 0; joinlate = -1;
    if (nlines > 0 and strncmp(lines[0], "joinlate ", 9) is 0) { joinlate = atol(lines[0] + 9); }
    call(thr);
    /* "joinlate n": join only after the thread's function has returned (plus n spins): join must still wait
    ** for the thread's exit, i.e. for the teardown of its collector.  Only a stimulus; the oracle is the ledger. */
    if (joinlate >= 0) {
      while (not worker_done) { sched_yield(); }
      for (volatile long sp = 0; sp < joinlate; sp++) { }
    }
    join(thr);
    tracking = 1;
    del_raw(thr);
    tracking = 0;
    /* teardown report: every managed Node finalised exactly once; roots/raw exactly by their own del */
    fclose(out);
    fputs(outbuf, stdout);
    free(outbuf); outbuf = NULL;
    long bad_m = 0, bad_r = 0, n_m = 0, first_bad = -1, born_td = 0, born_td_left = 0;
    for (int i = 0; i <= led_hi; i++) {
      if (not led[i].used or not is_node(led[i].kind)) { continue; }
      /* objects allocated by destructors during the teardown sweep are reported separately (each is one block) */
      if (led[i].born_td) { born_td++; if (led[i].dtor is 0) { born_td_left++; } }
      if (led[i].cls is C_MANAGED and not led[i].unregistered) { n_m++; if (led[i].dtor isnt 1) { bad_m++; if (first_bad < 0) { first_bad = i; } } }
      else if (led[i].cls is C_MANAGED) { int want = (led[i].explicit_del or led[i].owned) ? 1 : 0; if (led[i].dtor isnt want) { bad_m++; if (first_bad < 0) { first_bad = i; } } }
      else { int want = (led[i].explicit_del or led[i].owned) ? 1 : 0; if (led[i].dtor isnt want) { bad_r++; if (first_bad < 0) { first_bad = i; } } }
      if (led[i].kind is K_NODEA and led[i].dtor is 1 and led[i].released isnt 1) { bad_m++; if (first_bad < 0) { first_bad = i; } }
    }
    printf("teardown managed=%ld wrong_managed=%ld wrong_rootraw=%ld first=%ld outstanding=%ld born_td=%ld born_td_left=%ld err=[%s]\n",
      n_m, bad_m, bad_r, first_bad, outstanding, born_td, born_td_left, errmsg);
    printf("done\n"); fflush(stdout);
    for (size_t i = 0; i < nlines; i++) { free(lines[i]); }
    nlines = 0;
  }
  return 0;
}
