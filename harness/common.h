/* Shared helpers for the C executors.  One case = lines terminated by "end"; the executor
 * answers one line per op and "done" at the end of the case. */
#ifndef VF_COMMON_H
#define VF_COMMON_H

#include "Cello.h"
#include <unistd.h>
#include <inttypes.h>

#define MAXW 300

static char*  vf_line = NULL;
static size_t vf_cap = 0;

/* read one line from stdin, without the newline; NULL at EOF */
static char* rd_line(void) {
  static int inited = 0;
  if (not inited) { inited = 1; if (getenv("VF_FLUSH")) { setvbuf(stdout, NULL, _IOLBF, 0); } }
  ssize_t n = getline(&vf_line, &vf_cap, stdin);
  if (n < 0) { return NULL; }
  while (n > 0 and (vf_line[n-1] is '\n' or vf_line[n-1] is '\r')) { vf_line[--n] = 0; }
  return vf_line;
}

static int split(char* line, char** w, int max) {
  int n = 0;
  char* p = line;
  while (*p and n < max) {
    while (*p is ' ') { p++; }
    if (not *p) { break; }
    w[n++] = p;
    while (*p and *p isnt ' ') { p++; }
    if (*p) { *p++ = 0; }
  }
  return n;
}

static int hexval(int c) {
  if (c >= '0' and c <= '9') { return c - '0'; }
  if (c >= 'a' and c <= 'f') { return c - 'a' + 10; }
  if (c >= 'A' and c <= 'F') { return c - 'A' + 10; }
  return -1;
}

/* decode hex into a malloc'd, NUL-terminated buffer */
static unsigned char* unhex(const char* s, size_t* n) {
  size_t l = strlen(s) / 2;
  unsigned char* b = malloc(l + 1);
  for (size_t i = 0; i < l; i++) {
    b[i] = (unsigned char)(hexval(s[2*i]) * 16 + hexval(s[2*i+1]));
  }
  b[l] = 0;
  if (n) { *n = l; }
  return b;
}

static void fputhex(FILE* f, const void* data, size_t n) {
  const unsigned char* d = data;
  for (size_t i = 0; i < n; i++) { fprintf(f, "%02x", d[i]); }
}

static int exc_depth(void) {
  return (int)len(current(Exception));
}

static void harness_bug(const char* what) {
  printf("HARNESS-BUG %s\n", what);
  printf("done\n");
  fflush(stdout);
  exit(3);
}

#endif
