/* ex_exc: interpreter for try/catch/throw program trees (property C07), built on the REAL
 * Cello `try`, `catch`, `throw` macros.
 *
 * One case = one or more lines, each one program tree, executed one after another in the same
 * thread (so state leaking from one construct to the next is visible):
 *
 *   run  <tree>     interpret in this process
 *   fork <tree>     interpret in a forked child (for trees whose exception escapes everything);
 *                   the child's trace is relayed, followed by
 *                   "child exit=<n> sig=<n> uncaught=<Name|->"  (preceded by "child-sanitizer-report" when the
 *                   child's stderr holds a sanitizer report, which also exits with status 1)
 *
 *   trun <hold> <tree>    interpret in a fresh Cello Thread (new_raw(Thread, fn); call; join) while the calling
 *   tfork <hold> <tree>   thread sits inside <hold> open catch-all try blocks of its own; same trace lines (the
 *                   thread's own depth starts at 0).  "main-handler-ran" / "main-depth-changed" are never expected:
 *                   the blocks of another thread do not enclose the thread's code.
 *
 * Tree, prefix notation, blank separated:
 *   S <n> <tree>*n                      sequence
 *   T <id> <nf> <kind>*nf <body> <handler>
 *                                       try { body } catch (e [in f...]) { handler }; nf = 0: catch-all;
 *                                       the kinds of one filter are pairwise distinct (a filter is a set).
 *                                       One real try/catch site per arity (try0..try3); nesting through
 *                                       these is dynamic (real recursion of run()).
 *   N <id0> <cnt> <nf> <kind>*nf <body> <handler>
 *                                       cnt (1..2040) try blocks nested directly inside one another (dynamic
 *                                       nesting through the same real sites), ids id0 (outermost) .. id0+cnt-1, all
 *                                       with the same filter and the same handler subtree; T is N with cnt = 1.
 *                                       nf is 0..3, 5 or 8 (one real site per arity).
 *   X <kind>                            throw(K[kind], ...)
 *   Y <kind> <how>                      other ways of raising K[kind]: how 1 = raised by a library function called
 *                                       here (get of a missing key, cast, bad index ...; kinds 0-3 and 7-9 only),
 *                                       how 2 / 3 = throw with a 300 / 6000 character message argument, how 4 = a message
 *                                       format containing literal %% signs
 *   C <tree>                            real, non-inlined function call around the subtree
 *   M <id>                              print a mark
 *   L <t> <ids> <filters> <slots>       hand-written template t (1..4) with 2-3 LEXICALLY nested try
 *                                       blocks in one C function; see tmpl1..tmpl4 for the shapes.
 *                                       A slot that is a plain `X k` throws lexically inside the
 *                                       template function, anything else is interpreted by run().
 * kinds: 0 TypeError 1 KeyError 2 ValueError 3 IOError 4 UserExc 5 UserExcEOF 6 User (static user type objects, names related by prefix)
 *        7 IndexOutOfBoundsError 8 ClassError 9 FormatError
 *
 * Trace lines:
 *   begin <depth> | end <depth>         around each tree (depth = len(current(Exception)))
 *   pre <id> <depth> | post <id> <depth> before / after (normal completion of) each try/catch construct
 *   mark <id>
 *   handler <id> <Name> <same>          handler of try <id> entered; Name of the bound object (by identity
 *                                       against the known objects, '?' otherwise); same = bound object
 *                                       is the object passed to the last throw
 *   throw-returned                      throw() came back to its caller (never expected)
 */
#include "common.h"
#include <stdarg.h>
#include <signal.h>
#include <poll.h>
#include <errno.h>
#include <sys/types.h>
#include <sys/wait.h>
#ifdef __linux__
#include <sys/prctl.h>
#endif

enum { N_SEQ, N_TRY, N_THROW, N_CALL, N_MARK, N_TMPL };
enum { NKINDS = 20 };
enum { MAXF = 8 };

typedef struct Node Node;
struct Node {
  int kind;
  int id[3];        /* try ids (Try: id[0]; template: one per lexical level); Mark: id[0] */
  int nf[3];        /* filter arity per level */
  int f[3][MAXF];   /* filter kinds per level */
  int k;            /* Throw: kind; Template: template number */
  int cnt;          /* Try: number of directly nested levels (1 for T) */
  int how;          /* Throw: 0 plain, 1 raised by a library call, 2/3 long message */
  int nkid;
  Node** kid;
};

static var UserExc = CelloEmpty(UserExc);
/* user exception objects whose names are related by prefix (a filter must match the object, not a part of its name) */
static var UserExcEOF = CelloEmpty(UserExcEOF);
static var User = CelloEmpty(User);
/* a second, distinct exception object with the same type name as UserExc: filters match it (they compare by name), but
 * the object bound in the handler must be the one that was thrown, not the filter entry */
static var UserExcTwin = CelloEmpty(UserExc);
static var K[NKINDS];
static const char* KN[NKINDS] = { "TypeError", "KeyError", "ValueError", "IOError", "UserExc", "UserExcEOF", "User",
                                   "IndexOutOfBoundsError", "ClassError", "FormatError",
                                   /* the remaining built-in exception objects: every one is its own kind */
                                   "BusyError", "ResourceError", "OutOfMemoryError", "SegmentationError", "ProgramAbortedError",
                                   "DivisionByZeroError", "IllegalInstructionError", "ProgramInterruptedError",
                                   "ProgramTerminationError", "UserExcTwin" };

static var last_thrown = NULL;
static int in_child = 0;

/* ---- output ---------------------------------------------------------------------------- */
static void emitf(const char* fmt, ...) {
  va_list va;
  va_start(va, fmt);
  vprintf(fmt, va);
  va_end(va);
  if (in_child) { fflush(stdout); }   /* the child may be terminated deep inside the library */
}

static const char* kname(var e) {
  for (int i = 0; i < NKINDS; i++) { if (e is K[i]) { return KN[i]; } }
  return "?";
}

/* ids are evaluated before anything can longjmp; (ID) expressions only read the node and the level argument */
#define PRE(ID)        emitf("pre %d %d\n", (ID), exc_depth())
#define POST(ID)       emitf("post %d %d\n", (ID), exc_depth())
#define HANDLER(ID, E) emitf("handler %d %s %d\n", (ID), kname(E), (int)((E) is last_thrown))

/* ---- parser ---------------------------------------------------------------------------- */
#define POOL 8192
static Node  pool[POOL];   static int npool = 0;
static Node* kids[POOL];   static int nkids = 0;
static char* tk_save = NULL;
static char* tk_text = NULL;

static char* tok(void) {
  char* t = strtok_r(tk_text, " ", &tk_save);
  tk_text = NULL;
  if (t is NULL) { harness_bug("tree: unexpected end of line"); }
  return t;
}
static int tok_int(int lo, int hi) {
  char* t = tok(); char* e = NULL;
  long v = strtol(t, &e, 10);
  if (*e or v < lo or v > hi) { harness_bug("tree: bad integer"); }
  return (int)v;
}

/* per template: number of lexical levels, filter arity per level, number of slots */
static const struct { int levels; int arity[3]; int slots; } TM[5] = {
  {0, {0,0,0}, 0},
  {2, {2,1,0}, 5},     /* tmpl1 */
  {2, {0,3,0}, 5},     /* tmpl2 */
  {3, {1,0,2}, 8},     /* tmpl3 */
  {3, {3,0,1}, 7},     /* tmpl4 */
};

static Node* parse(void) {
  if (npool >= POOL) { harness_bug("tree: too many nodes"); }
  Node* n = &pool[npool++];
  memset(n, 0, sizeof *n);
  char* t = tok();
  if (t[1]) { harness_bug("tree: bad node tag"); }
  switch (t[0]) {
    case 'S': {
      n->kind = N_SEQ; n->nkid = tok_int(0, 64);
      if (nkids + n->nkid > POOL) { harness_bug("tree: too many children"); }
      n->kid = &kids[nkids]; nkids += n->nkid;
      for (int i = 0; i < n->nkid; i++) { n->kid[i] = parse(); }
      break;
    }
    case 'T': case 'N': {
      n->kind = N_TRY; n->id[0] = tok_int(0, 1000000);
      n->cnt = t[0] is 'N' ? tok_int(1, 2048) : 1;
      n->nf[0] = tok_int(0, MAXF);
      if (n->nf[0] is 4 or n->nf[0] is 6 or n->nf[0] is 7) { harness_bug("tree: no try site of this filter arity"); }
      for (int i = 0; i < n->nf[0]; i++) { n->f[0][i] = tok_int(0, NKINDS - 1); }
      if (nkids + 2 > POOL) { harness_bug("tree: too many children"); }
      n->nkid = 2; n->kid = &kids[nkids]; nkids += 2;
      n->kid[0] = parse(); n->kid[1] = parse();
      break;
    }
    case 'X': n->kind = N_THROW; n->k = tok_int(0, NKINDS - 1); break;
    case 'Y': n->kind = N_THROW; n->k = tok_int(0, NKINDS - 1); n->how = tok_int(1, 4); break;
    case 'M': n->kind = N_MARK; n->id[0] = tok_int(0, 1000000); break;
    case 'C': {
      n->kind = N_CALL;
      if (nkids + 1 > POOL) { harness_bug("tree: too many children"); }
      n->nkid = 1; n->kid = &kids[nkids]; nkids += 1;
      n->kid[0] = parse();
      break;
    }
    case 'L': {
      n->kind = N_TMPL; n->k = tok_int(1, 4);
      for (int l = 0; l < TM[n->k].levels; l++) { n->id[l] = tok_int(0, 1000000); }
      for (int l = 0; l < TM[n->k].levels; l++) {
        n->nf[l] = TM[n->k].arity[l];
        for (int i = 0; i < n->nf[l]; i++) { n->f[l][i] = tok_int(0, NKINDS - 1); }
      }
      n->nkid = TM[n->k].slots;
      if (nkids + n->nkid > POOL) { harness_bug("tree: too many children"); }
      n->kid = &kids[nkids]; nkids += n->nkid;
      for (int i = 0; i < n->nkid; i++) { n->kid[i] = parse(); }
      break;
    }
    default: harness_bug("tree: unknown node tag");
  }
  return n;
}

static Node* parse_line(char* text) {
  npool = 0; nkids = 0; tk_text = text; tk_save = NULL;
  Node* n = parse();
  if (tk_text isnt NULL) { harness_bug("tree: empty"); }
  if (strtok_r(NULL, " ", &tk_save) isnt NULL) { harness_bug("tree: trailing tokens"); }
  return n;
}

/* ---- interpreter ----------------------------------------------------------------------- */
static void run(Node* n);

static char longmsg[6001];

/* raise K[k] from inside a library function (the exception object is the library's own global) */
__attribute__((noinline)) static void lib_raise(int k) {
  switch (k) {
    case 0: { var f = new(File); assign(f, $I(1)); break; }                       /* TypeError: no Assign, types differ */
    case 1: { var t = new(Table, Int, Int); set(t, $I(1), $I(2)); get(t, $I(7)); break; }   /* KeyError */
    case 2: { cast($I(1), String); break; }                                       /* ValueError */
    case 3: { var f = new(File); stell(f); break; }                               /* IOError: File not open */
    case 7: { var a = new(Array, Int, $I(1)); get(a, $I(3)); break; }             /* IndexOutOfBoundsError */
    case 8: { len($I(1)); break; }                                                /* ClassError: Int has no Len */
    case 9: { var s = new(String, $S("")); print_to(s, 0, "%i"); break; }         /* FormatError: missing argument */
    default: harness_bug("tree: no library function raises this kind");
  }
  emitf("library-call-returned\n");
}

static void do_throw(int k, int how) {
  last_thrown = K[k];
  if (how is 1) { lib_raise(k); return; }
  if (how is 4) {
    /* a message format with a literal per cent sign and exactly the arguments it needs */
    throw(K[k], "kind %i is 100%% thrown, %s%%", $I(k), $S("really"));
  } else if (how >= 2) {
    size_t l = how is 2 ? 300 : 6000;
    memset(longmsg, 'm', l); longmsg[l] = 0;
    throw(K[k], "kind %i thrown: %s", $I(k), $S(longmsg));
  } else {
    throw(K[k], "kind %i thrown", $I(k));
  }
  emitf("throw-returned\n");
}

__attribute__((noinline)) static void call_tree(Node* n) {
  volatile char pad[96];                 /* a real frame of its own between the try sites */
  pad[0] = (char)n->kind; pad[95] = pad[0];
  run(n->kid[0]);
  pad[1] = pad[95];
}

/* One real try/catch site per filter arity.  A Try node with cnt > 1 re-enters its site from its own body
 * (level + 1) until cnt blocks are open, then runs the body subtree; every level has the node's handler. */
static void enter(Node* n, int level);
static void body(Node* n, int level) {
  if (level + 1 < n->cnt) { enter(n, level + 1); } else { run(n->kid[0]); }
}

__attribute__((noinline)) static void try0(Node* n, int level) {
  PRE(n->id[0] + level);
  try {
    body(n, level);
  } catch (e) {
    HANDLER(n->id[0] + level, e);
    run(n->kid[1]);
  }
  POST(n->id[0] + level);
}

__attribute__((noinline)) static void try1(Node* n, int level) {
  var f0 = K[n->f[0][0]];
  PRE(n->id[0] + level);
  try {
    body(n, level);
  } catch (e in f0) {
    HANDLER(n->id[0] + level, e);
    run(n->kid[1]);
  }
  POST(n->id[0] + level);
}

__attribute__((noinline)) static void try2(Node* n, int level) {
  var f0 = K[n->f[0][0]]; var f1 = K[n->f[0][1]];
  PRE(n->id[0] + level);
  try {
    body(n, level);
  } catch (e in f0, f1) {
    HANDLER(n->id[0] + level, e);
    run(n->kid[1]);
  }
  POST(n->id[0] + level);
}

__attribute__((noinline)) static void try3(Node* n, int level) {
  var f0 = K[n->f[0][0]]; var f1 = K[n->f[0][1]]; var f2 = K[n->f[0][2]];
  PRE(n->id[0] + level);
  try {
    body(n, level);
  } catch (e in f0, f1, f2) {
    HANDLER(n->id[0] + level, e);
    run(n->kid[1]);
  }
  POST(n->id[0] + level);
}

__attribute__((noinline)) static void try5(Node* n, int level) {
  var f0 = K[n->f[0][0]]; var f1 = K[n->f[0][1]]; var f2 = K[n->f[0][2]]; var f3 = K[n->f[0][3]]; var f4 = K[n->f[0][4]];
  PRE(n->id[0] + level);
  try {
    body(n, level);
  } catch (e in f0, f1, f2, f3, f4) {
    HANDLER(n->id[0] + level, e);
    run(n->kid[1]);
  }
  POST(n->id[0] + level);
}

__attribute__((noinline)) static void try8(Node* n, int level) {
  var f0 = K[n->f[0][0]]; var f1 = K[n->f[0][1]]; var f2 = K[n->f[0][2]]; var f3 = K[n->f[0][3]];
  var f4 = K[n->f[0][4]]; var f5 = K[n->f[0][5]]; var f6 = K[n->f[0][6]]; var f7 = K[n->f[0][7]];
  PRE(n->id[0] + level);
  try {
    body(n, level);
  } catch (e in f0, f1, f2, f3, f4, f5, f6, f7) {
    HANDLER(n->id[0] + level, e);
    run(n->kid[1]);
  }
  POST(n->id[0] + level);
}

static void enter(Node* n, int level) {
  switch (n->nf[0]) {
    case 0: try0(n, level); break;
    case 1: try1(n, level); break;
    case 2: try2(n, level); break;
    case 3: try3(n, level); break;
    case 5: try5(n, level); break;
    default: try8(n, level); break;
  }
}

/* A slot of a lexical template: a plain Throw is thrown right here, lexically inside the
 * function holding the nested try blocks; anything else is interpreted. */
#define SLOT(I) do { \
    Node* s_ = n->kid[I]; \
    if (s_->kind is N_THROW and s_->how is 0) { \
      last_thrown = K[s_->k]; \
      throw(K[s_->k], "kind %i thrown", $I(s_->k)); \
      emitf("throw-returned\n"); \
    } else { run(s_); } \
  } while (0)

/* tmpl1 == T(id0, S[s0, T(id1, s1, [b0], s2), s3], [a0,a1], s4) */
__attribute__((noinline)) static void tmpl1(Node* n) {
  var a0 = K[n->f[0][0]]; var a1 = K[n->f[0][1]]; var b0 = K[n->f[1][0]];
  PRE(n->id[0]);
  try {
    SLOT(0);
    PRE(n->id[1]);
    try {
      SLOT(1);
    } catch (e in b0) {
      HANDLER(n->id[1], e);
      SLOT(2);
    }
    POST(n->id[1]);
    SLOT(3);
  } catch (e in a0, a1) {
    HANDLER(n->id[0], e);
    SLOT(4);
  }
  POST(n->id[0]);
}

/* tmpl2 == T(id0, s0, ALL, S[s1, T(id1, s2, [b0,b1,b2], s3), s4])   (try inside a handler) */
__attribute__((noinline)) static void tmpl2(Node* n) {
  var b0 = K[n->f[1][0]]; var b1 = K[n->f[1][1]]; var b2 = K[n->f[1][2]];
  PRE(n->id[0]);
  try {
    SLOT(0);
  } catch (e) {
    HANDLER(n->id[0], e);
    SLOT(1);
    PRE(n->id[1]);
    try {
      SLOT(2);
    } catch (e2 in b0, b1, b2) {
      HANDLER(n->id[1], e2);
      SLOT(3);
    }
    POST(n->id[1]);
    SLOT(4);
  }
  POST(n->id[0]);
}

/* tmpl3 == T(id0, S[s0, T(id1, S[s1, T(id2, s2, [c0,c1], s3), s4], ALL, s5), s6], [a0], s7) */
__attribute__((noinline)) static void tmpl3(Node* n) {
  var a0 = K[n->f[0][0]]; var c0 = K[n->f[2][0]]; var c1 = K[n->f[2][1]];
  PRE(n->id[0]);
  try {
    SLOT(0);
    PRE(n->id[1]);
    try {
      SLOT(1);
      PRE(n->id[2]);
      try {
        SLOT(2);
      } catch (e in c0, c1) {
        HANDLER(n->id[2], e);
        SLOT(3);
      }
      POST(n->id[2]);
      SLOT(4);
    } catch (e) {
      HANDLER(n->id[1], e);
      SLOT(5);
    }
    POST(n->id[1]);
    SLOT(6);
  } catch (e in a0) {
    HANDLER(n->id[0], e);
    SLOT(7);
  }
  POST(n->id[0]);
}

/* tmpl4 == T(id0, S[T(id1, s0, ALL, s1), s2], [a0,a1,a2], S[s3, T(id2, s4, [c0], s5), s6]) */
__attribute__((noinline)) static void tmpl4(Node* n) {
  var a0 = K[n->f[0][0]]; var a1 = K[n->f[0][1]]; var a2 = K[n->f[0][2]]; var c0 = K[n->f[2][0]];
  PRE(n->id[0]);
  try {
    PRE(n->id[1]);
    try {
      SLOT(0);
    } catch (e) {
      HANDLER(n->id[1], e);
      SLOT(1);
    }
    POST(n->id[1]);
    SLOT(2);
  } catch (e in a0, a1, a2) {
    HANDLER(n->id[0], e);
    SLOT(3);
    PRE(n->id[2]);
    try {
      SLOT(4);
    } catch (e2 in c0) {
      HANDLER(n->id[2], e2);
      SLOT(5);
    }
    POST(n->id[2]);
    SLOT(6);
  }
  POST(n->id[0]);
}

static void run(Node* n) {
  switch (n->kind) {
    case N_SEQ:   for (int i = 0; i < n->nkid; i++) { run(n->kid[i]); } break;
    case N_MARK:  emitf("mark %d\n", n->id[0]); break;
    case N_THROW: do_throw(n->k, n->how); break;
    case N_CALL:  call_tree(n); break;
    case N_TRY:   enter(n, 0); break;
    case N_TMPL:
      switch (n->k) {
        case 1: tmpl1(n); break;
        case 2: tmpl2(n); break;
        case 3: tmpl3(n); break;
        default: tmpl4(n); break;
      }
      break;
  }
}

static void run_top(Node* root) {
  emitf("begin %d\n", exc_depth());
  run(root);
  emitf("end %d\n", exc_depth());
}

/* ---- execution in another thread -------------------------------------------------------- */
static struct { struct Header h; struct Function f; } thr_fn_s;
static var thr_fn;
static Node* thr_root;
static var thr_main(var args) { run_top(thr_root); return NULL; }

static void run_threaded(Node* root, int hold) {
  if (hold > 0) {
    try { run_threaded(root, hold - 1); } catch (e) { emitf("main-handler-ran %s\n", kname(e)); }
    return;
  }
  int d0 = exc_depth();
  thr_root = root;
  var th = new_raw(Thread, thr_fn);
  call(th);
  join(th);
  del_raw(th);
  if (exc_depth() isnt d0) { emitf("main-depth-changed %d %d\n", d0, exc_depth()); }
}

static int fork_hold = -1;      /* >= 0: the forked child runs the tree in a thread */

/* ---- forked execution ------------------------------------------------------------------ */
typedef struct { char* p; size_t n, cap; } Buf;
static void buf_add(Buf* b, const char* d, size_t n) {
  if (b->n + n + 1 > b->cap) { b->cap = (b->n + n + 1) * 2; b->p = realloc(b->p, b->cap); }
  memcpy(b->p + b->n, d, n); b->n += n; b->p[b->n] = 0;
}

static void run_forked(Node* root) {
  int po[2], pe[2];
  fflush(stdout);
  if (pipe(po) isnt 0 or pipe(pe) isnt 0) { harness_bug("pipe failed"); }
  pid_t pid = fork();
  if (pid < 0) { harness_bug("fork failed"); }
  if (pid is 0) {
    close(po[0]); close(pe[0]);
    dup2(po[1], 1); dup2(pe[1], 2);
    close(po[1]); close(pe[1]);
    in_child = 1;
#ifdef __linux__
    prctl(PR_SET_PDEATHSIG, SIGKILL);    /* never leave a spinning orphan behind */
#endif
    alarm(20);                           /* a tree runs in microseconds; this only bounds a livelock */
    if (fork_hold >= 0) { run_threaded(root, fork_hold); } else { run_top(root); }
    fflush(stdout);
    _exit(0);
  }
  close(po[1]); close(pe[1]);
  Buf out = {0}, err = {0};
  buf_add(&out, "", 0); buf_add(&err, "", 0);
  struct pollfd fds[2] = { { po[0], POLLIN, 0 }, { pe[0], POLLIN, 0 } };
  int open_fds = 2;
  char tmp[4096];
  while (open_fds > 0) {
    int r = poll(fds, 2, -1);
    if (r < 0) { if (errno is EINTR) { continue; } harness_bug("poll failed"); }
    for (int i = 0; i < 2; i++) {
      if (fds[i].fd < 0 or not (fds[i].revents & (POLLIN | POLLHUP | POLLERR))) { continue; }
      ssize_t k = read(fds[i].fd, tmp, sizeof tmp);
      if (k > 0) { buf_add(i is 0 ? &out : &err, tmp, (size_t)k); }
      else if (k is 0 or errno isnt EINTR) { close(fds[i].fd); fds[i].fd = -1; open_fds--; }
    }
  }
  int status = 0;
  while (waitpid(pid, &status, 0) < 0 and errno is EINTR) { }
  /* relay the child's trace; embedded NULs would only truncate (and then mismatch) */
  fputs(out.p, stdout);
  if (out.n > 0 and out.p[out.n - 1] isnt '\n') { fputs("\nTRUNCATED-LINE\n", stdout); }
  char name[64] = "-";
  char* u = strstr(err.p, "Uncaught ");
  if (u) {
    u += 9; size_t i = 0;
    while (u[i] and u[i] isnt '\n' and u[i] isnt ' ' and u[i] isnt '\r' and i + 1 < sizeof name) { name[i] = u[i]; i++; }
    name[i] = 0;
    if (i is 0) { strcpy(name, "-"); }
  }
  /* a sanitizer report ends the child with status 1 as well: it must not pass for the library's own exit */
  if (strstr(err.p, "Sanitizer") or strstr(err.p, "runtime error:")) { printf("child-sanitizer-report\n"); }
  printf("child exit=%d sig=%d uncaught=%s\n",
    WIFEXITED(status) ? WEXITSTATUS(status) : -1,
    WIFSIGNALED(status) ? WTERMSIG(status) : 0, name);
  free(out.p); free(err.p);
}

/* ---- main ------------------------------------------------------------------------------ */
int main(int argc, char** argv) {
  setvbuf(stdout, NULL, _IOLBF, 0);    /* a stuck or killed case still shows how far it got */
  K[0] = TypeError; K[1] = KeyError; K[2] = ValueError; K[3] = IOError; K[4] = UserExc; K[5] = UserExcEOF; K[6] = User;
  K[7] = IndexOutOfBoundsError; K[8] = ClassError; K[9] = FormatError;
  K[10] = BusyError; K[11] = ResourceError; K[12] = OutOfMemoryError; K[13] = SegmentationError; K[14] = ProgramAbortedError;
  K[15] = DivisionByZeroError; K[16] = IllegalInstructionError; K[17] = ProgramInterruptedError; K[18] = ProgramTerminationError; K[19] = UserExcTwin;
  thr_fn_s.f.func = thr_main; thr_fn = header_init(&thr_fn_s, Function, AllocStatic);
  if (EXIT_FAILURE isnt 1) { harness_bug("EXIT_FAILURE is not 1 on this platform"); }
  while (true) {
    char* line = rd_line();
    if (line is NULL) { break; }
    if (strcmp(line, "end") is 0) { printf("done\n"); fflush(stdout); continue; }
    if (strncmp(line, "run ", 4) is 0) { run_top(parse_line(line + 4)); }
    else if (strncmp(line, "fork ", 5) is 0) { fork_hold = -1; run_forked(parse_line(line + 5)); }
    else if (strncmp(line, "trun ", 5) is 0 or strncmp(line, "tfork ", 6) is 0) {
      char* p = line + (line[1] is 'r' ? 5 : 6);
      int hold = (int)strtol(p, &p, 10);
      if (hold < 0 or hold > 8 or *p isnt ' ') { harness_bug("bad hold count"); }
      if (line[1] is 'r') { run_threaded(parse_line(p + 1), hold); }
      else { fork_hold = hold; run_forked(parse_line(p + 1)); fork_hold = -1; }
    }
    else if (line[0] is 0) { continue; }
    else { harness_bug("unknown command"); }
  }
  return 0;
}
